//! Hook-free build: signs with the public API only and prints one line per signature:
//! "<salt hex> <fnv64 of the signature hex> <verify result>".
use falcon_rust::falcon512 as f;
use std::sync::{Arc, Mutex};

fn fnv(b: &[u8]) -> u64 {
    let mut h: u64 = 0xcbf29ce484222325;
    for x in b {
        h ^= *x as u64;
        h = h.wrapping_mul(0x100000001b3);
    }
    h
}

fn main() {
    let n: usize = std::env::args().nth(1).and_then(|s| s.parse().ok()).unwrap_or(2000);
    let threads = 8;
    let mut seed = [0u8; 32];
    seed[0] = 0x5a;
    let (sk, pk) = f::keygen(seed);
    let sk = Arc::new(sk);
    let pk = Arc::new(pk);
    let out = Arc::new(Mutex::new(Vec::new()));
    let mut hs = vec![];
    for t in 0..threads {
        let (sk, pk, out) = (sk.clone(), pk.clone(), out.clone());
        hs.push(std::thread::spawn(move || {
            let mut local = vec![];
            for i in 0..n / threads {
                let msg: Vec<u8> = if i % 2 == 0 { b"same message".to_vec() } else { format!("{}-{}", t, i).into_bytes() };
                let sig = f::sign(&msg, &sk);
                let ok = f::verify(&msg, &sig, &pk);
                let b = sig.to_bytes();
                let hex: String = b[1..41].iter().map(|x| format!("{:02x}", x)).collect();
                local.push(format!("{} {:016x} {}", hex, fnv(&b), ok));
            }
            out.lock().unwrap().extend(local);
        }));
    }
    for h in hs {
        h.join().unwrap();
    }
    for l in out.lock().unwrap().iter() {
        println!("{}", l);
    }
}
