//! libFuzzer target for C03 (thorough tier): the first byte selects how the rest is used.
//! Any panic (index, overflow, unwrap) aborts the process and is reported as a crash.
#![no_main]
use falcon_rust::{falcon1024 as f10, falcon512 as f5};
use libfuzzer_sys::fuzz_target;
use std::sync::OnceLock;

mod pk_fixture;

static PK5: OnceLock<f5::PublicKey> = OnceLock::new();
static PK10: OnceLock<f10::PublicKey> = OnceLock::new();

fn fit(data: &[u8], len: usize, header: u8) -> Vec<u8> {
    let mut v = vec![0u8; len];
    let k = data.len().min(len.saturating_sub(1));
    v[1..1 + k].copy_from_slice(&data[..k]);
    if len > 0 {
        v[0] = header;
    }
    v
}

fuzz_target!(|data: &[u8]| {
    if data.is_empty() {
        return;
    }
    let (sel, rest) = (data[0], &data[1..]);
    match sel % 10 {
        // raw bytes into every decoder
        0 => {
            let _ = f5::PublicKey::from_bytes(rest);
            let _ = f10::PublicKey::from_bytes(rest);
            let _ = f5::Signature::from_bytes(rest);
            let _ = f10::Signature::from_bytes(rest);
        }
        1 => {
            let _ = f5::SecretKey::from_bytes(rest);
            let _ = f10::SecretKey::from_bytes(rest);
        }
        // right length and header, fuzzer-controlled body
        2 => {
            let _ = f5::PublicKey::from_bytes(&fit(rest, 897, 9));
        }
        3 => {
            let _ = f10::PublicKey::from_bytes(&fit(rest, 1793, 10));
        }
        4 => {
            // secret key with the right shape: costs a key expansion when accepted
            let _ = f5::SecretKey::from_bytes(&fit(rest, 1281, 0x59));
        }
        // signature bodies through from_bytes + verify under a fixed public key
        5 | 6 | 7 => {
            let pk = PK5.get_or_init(|| f5::PublicKey::from_bytes(&pk_fixture::PK512).expect("fixture"));
            if let Ok(sig) = f5::Signature::from_bytes(&fit(rest, 666, 0x59)) {
                let _ = f5::verify(b"fuzz", &sig, pk);
            }
        }
        8 => {
            let pk = PK10.get_or_init(|| f10::PublicKey::from_bytes(&pk_fixture::PK1024).expect("fixture"));
            if let Ok(sig) = f10::Signature::from_bytes(&fit(rest, 1280, 0x5a)) {
                let _ = f10::verify(b"fuzz", &sig, pk);
            }
        }
        // fuzzer-controlled public key as well
        _ => {
            if rest.len() > 900 {
                if let (Ok(pk), Ok(sig)) = (f5::PublicKey::from_bytes(&fit(&rest[..896], 897, 9)), f5::Signature::from_bytes(&fit(&rest[896..], 666, 0x59))) {
                    let _ = f5::verify(b"fuzz", &sig, &pk);
                }
            }
        }
    }
});
