// placeholder: cargo-fuzz needs an enclosing cargo project
