//! Tail-steered signatures. An honest signature vector has coefficients of about +-165; one
//! beyond six standard deviations (|s2_j| > 1000) appears once in a million signatures, so the
//! code that handles such coefficients (rounding, i16 conversion, the unary part of the
//! compressed encoding, the reference implementation's parser) is never exercised by sampling.
//!
//! The signature vector is s = sum_i e_i b~_i, where e_i = z_i - mu_i is the error of the i-th
//! integer-sampler call and b~_i the Gram-Schmidt vector it belongs to. Choosing every e_i with
//! the sign of -b~_i[n+j] (each call returns floor(mu_i) or floor(mu_i)+1: both are ordinary
//! outputs of the sampler) adds the contributions up coherently in coefficient j of s2:
//! s2_j ~ -0.5 sum_i |b~_i[n+j]| ~ -1400 (Falcon-512) / -2000 (Falcon-1024), while the norm
//! stays far below the bound. The signs come from ONE run of the reference fast-Fourier
//! sampler (refs/ffs.rs) with all outputs 0 on the target e_{n+j} B^-1: its centres are
//! <e_{n+j}, b~_i> / |b~_i|^2 in call order. The generator hook then plays these bits.

use crate::fv::Fv;
use crate::refs::ffs;
use crate::refs::spec;

/// bits[i] = output of sampler call i relative to floor(centre); `flip` reverses the direction
/// (the sign convention of the signer's target is found by trying both).
pub fn plan<V: Fv>(sk: &V::Sk, j: usize, flip: bool) -> Option<Vec<bool>> {
    plan_half::<V>(sk, j, flip, true)
}

/// As `plan`, for coefficient j of s2 (`second_half`) or of s1 (the half of the signature
/// vector that is not transmitted: the verifier recomputes it as c - s2 h).
pub fn plan_half<V: Fv>(sk: &V::Sk, j: usize, flip: bool, second_half: bool) -> Option<Vec<bool>> {
    let n = V::N;
    let b0 = V::basis(sk);
    let tf = |p: &Vec<i16>, neg: bool| p.iter().map(|&x| if neg { -(x as f64) } else { x as f64 }).collect::<Vec<f64>>();
    let (g, f, cg, cf) = (tf(&b0[0], false), tf(&b0[1], true), tf(&b0[2], false), tf(&b0[3], true));
    let tree = ffs::tree(&f, &g, &cf, &cg, V::SIGMA);
    // target v = (0 | x^j):  t = v B^-1 = (1/q) (x^j G, -x^j g) in the signer's convention
    // (the signer uses t = (c F, -c f)/q for v = (c | 0)); an overall sign is left to `flip`
    let mut xj = vec![0.0f64; n];
    xj[j] = 1.0;
    let xh = ffs::fft(&xj);
    // v = (0 | x^j): t = (x^j G, -x^j g)/q;  v = (x^j | 0): t = (x^j F, -x^j f)/q
    let (ah, bh) = if second_half { (ffs::fft(&cg), ffs::fft(&g)) } else { (ffs::fft(&cf), ffs::fft(&f)) };
    let q = spec::Q as f64;
    let sgn = if flip { -1.0 } else { 1.0 };
    let t0: Vec<ffs::C> = (0..n).map(|i| xh[i].mul(ah[i]).scale(sgn / q)).collect();
    let t1: Vec<ffs::C> = (0..n).map(|i| xh[i].mul(bh[i]).scale(-sgn / q)).collect();
    let zeros = vec![0i64; 2 * n];
    let mut rp = ffs::Replay { zs: &zeros, pos: 0, expected: Vec::with_capacity(2 * n) };
    ffs::ffsampling(&t0, &t1, &tree, &mut rp)?;
    if rp.expected.len() != 2 * n {
        return None;
    }
    // centre_i > 0 means b~_i[n+j] > 0 (in this convention): to push s2_j DOWN take e_i <= 0
    // there (bit 0: z = floor(mu)) and e_i > 0 (bit 1: z = floor(mu) + 1) where it is negative
    Some(rp.expected.iter().map(|(c, _)| *c < 0.0).collect())
}
