//! Workload generators shared by the checks.

use rand::{Rng, RngCore};
use rand_chacha::ChaCha20Rng;

use crate::refs::spec;
use crate::util::{rng_for, NoProgress};

// ---------------------------------------------------------------------------
// messages

pub const MSG_SHAPES: usize = 12;

/// Message shapes: lengths around the SHAKE-256 rate (136) after the 40-byte salt, empty,
/// single byte, constant fills, large.
pub fn message(shape: usize, rng: &mut ChaCha20Rng, big: usize) -> (String, Vec<u8>) {
    match shape % MSG_SHAPES {
        0 => ("empty".into(), vec![]),
        1 => ("one-byte".into(), vec![rng.gen()]),
        2 => ("len95".into(), rand_bytes(rng, 95)),
        3 => ("len96".into(), rand_bytes(rng, 96)),
        4 => ("len97".into(), rand_bytes(rng, 97)),
        5 => ("len135".into(), rand_bytes(rng, 135)),
        6 => ("len232".into(), rand_bytes(rng, 232)), // 40+232 = 2*136
        7 => ("zeros-300".into(), vec![0u8; 300]),
        8 => ("ff-300".into(), vec![0xffu8; 300]),
        9 => ("4KiB".into(), rand_bytes(rng, 4096)),
        10 => {
            let l = rng.gen_range(0..2000);
            ("rand-len".into(), rand_bytes(rng, l))
        }
        _ => (format!("big-{}", big), rand_bytes(rng, big)),
    }
}

pub fn rand_bytes(rng: &mut impl RngCore, n: usize) -> Vec<u8> {
    let mut v = vec![0u8; n];
    rng.fill_bytes(&mut v);
    v
}

// ---------------------------------------------------------------------------
// scripted randomness for `sign`
//
// Draw pattern of the current signer (used only to *steer*, never as an oracle):
// fill_bytes(40) salt; per outer attempt fill_bytes(32); per integer-sampler iteration 17
// next_u32 calls: 9 base-sampler bytes, 1 sign byte, 7 Bernoulli bytes.

#[derive(Debug, Clone, PartialEq)]
pub enum Strategy {
    Honest,
    /// Bernoulli bytes forced to 0 (always accept) with probability `rate_pm`/1000 per
    /// sampler iteration, during the first `groups` iterations.
    ForceAccept { rate_pm: u32, groups: u64 },
    /// Bernoulli bytes forced to 0xFF (reject) for bursts; every `period`-th iteration honest.
    RejectBursts { period: u32, groups: u64 },
    /// base sampler bytes forced to 0xFF (z0 = 0) during the first `groups` iterations.
    ZeroBase { groups: u64 },
    /// first `prefix` draws are a constant byte / counter, then honest
    ConstPrefix { byte: u8, prefix: u64 },
    CounterPrefix { prefix: u64 },
    /// the first 40 bytes drawn (the salt) are given; everything else honest
    ForcedSalt { salt: Vec<u8> },
    /// honest, except that output positions [lo, hi) (counted over everything the generator
    /// hands out: one per byte of fill_bytes, one per next_u32) come from a stream determined
    /// by `shared_seed` alone: two generators with different labels and the same window agree
    /// exactly there and are independent everywhere else
    SharedWindow { lo: u64, hi: u64, shared_seed: u64 },
    /// like SharedWindow, but the shared positions all hold the same constant byte
    ConstWindow { lo: u64, hi: u64, byte: u8 },
    /// the first `groups` sampler iterations get these nine base-sampler bytes and this sign
    /// byte, and zero Bernoulli bytes (accept): the first `groups` samples are all the same
    /// chosen value; everything after is honest
    PlantSamples { groups: u64, base: [u8; 9], sign: u8 },
    /// like PlantSamples, but at the start of every `every`-th key-generation candidate (the
    /// generator polls the crate's candidate counter hook to see where candidates begin)
    PlantPerCandidate { groups: u64, base: [u8; 9], sign: u8, every: u64 },
    /// sampler call i (i < bits.len()) returns floor(centre) + bits[i] at its first iteration
    /// (base sampler bytes 0xff -> z0 = 0, sign byte = the bit, Bernoulli bytes 0 -> accept);
    /// honest afterwards
    Directed { bits: Vec<bool> },
    /// sampler iteration i (i < values.len()) is accepted at once with the output values[i]
    /// relative to floor(centre) (|value| <= 5): bytes[z0] are base-sampler bytes giving z0
    ScriptSamples { values: Vec<i16>, bytes: Vec<[u8; 9]> },
}

impl Strategy {
    pub fn name(&self) -> String {
        match self {
            Strategy::Honest => "honest".into(),
            Strategy::ForceAccept { rate_pm, groups } => format!("force-accept-{}pm-{}g", rate_pm, groups),
            Strategy::RejectBursts { period, groups } => format!("reject-bursts-p{}-{}g", period, groups),
            Strategy::ZeroBase { groups } => format!("zero-base-{}g", groups),
            Strategy::ConstPrefix { byte, prefix } => format!("const-{:02x}-{}", byte, prefix),
            Strategy::CounterPrefix { prefix } => format!("counter-{}", prefix),
            Strategy::ForcedSalt { .. } => "forced-salt".into(),
            Strategy::SharedWindow { lo, hi, .. } => format!("shared-window-{}-{}", lo, hi),
            Strategy::ConstWindow { lo, hi, byte } => format!("const-window-{}-{}-{:02x}", lo, hi, byte),
            Strategy::PlantSamples { groups, .. } => format!("plant-{}-samples", groups),
            Strategy::Directed { bits } => format!("directed-{}-calls", bits.len()),
            Strategy::ScriptSamples { values, .. } => format!("scripted-{}-samples", values.len()),
            Strategy::PlantPerCandidate { groups, every, .. } => format!("plant-{}-samples-every-{}-candidates", groups, every),
        }
    }
}

pub struct ScriptedRng {
    pub honest: ChaCha20Rng,
    pub strategy: Strategy,
    /// u32 draws since the last fill_bytes (position inside the sampler stream)
    pub pos: u64,
    pub total_u32: u64,
    pub fills: u64,
    /// draws handed out after the hostile prefix ended
    pub honest_draws: u64,
    pub budget: u64,
    pub first_fill: Option<Vec<u8>>,
    cur_force: bool,
    aux: ChaCha20Rng,
    shared: Option<ChaCha20Rng>,
    outpos: u64,
    /// key-generation candidates seen so far (PlantPerCandidate) and the draw count at which
    /// the current one began
    pub cand: u64,
    cand_start: u64,
    /// when Some: the low byte of every u32 handed out (the signer draws u32s only inside the
    /// integer sampler; salts and seeds come through fill_bytes and are not recorded)
    pub record: Option<Vec<u8>>,
}

impl ScriptedRng {
    pub fn new(seed: u64, label: &str, strategy: Strategy, budget: u64) -> Self {
        ScriptedRng {
            honest: rng_for(seed, label),
            aux: rng_for(seed, &format!("{}-aux", label)),
            shared: if let Strategy::SharedWindow { shared_seed, .. } = &strategy { Some(rng_for(*shared_seed, "shared-window")) } else { None },
            outpos: 0,
            cand: 0,
            cand_start: 0,
            record: None,
            strategy,
            pos: 0,
            total_u32: 0,
            fills: 0,
            honest_draws: 0,
            budget,
            first_fill: None,
            cur_force: false,
        }
    }
    fn hostile_active(&self) -> bool {
        let group = self.total_u32 / 17;
        match &self.strategy {
            Strategy::Honest => false,
            Strategy::ForceAccept { groups, .. } => group < *groups,
            Strategy::RejectBursts { groups, .. } => group < *groups,
            Strategy::ZeroBase { groups } => group < *groups,
            Strategy::ConstPrefix { prefix, .. } => self.total_u32 < *prefix,
            Strategy::CounterPrefix { prefix } => self.total_u32 < *prefix,
            Strategy::ForcedSalt { .. } | Strategy::SharedWindow { .. } | Strategy::ConstWindow { .. } => false,
            Strategy::PlantSamples { groups, .. } => group < *groups,
            Strategy::Directed { bits } => (group as usize) < bits.len(),
            Strategy::ScriptSamples { values, .. } => (group as usize) < values.len(),
            Strategy::PlantPerCandidate { groups, every, .. } => self.cand % *every == 1 % *every && (self.total_u32 - self.cand_start) / 17 < *groups,
        }
    }
    /// the shared stream advances with every output position; inside the window its byte wins
    fn window_byte(&mut self, own: u8) -> u8 {
        let p = self.outpos;
        self.outpos += 1;
        if let Strategy::ConstWindow { lo, hi, byte } = &self.strategy {
            return if p >= *lo && p < *hi { *byte } else { own };
        }
        if let (Some(sh), Strategy::SharedWindow { lo, hi, .. }) = (self.shared.as_mut(), &self.strategy) {
            let b = sh.next_u32() as u8;
            if p >= *lo && p < *hi {
                return b;
            }
        }
        own
    }
    fn draw_byte(&mut self) -> u8 {
        if let Strategy::PlantPerCandidate { .. } = self.strategy {
            let c = falcon_rust::verif_hooks::take_keygen_candidates();
            if c > 0 {
                self.cand += c as u64;
                self.cand_start = self.total_u32;
            }
        }
        let slot = self.total_u32 % 17; // 0..8 base, 9 sign, 10..16 bernoulli
        let active = self.hostile_active();
        if !active {
            self.honest_draws += 1;
            if self.honest_draws > self.budget {
                std::panic::panic_any(NoProgress);
            }
        }
        let honest: u32 = self.honest.next_u32();
        let out = if !active {
            honest as u8
        } else {
            match self.strategy.clone() {
                Strategy::ForceAccept { rate_pm, .. } => {
                    if slot == 0 {
                        self.cur_force = self.aux.gen_range(0..1000) < rate_pm;
                    }
                    if slot >= 10 && self.cur_force {
                        0
                    } else {
                        honest as u8
                    }
                }
                Strategy::RejectBursts { period, .. } => {
                    let group = self.total_u32 / 17;
                    if slot >= 10 && (group % period as u64) != (period as u64 - 1) {
                        0xff
                    } else {
                        honest as u8
                    }
                }
                Strategy::ZeroBase { .. } => {
                    if slot < 9 {
                        0xff
                    } else {
                        honest as u8
                    }
                }
                Strategy::ConstPrefix { byte, .. } => byte,
                Strategy::CounterPrefix { .. } => self.total_u32 as u8,
                Strategy::Honest | Strategy::ForcedSalt { .. } | Strategy::SharedWindow { .. } | Strategy::ConstWindow { .. } => honest as u8,
                Strategy::ScriptSamples { values, bytes } => {
                    let z = values[(self.total_u32 / 17) as usize];
                    let (b, z0) = if z > 0 { (1u8, (z - 1) as usize) } else { (0u8, (-z) as usize) };
                    if slot < 9 {
                        bytes[z0.min(bytes.len() - 1)][slot as usize]
                    } else if slot == 9 {
                        b
                    } else {
                        0
                    }
                }
                Strategy::Directed { bits } => {
                    let group = (self.total_u32 / 17) as usize;
                    if slot < 9 {
                        0xff
                    } else if slot == 9 {
                        bits[group] as u8
                    } else {
                        0
                    }
                }
                Strategy::PlantSamples { base, sign, .. } | Strategy::PlantPerCandidate { base, sign, .. } => {
                    if slot < 9 {
                        base[slot as usize]
                    } else if slot == 9 {
                        sign
                    } else {
                        0
                    }
                }
            }
        };
        let out = self.window_byte(out);
        self.total_u32 += 1;
        self.pos += 1;
        out
    }
}

impl RngCore for ScriptedRng {
    fn next_u32(&mut self) -> u32 {
        // the signer only keeps the low byte of each u32; fill the rest honestly
        let b = self.draw_byte() as u32;
        if let Some(r) = self.record.as_mut() {
            r.push(b as u8);
        }
        let hi: u32 = self.aux.next_u32() & 0xffff_ff00;
        hi | b
    }
    fn next_u64(&mut self) -> u64 {
        (self.next_u32() as u64) | ((self.next_u32() as u64) << 32)
    }
    fn fill_bytes(&mut self, dest: &mut [u8]) {
        self.honest.fill_bytes(dest);
        if let Strategy::ConstPrefix { byte, .. } = self.strategy {
            if self.fills == 0 {
                // low-entropy salt
                for d in dest.iter_mut() {
                    *d = byte;
                }
            }
        }
        if let Strategy::ForcedSalt { salt } = &self.strategy {
            if self.fills == 0 && dest.len() == salt.len() {
                dest.copy_from_slice(salt);
            }
        }
        if self.shared.is_some() || matches!(self.strategy, Strategy::ConstWindow { .. }) {
            for d in dest.iter_mut() {
                *d = self.window_byte(*d);
            }
        }
        if self.first_fill.is_none() {
            self.first_fill = Some(dest.to_vec());
        }
        self.fills += 1;
        self.pos = 0;
    }
    fn try_fill_bytes(&mut self, dest: &mut [u8]) -> Result<(), rand::Error> {
        self.fill_bytes(dest);
        Ok(())
    }
}

/// Shared handle so the harness can read counters after `sign` returns.
pub struct SharedRng(pub std::rc::Rc<std::cell::RefCell<ScriptedRng>>);
impl RngCore for SharedRng {
    fn next_u32(&mut self) -> u32 {
        self.0.borrow_mut().next_u32()
    }
    fn next_u64(&mut self) -> u64 {
        self.0.borrow_mut().next_u64()
    }
    fn fill_bytes(&mut self, d: &mut [u8]) {
        self.0.borrow_mut().fill_bytes(d)
    }
    fn try_fill_bytes(&mut self, d: &mut [u8]) -> Result<(), rand::Error> {
        self.0.borrow_mut().fill_bytes(d);
        Ok(())
    }
}

// ---------------------------------------------------------------------------
// bit-level codec generator

#[derive(Debug, Clone, Copy, PartialEq)]
pub struct Coef {
    pub neg: bool,
    pub low: u8,
    pub high: usize,
}

impl Coef {
    pub fn bits(&self) -> usize {
        9 + self.high
    }
    pub fn value(&self) -> i64 {
        let m = ((self.high as i64) << 7) | self.low as i64;
        if self.neg {
            -m
        } else {
            m
        }
    }
}

pub fn emit_coefs(coefs: &[Coef]) -> Vec<bool> {
    let mut bits = vec![];
    for c in coefs {
        bits.push(c.neg);
        for i in (0..7).rev() {
            bits.push((c.low >> i) & 1 == 1);
        }
        for _ in 0..c.high {
            bits.push(false);
        }
        bits.push(true);
    }
    bits
}

/// Pack bits into exactly `len` bytes (bits beyond the buffer are dropped: truncation).
pub fn pack(bits: &[bool], len: usize) -> Vec<u8> {
    let mut o = vec![0u8; len];
    for (i, b) in bits.iter().enumerate() {
        if *b && i / 8 < len {
            o[i / 8] |= 128 >> (i % 8);
        }
    }
    o
}

/// Build n-1 filler coefficients whose encoding has exactly `target_bits` bits in total
/// (needs 9(n-1) <= target_bits <= (9+94)(n-1)); the caller appends/inserts the probe.
pub fn filler(count: usize, target_bits: usize, rng: &mut ChaCha20Rng) -> Option<Vec<Coef>> {
    if count == 0 {
        return if target_bits == 0 { Some(vec![]) } else { None };
    }
    if target_bits < 9 * count || target_bits > 103 * count {
        return None;
    }
    let mut extra = target_bits - 9 * count;
    let mut v: Vec<Coef> = (0..count)
        .map(|_| Coef {
            neg: rng.gen(),
            low: rng.gen_range(1..128),
            high: 0,
        })
        .collect();
    // distribute the extra unary bits: greedy, max 94 each, random order of fill
    let mut i = 0;
    while extra > 0 {
        let room = 94 - v[i].high;
        let take = room.min(extra);
        v[i].high += take;
        extra -= take;
        i += 1;
        if i == count && extra > 0 {
            return None;
        }
    }
    // shuffle so that long coefficients are not always first
    for k in (1..count).rev() {
        let j = rng.gen_range(0..=k);
        v.swap(k, j);
    }
    Some(v)
}

// ---------------------------------------------------------------------------
// crafted verification triples with an exactly chosen norm

/// Four squares summing to r (r < ~2^27), each at most 6144.
pub fn four_squares(r: i64) -> Option<[i64; 4]> {
    if r < 0 {
        return None;
    }
    let m = ((r as f64).sqrt() as i64 + 1).min(6144);
    for a in (0..=m).rev() {
        if a * a > r {
            continue;
        }
        let r1 = r - a * a;
        let mb = ((r1 as f64).sqrt() as i64 + 1).min(a);
        for b in (0..=mb).rev() {
            if b * b > r1 {
                continue;
            }
            let r2 = r1 - b * b;
            let mc = ((r2 as f64).sqrt() as i64 + 1).min(b);
            for c in (0..=mc).rev() {
                if c * c > r2 {
                    continue;
                }
                let rem = r2 - c * c;
                let d = (rem as f64).sqrt().round() as i64;
                if d * d == rem && d <= 6144 {
                    return Some([a, b, c, d]);
                }
            }
        }
        if a * a * 4 < r {
            break;
        }
    }
    None
}

pub struct Crafted {
    pub msg: Vec<u8>,
    pub salt: Vec<u8>,
    pub s2: Vec<i64>,
    pub s1: Vec<i64>,
    pub h: Vec<i64>,
    pub norm: i64,
}

/// Build (msg, salt, s2, h) such that s1 = c - s2*h (centred) and ||(s1,s2)||^2 == target.
/// `style`: 0 dense small s2, 1 sparse s2, 2 s1 with coefficients at the edge of the centred
/// range (+-6144 / +-6143), 3 dense larger s2.
pub fn craft_exact(n: usize, target: i64, style: u32, rng: &mut ChaCha20Rng) -> Option<Crafted> {
    let psi = spec::find_psi(n);
    for _attempt in 0..50 {
        let s2: Vec<i64> = match if style >= 200 { 98 } else if style >= 100 { 99 } else { style % 4 } {
            98 => {
                // "lopsided": s2 carries most of the norm. Every spare bit of the body is spent on
                // coefficients of magnitude 230..255 (one extra bit each); the rest is tiny
                let l = if n == 512 { 625 } else { 1239 };
                let big = 8 * l - 9 * n - 2;
                let mut v: Vec<i64> = (0..n)
                    .map(|i| {
                        let m = if i < big { rng.gen_range(230..=255) } else { rng.gen_range(0..20) };
                        if rng.gen() {
                            m
                        } else {
                            -m
                        }
                    })
                    .collect();
                for k in (1..n).rev() {
                    let j = rng.gen_range(0..=k);
                    v.swap(k, j);
                }
                v
            }
            99 => {
                // "tight": the encoding uses exactly 8L - t bits (t = style - 100): every
                // coefficient of magnitude 128..255 costs one extra bit
                let l = if n == 512 { 625 } else { 1239 };
                let t = (style - 100) as usize;
                let big = 8 * l - t - 9 * n;
                let mut v: Vec<i64> = (0..n)
                    .map(|i| {
                        let m = if i < big { rng.gen_range(128..200) } else { rng.gen_range(0..100) };
                        if rng.gen() {
                            m
                        } else {
                            -m
                        }
                    })
                    .collect();
                for k in (1..n).rev() {
                    let j = rng.gen_range(0..=k);
                    v.swap(k, j);
                }
                if t % 2 == 0 {
                    // the LAST coefficient is zero (its negative zero is a separate code path)
                    if let Some(j) = (0..n).find(|&j| v[j].abs() < 128) {
                        v.swap(j, n - 1);
                        v[n - 1] = 0;
                    }
                }
                v
            }
            1 => {
                let mut v = vec![0i64; n];
                let k = rng.gen_range(1..8);
                for _ in 0..k {
                    let i = rng.gen_range(0..n);
                    v[i] = rng.gen_range(-300..=300);
                }
                v
            }
            3 => (0..n).map(|_| rng.gen_range(-180..=180)).collect(),
            _ => (0..n).map(|_| rng.gen_range(-60..=60)).collect(),
        };
        let s2hat = spec::dft_q(&s2, psi);
        if s2hat.iter().any(|&x| x == 0) {
            continue;
        }
        let n2: i64 = s2.iter().map(|x| x * x).sum();
        let rem = target - n2;
        if rem < 100_000 {
            continue;
        }
        // s1: n-4 free coefficients, last 4 from a four-square decomposition
        let mut s1: Vec<i64> = Vec::with_capacity(n);
        let mut budget = rem - 50_000; // leave room for the four squares
        let free = n - 4;
        if style < 100 && style % 4 == 2 {
            // a few coefficients at the very edge of the centred range
            let edges = [6144i64, -6144, 6143, -6143];
            let mut placed = 0;
            for e in edges.iter() {
                if budget > e * e + 1_000_000 && placed < free {
                    s1.push(*e);
                    budget -= e * e;
                    placed += 1;
                }
            }
        }
        while s1.len() < free {
            let left = (free - s1.len()) as f64;
            let per = ((budget.max(0) as f64) / left).sqrt();
            let v = (per * (0.5 + rng.gen::<f64>())).floor() as i64;
            let v = v.min(6144);
            let v = if v * v > budget { 0 } else { v };
            budget -= v * v;
            s1.push(if rng.gen() { v } else { -v });
        }
        // shuffle the free part so that edge coefficients land anywhere
        for k in (1..free).rev() {
            let j = rng.gen_range(0..=k);
            s1.swap(k, j);
        }
        let cur: i64 = s1.iter().map(|x| x * x).sum();
        let r4 = match four_squares(rem - cur) {
            Some(r) => r,
            None => continue,
        };
        for x in r4 {
            s1.push(if rng.gen() { x } else { -x });
        }
        let norm: i64 = s1.iter().map(|x| x * x).sum::<i64>() + n2;
        assert_eq!(norm, target);
        if s1.iter().any(|x| x.abs() > 6144) {
            continue;
        }
        let mut salt = vec![0u8; 40];
        rng.fill_bytes(&mut salt);
        let ml = rng.gen_range(0..64);
        let msg = rand_bytes(rng, ml);
        let mut rm = salt.clone();
        rm.extend_from_slice(&msg);
        let c = spec::hash_to_point(&rm, n);
        // h = (c - s1) / s2
        let num: Vec<i64> = (0..n).map(|i| spec::modq(c[i] - s1[i])).collect();
        let numhat = spec::dft_q(&num, psi);
        let hhat: Vec<i64> = (0..n).map(|i| numhat[i] * spec::powm(s2hat[i], spec::Q - 2) % spec::Q).collect();
        let h = spec::idft_q(&hhat, psi);
        return Some(Crafted {
            msg,
            salt,
            s2,
            s1,
            h,
            norm,
        });
    }
    None
}

/// Build a triple from fully specified (s1, s2): h = (c - s1)/s2. None if s2 is not invertible.
pub fn craft_from(n: usize, s1: Vec<i64>, s2: Vec<i64>, rng: &mut ChaCha20Rng) -> Option<Crafted> {
    let psi = spec::find_psi(n);
    let s2hat = spec::dft_q(&s2, psi);
    if s2hat.iter().any(|&x| x == 0) || s1.iter().any(|x| x.abs() > 6144) {
        return None;
    }
    let mut salt = vec![0u8; 40];
    rng.fill_bytes(&mut salt);
    let msg = rand_bytes(rng, 12);
    let mut rm = salt.clone();
    rm.extend_from_slice(&msg);
    let c = spec::hash_to_point(&rm, n);
    let num: Vec<i64> = (0..n).map(|i| spec::modq(c[i] - s1[i])).collect();
    let numhat = spec::dft_q(&num, psi);
    let hhat: Vec<i64> = (0..n).map(|i| numhat[i] * spec::powm(s2hat[i], spec::Q - 2) % spec::Q).collect();
    let h = spec::idft_q(&hhat, psi);
    let norm: i64 = s1.iter().map(|x| x * x).sum::<i64>() + s2.iter().map(|x| x * x).sum::<i64>();
    Some(Crafted { msg, salt, s2, s1, h, norm })
}

/// Triples whose TRUE squared norm is enormous but congruent to a small value modulo 2^31 or
/// 2^32 (an accumulator of the wrong width would see a norm inside the bound), with the mass
/// laid out in different ways: spread evenly, concentrated in one aligned block of `w`
/// coefficients, or two-step (a first region just below 2^31, then one aligned block that
/// alone adds more than 2^31, so that a width check sampled once per block is jumped over).
/// Returns (layout name, triple). `bound` is the variant's acceptance bound.
pub fn overflow_layouts(n: usize, bound: i64, rng: &mut ChaCha20Rng) -> Vec<(String, Crafted)> {
    let l = if n == 512 { 625 } else { 1239 };
    let spare = 8 * l - 9 * n - 4; // unary bits available for large s2 coefficients
    let mut out = vec![];
    let big = 6144i64 * 6144;
    // helper: finish a template (s1 with some zeros reserved at `free`) so that the total is T
    let finish = |mut s1: Vec<i64>, s2: &Vec<i64>, free: [usize; 4], t: i64| -> Option<Vec<i64>> {
        let cur: i64 = s1.iter().map(|x| x * x).sum::<i64>() + s2.iter().map(|x| x * x).sum::<i64>();
        let rem = t - cur;
        if rem < 0 || rem > 4 * big {
            return None;
        }
        let r4 = four_squares(rem)?;
        for (k, &i) in free.iter().enumerate() {
            s1[i] = r4[k];
        }
        Some(s1)
    };
    for &(modulus, mname) in &[(1i64 << 32, "2^32"), (1i64 << 31, "2^31"), (3i64 << 32, "3*2^32")] {
        for layout in 0..4 {
            let r = rng.gen_range(0..bound);
            let t = modulus + r; // true norm; wraps to r <= bound in a too-narrow accumulator
            // small dense s2 so that it is invertible; a few huge coefficients in some layouts
            let mut s2: Vec<i64> = (0..n).map(|_| rng.gen_range(-40i64..=40)).collect();
            let mut s1 = vec![0i64; n];
            let name;
            match layout {
                0 => {
                    // spread: as many +-6144 as fit below t, evenly over the vector
                    name = "spread";
                    let m = ((t - 5 * big) / big).max(0) as usize;
                    let step = n as f64 / (m.max(1) as f64);
                    for k in 0..m.min(n - 8) {
                        let i = ((k as f64 * step) as usize).min(n - 9);
                        if s1[i] == 0 {
                            s1[i] = if rng.gen() { 6144 } else { -6144 };
                        }
                    }
                }
                1 => {
                    name = "front-loaded";
                    let m = ((t - 5 * big) / big).max(0) as usize;
                    for i in 0..m.min(n - 8) {
                        s1[i] = if rng.gen() { 6144 } else { -6144 };
                    }
                }
                2 => {
                    name = "back-loaded";
                    let m = ((t - 5 * big) / big).max(0) as usize;
                    for i in 0..m.min(n - 8) {
                        s1[n - 9 - i] = if rng.gen() { 6144 } else { -6144 };
                    }
                }
                _ => {
                    // two-step: region A just below 2^31, then one aligned block of width w whose
                    // own mass exceeds 2^31 (s1 at the edge of its range plus huge s2 coefficients)
                    name = "two-step-block";
                    let w = *[16usize, 32, 64].get(rng.gen_range(0..3)).unwrap();
                    let a = 56usize.min(n / 4); // 56 * 6144^2 = 2.114e9 < 2^31
                    for i in 0..a {
                        s1[i] = 6144;
                    }
                    let blocks = n / w;
                    let b0 = w * rng.gen_range((a / w + 1)..blocks - 1);
                    for i in b0..b0 + w {
                        s1[i] = -6144;
                    }
                    let nbig = (spare / 94).min(w).min(7);
                    for k in 0..nbig {
                        s2[b0 + k] = 12100 + rng.gen_range(0..59);
                    }
                }
            }
            // four free slots at the very end for the exact adjustment
            let free = [n - 8, n - 7, n - 6, n - 5];
            for &i in &free {
                s1[i] = 0;
            }
            let cur: i64 = s1.iter().map(|x| x * x).sum::<i64>() + s2.iter().map(|x| x * x).sum::<i64>();
            // move t up by multiples of the modulus until the template fits below it
            let mut tt = t;
            while tt < cur {
                tt += modulus;
            }
            // fill with more maxima (in unused slots before the free ones) until within reach
            let mut s1f = s1.clone();
            let mut c2 = cur;
            let mut i = n - 9;
            while tt - c2 > 4 * big && i > 0 {
                if s1f[i] == 0 {
                    s1f[i] = 6144;
                    c2 += big;
                }
                i -= 1;
            }
            if let Some(s1done) = finish(s1f, &s2, free, tt) {
                if spec::compress(&s2, l).is_some() {
                    if let Some(c) = craft_from(n, s1done, s2.clone(), rng) {
                        out.push((format!("{}-mod-{}", name, mname), c));
                    }
                }
            }
        }
    }
    out
}
