//! Uniform access to the two Falcon variants of the crate under test (and to PQClean).

use falcon_rust::{falcon1024, falcon512};

pub trait Fv: 'static + Send + Sync {
    const N: usize;
    const LOGN: u8;
    const SK_LEN: usize;
    const PK_LEN: usize;
    const SIG_LEN: usize;
    const BOUND: i64;
    const SIGMA: f64;
    const SIGMIN: f64;
    const NAME: &'static str;
    type Sk: Clone + Send + Sync + PartialEq + 'static;
    type Pk: Clone + Send + Sync + PartialEq + 'static;
    type Sig: Clone + Send + Sync + PartialEq + 'static;

    fn keygen(seed: [u8; 32]) -> (Self::Sk, Self::Pk);
    /// SecretKey::generate(): seed taken from the thread-local OS-seeded generator
    fn generate() -> Self::Sk;
    fn sign(msg: &[u8], sk: &Self::Sk) -> Self::Sig;
    fn verify(msg: &[u8], sig: &Self::Sig, pk: &Self::Pk) -> bool;
    fn sk_to_bytes(sk: &Self::Sk) -> Vec<u8>;
    fn pk_to_bytes(pk: &Self::Pk) -> Vec<u8>;
    fn sig_to_bytes(sig: &Self::Sig) -> Vec<u8>;
    fn sk_from_bytes(b: &[u8]) -> Result<Self::Sk, String>;
    fn pk_from_bytes(b: &[u8]) -> Result<Self::Pk, String>;
    fn sig_from_bytes(b: &[u8]) -> Result<Self::Sig, String>;
    fn pk_from_sk(sk: &Self::Sk) -> Self::Pk;
    fn basis(sk: &Self::Sk) -> [Vec<i16>; 4];
    fn leaves(sk: &Self::Sk) -> Vec<[(f64, f64); 2]>;

    // PQClean, byte-level
    #[cfg(feature = "pq")]
    fn pq_keypair() -> (Vec<u8>, Vec<u8>); // (pk, sk)
    #[cfg(feature = "pq")]
    fn pq_pk_ok(pk: &[u8]) -> bool;
    #[cfg(feature = "pq")]
    fn pq_sk_ok(sk: &[u8]) -> bool;
    /// None: the signature bytes do not parse; Some(b): verification result
    #[cfg(feature = "pq")]
    fn pq_verify(sig: &[u8], msg: &[u8], pk: &[u8]) -> Option<bool>;
    /// None: secret key does not parse
    #[cfg(feature = "pq")]
    fn pq_sign(msg: &[u8], sk: &[u8]) -> Option<Vec<u8>>;
}

macro_rules! impl_fv {
    ($name:ident, $m:ident, $pq:ident, $n:expr, $logn:expr, $sk:expr, $pk:expr, $sig:expr, $bound:expr, $sigma:expr, $sigmin:expr, $s:expr) => {
        pub struct $name;
        impl Fv for $name {
            const N: usize = $n;
            const LOGN: u8 = $logn;
            const SK_LEN: usize = $sk;
            const PK_LEN: usize = $pk;
            const SIG_LEN: usize = $sig;
            const BOUND: i64 = $bound;
            const SIGMA: f64 = $sigma;
            const SIGMIN: f64 = $sigmin;
            const NAME: &'static str = $s;
            type Sk = $m::SecretKey;
            type Pk = $m::PublicKey;
            type Sig = $m::Signature;
            fn keygen(seed: [u8; 32]) -> (Self::Sk, Self::Pk) {
                $m::keygen(seed)
            }
            fn generate() -> Self::Sk {
                $m::SecretKey::generate()
            }
            fn sign(msg: &[u8], sk: &Self::Sk) -> Self::Sig {
                $m::sign(msg, sk)
            }
            fn verify(msg: &[u8], sig: &Self::Sig, pk: &Self::Pk) -> bool {
                $m::verify(msg, sig, pk)
            }
            fn sk_to_bytes(sk: &Self::Sk) -> Vec<u8> {
                sk.to_bytes()
            }
            fn pk_to_bytes(pk: &Self::Pk) -> Vec<u8> {
                pk.to_bytes()
            }
            fn sig_to_bytes(sig: &Self::Sig) -> Vec<u8> {
                sig.to_bytes()
            }
            fn sk_from_bytes(b: &[u8]) -> Result<Self::Sk, String> {
                $m::SecretKey::from_bytes(b).map_err(|e| format!("{:?}", e))
            }
            fn pk_from_bytes(b: &[u8]) -> Result<Self::Pk, String> {
                $m::PublicKey::from_bytes(b).map_err(|e| format!("{:?}", e))
            }
            fn sig_from_bytes(b: &[u8]) -> Result<Self::Sig, String> {
                $m::Signature::from_bytes(b).map_err(|e| format!("{:?}", e))
            }
            fn pk_from_sk(sk: &Self::Sk) -> Self::Pk {
                $m::PublicKey::from_secret_key(sk)
            }
            fn basis(sk: &Self::Sk) -> [Vec<i16>; 4] {
                sk.verif_basis()
            }
            fn leaves(sk: &Self::Sk) -> Vec<[(f64, f64); 2]> {
                sk.verif_tree_leaves()
            }
            #[cfg(feature = "pq")]
            fn pq_keypair() -> (Vec<u8>, Vec<u8>) {
                use pqcrypto_traits::sign::{PublicKey, SecretKey};
                let (pk, sk) = pqcrypto_falcon::$pq::keypair();
                (pk.as_bytes().to_vec(), sk.as_bytes().to_vec())
            }
            #[cfg(feature = "pq")]
            fn pq_pk_ok(pk: &[u8]) -> bool {
                use pqcrypto_traits::sign::PublicKey;
                pqcrypto_falcon::$pq::PublicKey::from_bytes(pk).is_ok()
            }
            #[cfg(feature = "pq")]
            fn pq_sk_ok(sk: &[u8]) -> bool {
                use pqcrypto_traits::sign::SecretKey;
                pqcrypto_falcon::$pq::SecretKey::from_bytes(sk).is_ok()
            }
            #[cfg(feature = "pq")]
            fn pq_verify(sig: &[u8], msg: &[u8], pk: &[u8]) -> Option<bool> {
                use pqcrypto_traits::sign::{DetachedSignature, PublicKey};
                let pk = pqcrypto_falcon::$pq::PublicKey::from_bytes(pk).ok()?;
                let ds = pqcrypto_falcon::$pq::DetachedSignature::from_bytes(sig).ok()?;
                Some(pqcrypto_falcon::$pq::verify_detached_signature(&ds, msg, &pk).is_ok())
            }
            #[cfg(feature = "pq")]
            fn pq_sign(msg: &[u8], sk: &[u8]) -> Option<Vec<u8>> {
                use pqcrypto_traits::sign::{DetachedSignature, SecretKey};
                let sk = pqcrypto_falcon::$pq::SecretKey::from_bytes(sk).ok()?;
                Some(pqcrypto_falcon::$pq::detached_sign(msg, &sk).as_bytes().to_vec())
            }
        }
    };
}

impl_fv!(F512, falcon512, falcon512, 512, 9, 1281, 897, 666, 34034726, 165.7366171829776, 1.2778336969128337, "falcon512");
impl_fv!(F1024, falcon1024, falcon1024, 1024, 10, 2305, 1793, 1280, 70265242, 168.38857144654395, 1.298280334344292, "falcon1024");

/// falcon-rust signature bytes -> PQClean detached signature bytes
/// (header 0x39/0x3A = 0x30 + logn, zero padding stripped).
pub fn reframe_to_pq(sig: &[u8], logn: u8) -> Vec<u8> {
    let mut b = sig.to_vec();
    b[0] = 0x30 + logn;
    while b.len() > 41 && *b.last().unwrap() == 0 {
        b.pop();
    }
    b
}

/// PQClean detached signature bytes -> falcon-rust fixed-length signature bytes.
pub fn reframe_from_pq(sig: &[u8], logn: u8, sig_len: usize) -> Option<Vec<u8>> {
    if sig.len() > sig_len || sig.is_empty() {
        return None;
    }
    let mut b = sig.to_vec();
    b.resize(sig_len, 0);
    b[0] = 0x50 + logn;
    Some(b)
}
