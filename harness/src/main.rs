//! vfh: runtime-monitoring harness for falcon-rust. One process = one leg of one check.
//!
//!   vfh run <prop> <leg> --tier quick|thorough --seed N --profile NAME --out FILE [-- extra]
//!   vfh replay <replay.json>
//!
//! The leg writes a JSON report (see util::Report::to_json); the python driver `vf` merges
//! leg reports into evidence and prints the verdict lines.

mod checks;
mod collide;
mod fv;
mod gen;
mod pool;
mod refs;
mod selftest;
mod signer;
mod steer;
mod util;

use std::time::Instant;
use util::{Ctx, Report};

fn main() {
    let args: Vec<String> = std::env::args().collect();
    if args.len() < 2 {
        eprintln!("usage: vfh run <prop> <leg> [--tier T] [--seed N] [--profile P] [--out F] | vfh replay <file>");
        std::process::exit(2);
    }
    util::install_panic_hook();
    match args[1].as_str() {
        "run" => {
            let prop = args[2].clone();
            let leg = args[3].clone();
            let mut tier = "quick".to_string();
            let mut seed = 1u64;
            let mut profile = "release".to_string();
            let mut out: Option<String> = None;
            let mut extra = vec![];
            let mut i = 4;
            while i < args.len() {
                match args[i].as_str() {
                    "--tier" => {
                        tier = args[i + 1].clone();
                        i += 2;
                    }
                    "--seed" => {
                        seed = args[i + 1].parse().expect("seed");
                        i += 2;
                    }
                    "--profile" => {
                        profile = args[i + 1].clone();
                        i += 2;
                    }
                    "--out" => {
                        out = Some(args[i + 1].clone());
                        i += 2;
                    }
                    "--" => {
                        extra = args[i + 1..].to_vec();
                        break;
                    }
                    _ => {
                        extra.push(args[i].clone());
                        i += 1;
                    }
                }
            }
            let ctx = Ctx {
                tier: tier.clone(),
                seed,
                profile: profile.clone(),
                args: extra,
            };
            let t0 = Instant::now();
            let mut rep = Report::new();
            let known = checks::run(&prop, &leg, &ctx, &mut rep);
            if !known {
                eprintln!("unknown prop/leg {} {}", prop, leg);
                std::process::exit(2);
            }
            let wall = t0.elapsed().as_secs_f64();
            let j = rep.to_json(&prop, &leg, &profile, &tier, seed, wall);
            let text = serde_json::to_string_pretty(&j).unwrap();
            match out {
                Some(p) => std::fs::write(p, text).expect("write report"),
                None => println!("{}", text),
            }
        }
        "replay" => {
            let text = std::fs::read_to_string(&args[2]).expect("read replay file");
            let v: serde_json::Value = serde_json::from_str(&text).expect("parse replay file");
            let ok = checks::replay(&v);
            if util::was_not_replayable() {
                std::process::exit(3);
            }
            std::process::exit(if ok { 0 } else { 1 });
        }
        _ => {
            eprintln!("unknown command");
            std::process::exit(2);
        }
    }
}
