//! Own Keccak-f[1600] and SHAKE-256, written from FIPS 202. Independent of the `sha3`
//! crate that falcon-rust uses, so that a mistake in how the crate drives `sha3`
//! (wrong variant, wrong padding, reader reuse) is visible to the monitor.

const RC: [u64; 24] = [
    0x0000000000000001,
    0x0000000000008082,
    0x800000000000808A,
    0x8000000080008000,
    0x000000000000808B,
    0x0000000080000001,
    0x8000000080008081,
    0x8000000000008009,
    0x000000000000008A,
    0x0000000000000088,
    0x0000000080008009,
    0x000000008000000A,
    0x000000008000808B,
    0x800000000000008B,
    0x8000000000008089,
    0x8000000000008003,
    0x8000000000008002,
    0x8000000000000080,
    0x000000000000800A,
    0x800000008000000A,
    0x8000000080008081,
    0x8000000000008080,
    0x0000000080000001,
    0x8000000080008008,
];

fn keccak_f(a: &mut [u64; 25]) {
    for rc in RC.iter() {
        // theta
        let mut c = [0u64; 5];
        for x in 0..5 {
            c[x] = a[x] ^ a[x + 5] ^ a[x + 10] ^ a[x + 15] ^ a[x + 20];
        }
        for x in 0..5 {
            let d = c[(x + 4) % 5] ^ c[(x + 1) % 5].rotate_left(1);
            for y in 0..5 {
                a[x + 5 * y] ^= d;
            }
        }
        // rho and pi
        let mut b = [0u64; 25];
        let (mut x, mut y) = (1usize, 0usize);
        b[0] = a[0];
        for t in 0..24u32 {
            let r = ((t + 1) * (t + 2) / 2) % 64;
            let (nx, ny) = (y, (2 * x + 3 * y) % 5);
            b[nx + 5 * ny] = a[x + 5 * y].rotate_left(r);
            x = nx;
            y = ny;
        }
        // chi
        for y in 0..5 {
            for x in 0..5 {
                a[x + 5 * y] = b[x + 5 * y] ^ ((!b[(x + 1) % 5 + 5 * y]) & b[(x + 2) % 5 + 5 * y]);
            }
        }
        // iota
        a[0] ^= rc;
    }
}

pub struct Shake256 {
    st: [u64; 25],
    buf: [u8; 136],
    pos: usize, // squeeze position in buf
}

const RATE: usize = 136;

impl Shake256 {
    /// Absorb the whole message, pad, and get ready to squeeze.
    pub fn new(msg: &[u8]) -> Self {
        let mut st = [0u64; 25];
        let mut chunks = msg.chunks_exact(RATE);
        for ch in &mut chunks {
            Self::xor_block(&mut st, ch);
            keccak_f(&mut st);
        }
        let rem = chunks.remainder();
        let mut last = [0u8; RATE];
        last[..rem.len()].copy_from_slice(rem);
        last[rem.len()] ^= 0x1F;
        last[RATE - 1] ^= 0x80;
        Self::xor_block(&mut st, &last);
        keccak_f(&mut st);
        let mut s = Shake256 {
            st,
            buf: [0u8; RATE],
            pos: 0,
        };
        s.fill();
        s
    }
    fn xor_block(st: &mut [u64; 25], block: &[u8]) {
        for i in 0..RATE / 8 {
            let mut w = [0u8; 8];
            w.copy_from_slice(&block[8 * i..8 * i + 8]);
            st[i] ^= u64::from_le_bytes(w);
        }
    }
    fn fill(&mut self) {
        for i in 0..RATE / 8 {
            self.buf[8 * i..8 * i + 8].copy_from_slice(&self.st[i].to_le_bytes());
        }
        self.pos = 0;
    }
    pub fn next_byte(&mut self) -> u8 {
        if self.pos == RATE {
            keccak_f(&mut self.st);
            self.fill();
        }
        let b = self.buf[self.pos];
        self.pos += 1;
        b
    }
    pub fn read(&mut self, out: &mut [u8]) {
        for o in out.iter_mut() {
            *o = self.next_byte();
        }
    }
}

pub fn shake256(msg: &[u8], outlen: usize) -> Vec<u8> {
    let mut s = Shake256::new(msg);
    let mut out = vec![0u8; outlen];
    s.read(&mut out);
    out
}
