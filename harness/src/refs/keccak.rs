//! Own Keccak-f[1600] and SHAKE-256, written from FIPS 202. Independent of the `sha3`
//! crate that falcon-rust uses, so that a mistake in how the crate drives `sha3`
//! (wrong variant, wrong padding, reader reuse) is visible to the monitor.

const RC: [u64; 24] = [
    0x0000000000000001,
    0x0000000000008082,
    0x800000000000808A,
    0x8000000080008000,
    0x000000000000808B,
    0x0000000080000001,
    0x8000000080008081,
    0x8000000000008009,
    0x000000000000008A,
    0x0000000000000088,
    0x0000000080008009,
    0x000000008000000A,
    0x000000008000808B,
    0x800000000000008B,
    0x8000000000008089,
    0x8000000000008003,
    0x8000000000008002,
    0x8000000000000080,
    0x000000000000800A,
    0x800000008000000A,
    0x8000000080008081,
    0x8000000000008080,
    0x0000000080000001,
    0x8000000080008008,
];

/// rho rotation offsets and pi destination indices for lanes 1..24 in the order of the
/// standard "walk" (x,y) -> (y, 2x+3y): derived once from the FIPS 202 definition.
const fn rho_pi_tables() -> ([u32; 24], [usize; 24]) {
    let mut rot = [0u32; 24];
    let mut dst = [0usize; 24];
    let (mut x, mut y) = (1usize, 0usize);
    let mut t = 0;
    while t < 24 {
        rot[t] = (((t + 1) * (t + 2) / 2) % 64) as u32;
        let nx = y;
        let ny = (2 * x + 3 * y) % 5;
        dst[t] = nx + 5 * ny;
        x = nx;
        y = ny;
        t += 1;
    }
    (rot, dst)
}
const RP: ([u32; 24], [usize; 24]) = rho_pi_tables();

fn keccak_f(a: &mut [u64; 25]) {
    for rc in RC.iter() {
        // theta
        let c0 = a[0] ^ a[5] ^ a[10] ^ a[15] ^ a[20];
        let c1 = a[1] ^ a[6] ^ a[11] ^ a[16] ^ a[21];
        let c2 = a[2] ^ a[7] ^ a[12] ^ a[17] ^ a[22];
        let c3 = a[3] ^ a[8] ^ a[13] ^ a[18] ^ a[23];
        let c4 = a[4] ^ a[9] ^ a[14] ^ a[19] ^ a[24];
        let d = [c4 ^ c1.rotate_left(1), c0 ^ c2.rotate_left(1), c1 ^ c3.rotate_left(1), c2 ^ c4.rotate_left(1), c3 ^ c0.rotate_left(1)];
        for y in 0..5 {
            for x in 0..5 {
                a[x + 5 * y] ^= d[x];
            }
        }
        // rho and pi: lane at the walk position t moves to dst[t], rotated by rot[t]
        let mut b = [0u64; 25];
        b[0] = a[0];
        let mut src = 1usize; // (x,y) = (1,0)
        for t in 0..24 {
            b[RP.1[t]] = a[src].rotate_left(RP.0[t]);
            src = RP.1[t];
        }
        // chi
        for y in 0..5 {
            let r = 5 * y;
            let (b0, b1, b2, b3, b4) = (b[r], b[r + 1], b[r + 2], b[r + 3], b[r + 4]);
            a[r] = b0 ^ (!b1 & b2);
            a[r + 1] = b1 ^ (!b2 & b3);
            a[r + 2] = b2 ^ (!b3 & b4);
            a[r + 3] = b3 ^ (!b4 & b0);
            a[r + 4] = b4 ^ (!b0 & b1);
        }
        // iota
        a[0] ^= rc;
    }
}

pub struct Shake256 {
    st: [u64; 25],
    buf: [u8; 136],
    pos: usize, // squeeze position in buf
}

const RATE: usize = 136;

impl Shake256 {
    /// Absorb the whole message, pad, and get ready to squeeze.
    pub fn new(msg: &[u8]) -> Self {
        let mut st = [0u64; 25];
        let mut chunks = msg.chunks_exact(RATE);
        for ch in &mut chunks {
            Self::xor_block(&mut st, ch);
            keccak_f(&mut st);
        }
        let rem = chunks.remainder();
        let mut last = [0u8; RATE];
        last[..rem.len()].copy_from_slice(rem);
        last[rem.len()] ^= 0x1F;
        last[RATE - 1] ^= 0x80;
        Self::xor_block(&mut st, &last);
        keccak_f(&mut st);
        let mut s = Shake256 {
            st,
            buf: [0u8; RATE],
            pos: 0,
        };
        s.fill();
        s
    }
    fn xor_block(st: &mut [u64; 25], block: &[u8]) {
        for i in 0..RATE / 8 {
            let mut w = [0u8; 8];
            w.copy_from_slice(&block[8 * i..8 * i + 8]);
            st[i] ^= u64::from_le_bytes(w);
        }
    }
    fn fill(&mut self) {
        for i in 0..RATE / 8 {
            self.buf[8 * i..8 * i + 8].copy_from_slice(&self.st[i].to_le_bytes());
        }
        self.pos = 0;
    }
    pub fn next_byte(&mut self) -> u8 {
        if self.pos == RATE {
            keccak_f(&mut self.st);
            self.fill();
        }
        let b = self.buf[self.pos];
        self.pos += 1;
        b
    }
    pub fn read(&mut self, out: &mut [u8]) {
        for o in out.iter_mut() {
            *o = self.next_byte();
        }
    }
}

pub fn shake256(msg: &[u8], outlen: usize) -> Vec<u8> {
    let mut s = Shake256::new(msg);
    let mut out = vec![0u8; outlen];
    s.read(&mut out);
    out
}
