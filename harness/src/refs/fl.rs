//! Floating-point references: plain Gram-Schmidt of the 2n x 2n secret basis, rotations.

/// Row i of the negacyclic rotation matrix of `a`: coefficients of x^i * a mod (x^n+1).
pub fn rot(a: &[f64], i: usize) -> Vec<f64> {
    let n = a.len();
    let mut r = vec![0.0; n];
    for j in 0..n {
        let k = i + j;
        if k < n {
            r[k] = a[j];
        } else {
            r[k - n] = -a[j];
        }
    }
    r
}

pub fn bitrev(i: usize, bits: u32) -> usize {
    if bits == 0 {
        return 0;
    }
    (i.reverse_bits() >> (usize::BITS - bits)) as usize
}

/// The 2n rows of the secret basis [[g, -f], [G, -F]] as vectors of R^2n, in the order in
/// which the ffLDL tree visits them: first block (g,-f) then (G,-F), inside a block the
/// rotation indices in bit-reversed order (the tree splits into even and odd parts).
pub fn basis_rows_tree_order(b0: &[Vec<i16>; 4]) -> Vec<Vec<f64>> {
    let n = b0[0].len();
    let bits = n.trailing_zeros();
    let tf = |p: &Vec<i16>| p.iter().map(|&x| x as f64).collect::<Vec<f64>>();
    let (g, mf, cg, mcf) = (tf(&b0[0]), tf(&b0[1]), tf(&b0[2]), tf(&b0[3]));
    let mut rows = Vec::with_capacity(2 * n);
    for i in 0..n {
        let k = bitrev(i, bits);
        let mut r = rot(&g, k);
        r.extend(rot(&mf, k));
        rows.push(r);
    }
    for i in 0..n {
        let k = bitrev(i, bits);
        let mut r = rot(&cg, k);
        r.extend(rot(&mcf, k));
        rows.push(r);
    }
    rows
}

/// Modified Gram-Schmidt (with one re-orthogonalisation pass). Returns the orthogonal
/// vectors and their squared norms.
pub fn gram_schmidt(rows: &[Vec<f64>]) -> (Vec<Vec<f64>>, Vec<f64>) {
    let mut gs: Vec<Vec<f64>> = Vec::with_capacity(rows.len());
    let mut gsn: Vec<f64> = Vec::with_capacity(rows.len());
    for r in rows {
        let mut v = r.clone();
        for _pass in 0..2 {
            for (u, nn) in gs.iter().zip(gsn.iter()) {
                let d: f64 = v.iter().zip(u.iter()).map(|(a, b)| a * b).sum::<f64>() / nn;
                if d != 0.0 {
                    for (a, b) in v.iter_mut().zip(u.iter()) {
                        *a -= d * b;
                    }
                }
            }
        }
        let nn: f64 = v.iter().map(|a| a * a).sum();
        gsn.push(nn);
        gs.push(v);
    }
    (gs, gsn)
}

pub fn dot(a: &[f64], b: &[f64]) -> f64 {
    a.iter().zip(b.iter()).map(|(x, y)| x * y).sum()
}

/// mean and z-score of the mean against `mu` using the empirical standard error
pub fn mean_z(v: &[f64], mu: f64) -> (f64, f64) {
    let m = v.len() as f64;
    let mean = v.iter().sum::<f64>() / m;
    let var = v.iter().map(|x| (x - mean) * (x - mean)).sum::<f64>() / (m - 1.0);
    let se = (var / m).sqrt();
    (mean, if se > 0.0 { (mean - mu) / se } else { 0.0 })
}
