//! Reference for the integer sampler's building blocks (specification section 3.9.3,
//! Algorithms 12-15). The RCDT and the ApproxExp constants below were transcribed from the
//! PQClean reference implementation (sign.c `dist[]`, 3 x 24-bit limbs per entry, and
//! fpr.c `fpr_expm_p63`), i.e. from a source independent of falcon-rust.

pub const RCDT: [u128; 18] = [
    3024686241123004913666,
    1564742784480091954050,
    636254429462080897535,
    199560484645026482916,
    47667343854657281903,
    8595902006365044063,
    1163297957344668388,
    117656387352093658,
    8867391802663976,
    496969357462633,
    20680885154299,
    638331848991,
    14602316184,
    247426747,
    3104126,
    28824,
    198,
    1,
];

pub const C: [u64; 13] = [
    0x00000004741183A3,
    0x00000036548CFC06,
    0x0000024FDCBF140A,
    0x0000171D939DE045,
    0x0000D00CF58F6F84,
    0x000680681CF796E3,
    0x002D82D8305B0FEA,
    0x011111110E066FD0,
    0x0555555555070F00,
    0x155555555581FF00,
    0x400000000002B400,
    0x7FFFFFFFFFFF4800,
    0x8000000000000000,
];

pub const SIGMA_MAX: f64 = 1.8205;
pub const LN2: f64 = 0.69314718055994530941;

/// Algorithm 12: z0 = #{i : u < RCDT[i]} for a 72-bit u.
pub fn base_sampler(u: u128) -> i16 {
    let mut z0 = 0;
    for r in RCDT.iter() {
        if u < *r {
            z0 += 1;
        }
    }
    z0
}

/// Algorithm 13: integer approximation of 2^63 * ccs * exp(-x).
pub fn approx_exp(x: f64, ccs: f64) -> u64 {
    let mut y: u64 = C[0];
    let z: u64 = (x * 9223372036854775808.0).floor() as u64; // 2^63 x
    for u in 1..=12 {
        y = C[u].wrapping_sub((((z as u128) * (y as u128)) >> 63) as u64);
    }
    let z: u64 = (ccs * 9223372036854775808.0).floor() as u64;
    (((z as u128) * (y as u128)) >> 63) as u64
}

/// The 64-bit threshold that BerExp compares lazily against uniform bytes.
pub fn ber_threshold(x: f64, ccs: f64) -> u64 {
    let s = (x / LN2).floor();
    let r = x - s * LN2;
    let s = if s > 63.0 { 63u32 } else { s as u32 };
    ((((approx_exp(r, ccs) as u128) << 1) - 1) >> s) as u64
}

#[derive(Debug, Clone, Copy, PartialEq)]
pub enum Ber {
    /// decided after reading this many bytes (1..=8)
    Decided(bool, usize),
    /// all supplied bytes tie with the threshold and fewer than 8 were supplied: the
    /// specification would read another byte. The payload is the next threshold byte:
    /// an eighth byte b gives `true` iff b < that value.
    NeedMore(u8),
}

/// Algorithm 14 given a finite prefix of the uniform byte stream.
pub fn ber_exp(x: f64, ccs: f64, bytes: &[u8]) -> Ber {
    let z = ber_threshold(x, ccs);
    let mut i = 64;
    let mut k = 0;
    loop {
        i -= 8;
        let zb = ((z >> i) & 0xff) as i32;
        if k >= bytes.len() {
            return Ber::NeedMore(zb as u8);
        }
        let w = bytes[k] as i32 - zb;
        k += 1;
        if w != 0 || i == 0 {
            return Ber::Decided(w < 0, k);
        }
    }
}

/// Exact probability mass function of D_{Z,mu,sigma} on the window
/// [floor(mu)-span, floor(mu)+span], normalised over the window (the mass outside a
/// window of +-40 is below 1e-100 for sigma <= 1.8205).
pub fn pmf(mu: f64, sigma: f64, span: i64) -> (i64, Vec<f64>) {
    let base = mu.floor() as i64 - span;
    let w: Vec<f64> = (0..=2 * span)
        .map(|k| {
            let z = (base + k) as f64;
            (-(z - mu) * (z - mu) / (2.0 * sigma * sigma)).exp()
        })
        .collect();
    let tot: f64 = w.iter().sum();
    (base, w.iter().map(|x| x / tot).collect())
}

// ---------------------------------------------------------------------------
// statistics helpers

fn ln_gamma(x: f64) -> f64 {
    let c = [
        76.18009172947146,
        -86.50532032941677,
        24.01409824083091,
        -1.231739572450155,
        0.1208650973866179e-2,
        -0.5395239384953e-5,
    ];
    let mut y = x;
    let tmp = x + 5.5 - (x + 0.5) * (x + 5.5).ln();
    let mut ser = 1.000000000190015;
    for cj in c {
        y += 1.0;
        ser += cj / y;
    }
    -tmp + (2.5066282746310005 * ser / x).ln()
}

/// Regularised upper incomplete gamma Q(a, x) (series / continued fraction).
pub fn gammq(a: f64, x: f64) -> f64 {
    if x <= 0.0 {
        return 1.0;
    }
    if x < a + 1.0 {
        let mut ap = a;
        let mut sum = 1.0 / a;
        let mut del = sum;
        for _ in 0..10000 {
            ap += 1.0;
            del *= x / ap;
            sum += del;
            if del.abs() < sum.abs() * 1e-15 {
                break;
            }
        }
        1.0 - sum * (-x + a * x.ln() - ln_gamma(a)).exp()
    } else {
        let mut b = x + 1.0 - a;
        let mut c = 1.0 / 1e-300;
        let mut d = 1.0 / b;
        let mut h = d;
        for i in 1..10000 {
            let an = -(i as f64) * (i as f64 - a);
            b += 2.0;
            d = an * d + b;
            if d.abs() < 1e-300 {
                d = 1e-300;
            }
            c = b + an / c;
            if c.abs() < 1e-300 {
                c = 1e-300;
            }
            d = 1.0 / d;
            let del = d * c;
            h *= del;
            if (del - 1.0).abs() < 1e-15 {
                break;
            }
        }
        (-x + a * x.ln() - ln_gamma(a)).exp() * h
    }
}

/// Upper tail p-value of a chi-square statistic with `dof` degrees of freedom.
pub fn chi2_p(chi: f64, dof: usize) -> f64 {
    gammq(dof as f64 / 2.0, chi / 2.0)
}

/// Chi-square of observed counts against expected probabilities, merging neighbouring
/// cells until each has expectation >= 10. Returns (chi2, dof, cells).
pub fn chi2_merged(obs: &[u64], probs: &[f64], n: u64) -> (f64, usize, usize) {
    let mut chi = 0.0;
    let mut cells = 0usize;
    let mut eo = 0.0;
    let mut oo = 0.0;
    let mut pending: Option<(f64, f64)> = None; // last closed cell, to absorb a small tail
    for k in 0..obs.len() {
        eo += probs[k] * n as f64;
        oo += obs[k] as f64;
        if eo >= 10.0 {
            if let Some((e, o)) = pending.take() {
                chi += (o - e) * (o - e) / e;
                cells += 1;
            }
            pending = Some((eo, oo));
            eo = 0.0;
            oo = 0.0;
        }
    }
    if let Some((mut e, mut o)) = pending.take() {
        e += eo;
        o += oo;
        chi += (o - e) * (o - e) / e;
        cells += 1;
    }
    (chi, cells.saturating_sub(1), cells)
}
