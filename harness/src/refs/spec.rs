//! Reference models written from the Falcon specification v1.2, in the simplest form
//! (bit-at-a-time codecs, schoolbook products). Values are i64 so that no width limit
//! of the implementation leaks into the oracle.

use super::keccak::Shake256;

pub const Q: i64 = 12289;

pub fn bound(n: usize) -> i64 {
    match n {
        512 => 34034726,
        1024 => 70265242,
        _ => panic!("no bound for n={}", n),
    }
}

/// Algorithm 3 (HashToPoint), k = floor(2^16 / q) = 5. Also returns the number of 16-bit
/// chunks read and whether an exact-boundary chunk (61444, 61445) was seen.
pub struct H2pTrace {
    pub chunks: usize,
    pub saw_61444: u32,
    pub saw_61445: u32,
    pub saw_65535: u32,
    pub saw_12288: u32,
    pub saw_12289: u32,
    pub rejected: u32,
}

pub fn hash_to_point_traced(data: &[u8], n: usize) -> (Vec<i64>, H2pTrace) {
    let mut x = Shake256::new(data);
    let mut out = Vec::with_capacity(n);
    let mut tr = H2pTrace {
        chunks: 0,
        saw_61444: 0,
        saw_61445: 0,
        saw_65535: 0,
        saw_12288: 0,
        saw_12289: 0,
        rejected: 0,
    };
    let kq = 5 * Q; // 61445
    while out.len() < n {
        let b0 = x.next_byte() as i64;
        let b1 = x.next_byte() as i64;
        let t = (b0 << 8) | b1;
        tr.chunks += 1;
        match t {
            61444 => tr.saw_61444 += 1,
            61445 => tr.saw_61445 += 1,
            65535 => tr.saw_65535 += 1,
            12288 => tr.saw_12288 += 1,
            12289 => tr.saw_12289 += 1,
            _ => {}
        }
        if t < kq {
            out.push(t % Q);
        } else {
            tr.rejected += 1;
        }
    }
    (out, tr)
}

pub fn hash_to_point(data: &[u8], n: usize) -> Vec<i64> {
    hash_to_point_traced(data, n).0
}

/// Number of bits Algorithm 17 needs for `v`.
pub fn compressed_bits(v: &[i64]) -> usize {
    v.iter().map(|c| 9 + (c.unsigned_abs() >> 7) as usize).sum()
}

/// Algorithm 17 on a bit vector. `slen_bytes` is the byte budget.
pub fn compress(v: &[i64], slen_bytes: usize) -> Option<Vec<u8>> {
    let mut bits: Vec<bool> = Vec::new();
    for &c in v {
        bits.push(c < 0);
        let a = c.unsigned_abs();
        for i in (0..7).rev() {
            bits.push((a >> i) & 1 == 1);
        }
        for _ in 0..(a >> 7) {
            bits.push(false);
        }
        bits.push(true);
    }
    if bits.len() > 8 * slen_bytes {
        return None;
    }
    let mut o = vec![0u8; slen_bytes];
    for (i, b) in bits.iter().enumerate() {
        if *b {
            o[i / 8] |= 128 >> (i % 8);
        }
    }
    Some(o)
}

/// Algorithm 18 on a bit vector. Rejects: running past the end, negative zero, non-zero
/// padding. No bound on the unary part other than the string length.
pub fn decompress(x: &[u8], n: usize) -> Option<Vec<i64>> {
    let nb = x.len() * 8;
    let bit = |i: usize| -> Option<bool> {
        if i < nb {
            Some((x[i / 8] >> (7 - i % 8)) & 1 == 1)
        } else {
            None
        }
    };
    let mut i = 0;
    let mut v = Vec::with_capacity(n);
    for _ in 0..n {
        let s = bit(i)?;
        i += 1;
        let mut low = 0i64;
        for _ in 0..7 {
            low = (low << 1) | bit(i)? as i64;
            i += 1;
        }
        let mut high = 0i64;
        while !bit(i)? {
            high += 1;
            i += 1;
        }
        i += 1;
        if s && low == 0 && high == 0 {
            return None;
        }
        let m = (high << 7) | low;
        v.push(if s { -m } else { m });
    }
    while i < nb {
        if bit(i)? {
            return None;
        }
        i += 1;
    }
    Some(v)
}

// ---------------------------------------------------------------------------
// Z_q[X]/(X^n+1)

pub fn modq(x: i64) -> i64 {
    x.rem_euclid(Q)
}

pub fn center(x: i64) -> i64 {
    let v = modq(x);
    if v > Q / 2 {
        v - Q
    } else {
        v
    }
}

/// Schoolbook negacyclic product modulo q. Inputs any integers; output in [0,q).
pub fn negamul_mod(a: &[i64], b: &[i64]) -> Vec<i64> {
    let n = a.len();
    assert_eq!(b.len(), n);
    let a: Vec<i64> = a.iter().map(|&x| modq(x)).collect();
    let b: Vec<i64> = b.iter().map(|&x| modq(x)).collect();
    let mut r = vec![0i64; n];
    for i in 0..n {
        let ai = a[i];
        if ai == 0 {
            continue;
        }
        for j in 0..n {
            let k = i + j;
            let p = ai * b[j];
            if k < n {
                r[k] += p;
            } else {
                r[k - n] -= p;
            }
        }
        // keep the accumulators far from overflow: |p| < 2^28, n <= 2^10 terms of that per
        // slot in total, so no reduction is needed before the end (2^38 << 2^63)
    }
    r.iter().map(|&x| modq(x)).collect()
}

pub fn powm(mut b: i64, mut e: i64) -> i64 {
    let mut r = 1;
    b = modq(b);
    while e > 0 {
        if e & 1 == 1 {
            r = r * b % Q;
        }
        b = b * b % Q;
        e >>= 1;
    }
    r
}

/// Smallest-generator search for a primitive 2n-th root of unity modulo q.
pub fn find_psi(n: usize) -> i64 {
    for g in 2..Q {
        let p = powm(g, (Q - 1) / (2 * n as i64));
        if powm(p, n as i64) == Q - 1 {
            return p;
        }
    }
    unreachable!()
}

/// O(n^2) evaluation at the odd powers psi^(2k+1), natural order.
pub fn dft_q(a: &[i64], psi: i64) -> Vec<i64> {
    let n = a.len();
    let pw: Vec<i64> = {
        let mut v = Vec::with_capacity(2 * n);
        let mut p = 1;
        for _ in 0..2 * n {
            v.push(p);
            p = p * psi % Q;
        }
        v
    };
    (0..n)
        .map(|k| {
            let mut acc = 0i64;
            for (j, &c) in a.iter().enumerate() {
                acc += modq(c) * pw[((2 * k + 1) * j) % (2 * n)];
            }
            modq(acc)
        })
        .collect()
}

pub fn idft_q(v: &[i64], psi: i64) -> Vec<i64> {
    let n = v.len();
    let pw: Vec<i64> = {
        let mut t = Vec::with_capacity(2 * n);
        let mut p = 1;
        for _ in 0..2 * n {
            t.push(p);
            p = p * psi % Q;
        }
        t
    };
    let ninv = powm(n as i64, Q - 2);
    (0..n)
        .map(|j| {
            let mut acc = 0i64;
            for (k, &x) in v.iter().enumerate() {
                let e = ((2 * k + 1) * j) % (2 * n);
                acc += x * pw[(2 * n - e) % (2 * n)];
            }
            modq(acc) * ninv % Q
        })
        .collect()
}

/// Ring inverse of `a` in Z_q[X]/(X^n+1), or None if not invertible.
pub fn ring_inverse(a: &[i64]) -> Option<Vec<i64>> {
    let psi = find_psi(a.len());
    let h = dft_q(a, psi);
    if h.iter().any(|&x| x == 0) {
        return None;
    }
    let hi: Vec<i64> = h.iter().map(|&x| powm(x, Q - 2)).collect();
    Some(idft_q(&hi, psi))
}

/// a / b in the ring, None if b not invertible.
pub fn ring_div(a: &[i64], b: &[i64]) -> Option<Vec<i64>> {
    let bi = ring_inverse(b)?;
    Some(negamul_mod(a, &bi))
}

// ---------------------------------------------------------------------------
// encodings

/// Decode the 14-bit fields of a public key body (no range check).
pub fn pk_fields(body: &[u8]) -> Vec<i64> {
    let mut out = vec![];
    let mut acc: u32 = 0;
    let mut nb = 0;
    for &b in body {
        acc = (acc << 8) | b as u32;
        nb += 8;
        if nb >= 14 {
            out.push(((acc >> (nb - 14)) & 0x3fff) as i64);
            nb -= 14;
            acc &= (1 << nb) - 1;
        }
    }
    out
}

pub fn pk_encode(h: &[i64]) -> Vec<u8> {
    let logn = h.len().trailing_zeros() as u8;
    let mut out = vec![logn];
    let mut acc: u64 = 0;
    let mut nb = 0;
    for &x in h {
        acc = (acc << 14) | (x as u64 & 0x3fff);
        nb += 14;
        while nb >= 8 {
            out.push((acc >> (nb - 8)) as u8);
            nb -= 8;
            acc &= (1u64 << nb) - 1;
        }
    }
    assert_eq!(nb, 0);
    out
}

/// Generic fixed-width two's complement field packing used by the secret key format.
pub fn pack_signed(vals: &[i64], width: usize, bits: &mut Vec<bool>) {
    for &v in vals {
        let u = (v as u64) & ((1u64 << width) - 1);
        for i in (0..width).rev() {
            bits.push((u >> i) & 1 == 1);
        }
    }
}

pub fn bits_to_bytes(bits: &[bool]) -> Vec<u8> {
    let mut o = vec![0u8; (bits.len() + 7) / 8];
    for (i, b) in bits.iter().enumerate() {
        if *b {
            o[i / 8] |= 128 >> (i % 8);
        }
    }
    o
}

pub fn sk_widths(n: usize) -> (usize, usize) {
    match n {
        512 => (6, 8),
        1024 => (5, 8),
        _ => panic!(),
    }
}

/// Reference secret-key encoder: header 0x50|logn, then f, g (fg_width bits), F (8 bits).
pub fn sk_encode(f: &[i64], g: &[i64], cf: &[i64]) -> Vec<u8> {
    let n = f.len();
    let (w, wf) = sk_widths(n);
    let mut bits = vec![];
    pack_signed(f, w, &mut bits);
    pack_signed(g, w, &mut bits);
    pack_signed(cf, wf, &mut bits);
    let mut out = vec![0x50 | n.trailing_zeros() as u8];
    out.extend(bits_to_bytes(&bits));
    out
}

/// Reference secret-key decoder: (f, g, F) or None (wrong header/length/reserved value).
pub fn sk_decode(b: &[u8], n: usize) -> Option<(Vec<i64>, Vec<i64>, Vec<i64>)> {
    let (w, wf) = sk_widths(n);
    let total_bits = n * (2 * w + wf);
    if b.len() != 1 + total_bits / 8 || b[0] != (0x50 | n.trailing_zeros() as u8) {
        return None;
    }
    let bit = |i: usize| (b[1 + i / 8] >> (7 - i % 8)) & 1 == 1;
    let mut pos = 0;
    let mut rd = |width: usize, pos: &mut usize| -> Option<Vec<i64>> {
        let mut out = vec![];
        for _ in 0..n {
            let mut u: i64 = 0;
            for _ in 0..width {
                u = (u << 1) | bit(*pos) as i64;
                *pos += 1;
            }
            if u == 1 << (width - 1) {
                return None;
            }
            if u >= 1 << (width - 1) {
                u -= 1 << width;
            }
            out.push(u);
        }
        Some(out)
    };
    let f = rd(w, &mut pos)?;
    let g = rd(w, &mut pos)?;
    let cf = rd(wf, &mut pos)?;
    Some((f, g, cf))
}

// ---------------------------------------------------------------------------
// Algorithm 16

#[derive(Debug, Clone, PartialEq)]
pub enum VerifyTrace {
    BadEncoding,
    Norm(i64),
}

/// `salt`: 40 bytes; `s`: the compressed part (sig_bytelen - 41 bytes); `h` in [0,q).
pub fn verify_traced(msg: &[u8], salt: &[u8], s: &[u8], h: &[i64]) -> (bool, VerifyTrace) {
    let n = h.len();
    let s2 = match decompress(s, n) {
        Some(v) => v,
        None => return (false, VerifyTrace::BadEncoding),
    };
    let mut rm = salt.to_vec();
    rm.extend_from_slice(msg);
    let c = hash_to_point(&rm, n);
    let p = negamul_mod(&s2, h);
    let mut norm: i64 = 0;
    for i in 0..n {
        let s1 = center(c[i] - p[i]);
        norm += s1 * s1;
    }
    for &x in &s2 {
        norm += x * x;
    }
    (norm <= bound(n), VerifyTrace::Norm(norm))
}

/// Recover (s1, s2) of a signature as integers (s1 centred), or None if s is not an encoding.
pub fn recover_s(msg: &[u8], salt: &[u8], s: &[u8], h: &[i64]) -> Option<(Vec<i64>, Vec<i64>)> {
    let n = h.len();
    let s2 = decompress(s, n)?;
    let mut rm = salt.to_vec();
    rm.extend_from_slice(msg);
    let c = hash_to_point(&rm, n);
    let p = negamul_mod(&s2, h);
    let s1 = (0..n).map(|i| center(c[i] - p[i])).collect();
    Some((s1, s2))
}

// ---------------------------------------------------------------------------
// exact arithmetic over Z[X]/(X^n+1)

pub fn negamul_z(a: &[i64], b: &[i64]) -> Vec<i128> {
    let n = a.len();
    let mut r = vec![0i128; n];
    for i in 0..n {
        let ai = a[i] as i128;
        if ai == 0 {
            continue;
        }
        for j in 0..n {
            let p = ai * b[j] as i128;
            let k = i + j;
            if k < n {
                r[k] += p;
            } else {
                r[k - n] -= p;
            }
        }
    }
    r
}
