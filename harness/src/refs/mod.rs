pub mod ffs;
pub mod fl;
pub mod keccak;
pub mod sampler;
pub mod spec;
