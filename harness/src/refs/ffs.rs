//! Reference fast-Fourier sampling (specification Algorithms 8, 9, 11) in plain f64, written
//! independently of the crate: own FFT representation in NATURAL order
//!   fft(a)[k] = a(w_k),  w_k = exp(i*pi*(2k+1)/n),  k = 0..n-1,
//! own split/merge, own LDL tree. Used to replay the integer sampler's outputs recorded from
//! a real signing run and to predict every centre and width the signer must have used.

#[derive(Clone, Copy, Debug, PartialEq)]
pub struct C(pub f64, pub f64);

impl C {
    pub fn add(self, o: C) -> C {
        C(self.0 + o.0, self.1 + o.1)
    }
    pub fn sub(self, o: C) -> C {
        C(self.0 - o.0, self.1 - o.1)
    }
    pub fn mul(self, o: C) -> C {
        C(self.0 * o.0 - self.1 * o.1, self.0 * o.1 + self.1 * o.0)
    }
    pub fn conj(self) -> C {
        C(self.0, -self.1)
    }
    pub fn div(self, o: C) -> C {
        let d = o.0 * o.0 + o.1 * o.1;
        let n = self.mul(o.conj());
        C(n.0 / d, n.1 / d)
    }
    pub fn scale(self, s: f64) -> C {
        C(self.0 * s, self.1 * s)
    }
}

fn root(n: usize, k: usize) -> C {
    let a = std::f64::consts::PI * (2 * k + 1) as f64 / n as f64;
    C(a.cos(), a.sin())
}

/// Evaluate a real polynomial at the n roots of x^n + 1 (recursive even/odd split).
pub fn fft(a: &[f64]) -> Vec<C> {
    let n = a.len();
    if n == 1 {
        return vec![C(a[0], 0.0)];
    }
    let ev: Vec<f64> = (0..n / 2).map(|i| a[2 * i]).collect();
    let od: Vec<f64> = (0..n / 2).map(|i| a[2 * i + 1]).collect();
    merge(&fft(&ev), &fft(&od))
}

/// F = merge(f0, f1): F[k] = f0[k] + w_k f1[k], F[k + n/2] = f0[k] - w_k f1[k].
pub fn merge(f0: &[C], f1: &[C]) -> Vec<C> {
    let h = f0.len();
    let n = 2 * h;
    let mut out = vec![C(0.0, 0.0); n];
    for k in 0..h {
        let w = root(n, k);
        let t = w.mul(f1[k]);
        out[k] = f0[k].add(t);
        out[k + h] = f0[k].sub(t);
    }
    out
}

pub fn split(f: &[C]) -> (Vec<C>, Vec<C>) {
    let n = f.len();
    let h = n / 2;
    let mut f0 = vec![C(0.0, 0.0); h];
    let mut f1 = vec![C(0.0, 0.0); h];
    for k in 0..h {
        let w = root(n, k);
        f0[k] = f[k].add(f[k + h]).scale(0.5);
        f1[k] = f[k].sub(f[k + h]).scale(0.5).div(w);
    }
    (f0, f1)
}

/// Inverse transform back to real coefficients.
pub fn ifft(f: &[C]) -> Vec<f64> {
    let n = f.len();
    if n == 1 {
        return vec![f[0].0];
    }
    let (f0, f1) = split(f);
    let (a0, a1) = (ifft(&f0), ifft(&f1));
    let mut out = vec![0.0; n];
    for i in 0..n / 2 {
        out[2 * i] = a0[i];
        out[2 * i + 1] = a1[i];
    }
    out
}

pub enum Tree {
    /// l10 (FFT), left, right
    Node(Vec<C>, Box<Tree>, Box<Tree>),
    /// two coordinates sampled independently with this standard deviation
    Leaf(f64),
}

/// ffLDL* of the Gram matrix [[g00, g01], [conj(g01), g11]] (all in FFT), normalised with sigma.
/// Stops at polynomials of length 2, where the Gram matrix of the remaining pair is diagonal
/// d*I (d real): the two coordinates are then sampled independently with sigma/sqrt(d).
fn ffldl(g00: &[C], g01: &[C], g11: &[C], sigma: f64) -> Tree {
    let n = g00.len();
    // L = [[1,0],[l10,1]], l10 = g10/g00 = conj(g01)/g00; D = diag(g00, g11 - |l10|^2 g00)
    let l10: Vec<C> = (0..n).map(|k| g01[k].conj().div(g00[k])).collect();
    let d11: Vec<C> = (0..n).map(|k| g11[k].sub(l10[k].mul(l10[k].conj()).mul(g00[k]))).collect();
    if n > 2 {
        let (d00_0, d00_1) = split(g00);
        let (d11_0, d11_1) = split(&d11);
        Tree::Node(l10, Box::new(ffldl(&d00_0, &d00_1, &d00_0, sigma)), Box::new(ffldl(&d11_0, &d11_1, &d11_0, sigma)))
    } else {
        // self-adjoint elements of R[x]/(x^2+1) are real constants
        Tree::Node(l10, Box::new(Tree::Leaf(sigma / g00[0].0.sqrt())), Box::new(Tree::Leaf(sigma / d11[0].0.sqrt())))
    }
}

/// Tree of the basis B = [[g, -f], [G, -F]].
pub fn tree(f: &[f64], g: &[f64], cf: &[f64], cg: &[f64], sigma: f64) -> Tree {
    let neg = |v: &[f64]| v.iter().map(|x| -x).collect::<Vec<f64>>();
    let b00 = fft(g);
    let b01 = fft(&neg(f));
    let b10 = fft(cg);
    let b11 = fft(&neg(cf));
    let n = b00.len();
    // G = B B^*
    let g00: Vec<C> = (0..n).map(|k| b00[k].mul(b00[k].conj()).add(b01[k].mul(b01[k].conj()))).collect();
    let g01: Vec<C> = (0..n).map(|k| b00[k].mul(b10[k].conj()).add(b01[k].mul(b11[k].conj()))).collect();
    let g11: Vec<C> = (0..n).map(|k| b10[k].mul(b10[k].conj()).add(b11[k].mul(b11[k].conj()))).collect();
    ffldl(&g00, &g01, &g11, sigma)
}

pub struct Replay<'a> {
    /// recorded sampler outputs in call order
    pub zs: &'a [i64],
    pub pos: usize,
    /// (expected centre, expected width) for every call, in call order
    pub expected: Vec<(f64, f64)>,
}

/// Algorithm 11 with the integer sampler replaced by the recorded outputs. Call order: right
/// subtree first, then left; inside a leaf pair: first coordinate, then second.
pub fn ffsampling(t0: &[C], t1: &[C], tree: &Tree, rp: &mut Replay) -> Option<(Vec<C>, Vec<C>)> {
    match tree {
        Tree::Node(l10, left, right) => {
            let (t1a, t1b) = split(t1);
            let (z1a, z1b) = ffsampling(&t1a, &t1b, right, rp)?;
            let z1 = merge(&z1a, &z1b);
            let n = t0.len();
            let t0p: Vec<C> = (0..n).map(|k| t0[k].add(t1[k].sub(z1[k]).mul(l10[k]))).collect();
            let (t0a, t0b) = split(&t0p);
            let (z0a, z0b) = ffsampling(&t0a, &t0b, left, rp)?;
            Some((merge(&z0a, &z0b), z1))
        }
        Tree::Leaf(sig) => {
            // t0, t1 are single real numbers here
            let mut out = vec![];
            for t in [t0, t1] {
                if rp.pos >= rp.zs.len() {
                    return None;
                }
                rp.expected.push((t[0].0, *sig));
                out.push(vec![C(rp.zs[rp.pos] as f64, 0.0)]);
                rp.pos += 1;
            }
            let b = out.pop().unwrap();
            let a = out.pop().unwrap();
            Some((a, b))
        }
    }
}
