//! Shared plumbing: leg reports, seeded generators, the panic monitor, a work-sharing
//! parallel loop.

use rand_chacha::ChaCha20Rng;
use rand::SeedableRng;
use serde_json::{json, Map, Value};
use std::cell::RefCell;
use std::collections::{BTreeMap, HashSet};
use std::panic::{catch_unwind, AssertUnwindSafe};
use std::sync::atomic::{AtomicUsize, Ordering};
use std::sync::Mutex;

use crate::refs::keccak::shake256;

pub fn hex(b: &[u8]) -> String {
    let mut s = String::with_capacity(2 * b.len());
    for x in b {
        s.push_str(&format!("{:02x}", x));
    }
    s
}

pub fn unhex(s: &str) -> Vec<u8> {
    (0..s.len() / 2)
        .map(|i| u8::from_str_radix(&s[2 * i..2 * i + 2], 16).unwrap())
        .collect()
}

pub fn hash64(data: &[u8]) -> u64 {
    // FNV-1a, only used to count distinct cases
    let mut h: u64 = 0xcbf29ce484222325;
    for b in data {
        h ^= *b as u64;
        h = h.wrapping_mul(0x100000001b3);
    }
    h
}

/// Deterministic generator for (VERIF_SEED, label).
pub fn rng_for(seed: u64, label: &str) -> ChaCha20Rng {
    let mut inp = label.as_bytes().to_vec();
    inp.push(0);
    inp.extend_from_slice(&seed.to_le_bytes());
    let d = shake256(&inp, 32);
    let mut s = [0u8; 32];
    s.copy_from_slice(&d);
    ChaCha20Rng::from_seed(s)
}

pub fn seed32(seed: u64, label: &str) -> [u8; 32] {
    let mut inp = label.as_bytes().to_vec();
    inp.push(1);
    inp.extend_from_slice(&seed.to_le_bytes());
    let d = shake256(&inp, 32);
    let mut s = [0u8; 32];
    s.copy_from_slice(&d);
    s
}

/// Counter seed used by the committed regression corpus: seed[0..8] = i (LE), rest zero.
pub fn counter_seed(i: u64) -> [u8; 32] {
    let mut s = [0u8; 32];
    s[..8].copy_from_slice(&i.to_le_bytes());
    s
}

// ---------------------------------------------------------------------------
// panic monitor

#[derive(Debug, Clone)]
pub struct PanicInfo {
    pub message: String,
    pub location: String,
    pub no_progress: bool,
}

/// Payload thrown by the harness RNG when a call consumed more honest randomness than
/// 1000 honest attempts would need (logical-step progress bound).
pub struct NoProgress;

thread_local! {
    static LAST_PANIC: RefCell<Option<(String, String)>> = RefCell::new(None);
}

pub fn install_panic_hook() {
    std::panic::set_hook(Box::new(|info| {
        let loc = info
            .location()
            .map(|l| format!("{}:{}", l.file(), l.line()))
            .unwrap_or_else(|| "?".into());
        let msg = if let Some(s) = info.payload().downcast_ref::<&str>() {
            s.to_string()
        } else if let Some(s) = info.payload().downcast_ref::<String>() {
            s.clone()
        } else if info.payload().downcast_ref::<NoProgress>().is_some() {
            "NoProgress".to_string()
        } else {
            "<non-string payload>".to_string()
        };
        // try_with: panics are also caught while a thread is being torn down
        let _ = LAST_PANIC.try_with(|p| *p.borrow_mut() = Some((msg, loc)));
    }));
}

/// Run `f` under the panic monitor.
pub fn monitored<T>(f: impl FnOnce() -> T) -> Result<T, PanicInfo> {
    let _ = LAST_PANIC.try_with(|p| *p.borrow_mut() = None);
    match catch_unwind(AssertUnwindSafe(f)) {
        Ok(v) => Ok(v),
        Err(payload) => {
            let np = payload.downcast_ref::<NoProgress>().is_some();
            let (message, location) = LAST_PANIC
                .try_with(|p| p.borrow_mut().take())
                .ok()
                .flatten()
                .unwrap_or_else(|| ("?".into(), "?".into()));
            Err(PanicInfo {
                message,
                location,
                no_progress: np,
            })
        }
    }
}

/// Strip the machine-specific prefix so that a panic site is a stable signature.
pub fn short_loc(loc: &str) -> String {
    match loc.find("falcon-rust/src/") {
        Some(i) => loc[i + "falcon-rust/".len()..].to_string(),
        None => {
            // dependency: keep crate dir + file
            let parts: Vec<&str> = loc.rsplit('/').take(3).collect();
            parts.into_iter().rev().collect::<Vec<_>>().join("/")
        }
    }
}

// ---------------------------------------------------------------------------
// leg report

#[derive(Debug, Clone)]
pub struct Violation {
    pub signature: String, // stable key (known-findings are matched on this)
    pub detail: String,
    pub replay: Value, // everything needed to re-execute the case
}

#[derive(Default)]
pub struct Report {
    pub evaluations: u64,
    pub distinct: HashSet<u64>,
    pub counters: BTreeMap<String, u64>,
    pub stats: BTreeMap<String, f64>,
    pub samples: Vec<Value>,
    pub violations: Vec<Violation>,
    pub violation_counts: BTreeMap<String, u64>,
    pub inconclusive: Vec<String>,
    pub notes: Vec<String>,
}

pub const MAX_VIOL_PER_SIG: u64 = 3;
pub const MAX_SAMPLES: usize = 6;

impl Report {
    pub fn new() -> Self {
        Self::default()
    }
    pub fn count(&mut self, k: &str, by: u64) {
        *self.counters.entry(k.to_string()).or_insert(0) += by;
    }
    pub fn get(&self, k: &str) -> u64 {
        *self.counters.get(k).unwrap_or(&0)
    }
    pub fn stat_max(&mut self, k: &str, v: f64) {
        let e = self.stats.entry(k.to_string()).or_insert(f64::NEG_INFINITY);
        if v > *e {
            *e = v;
        }
    }
    pub fn stat_min(&mut self, k: &str, v: f64) {
        let e = self.stats.entry(k.to_string()).or_insert(f64::INFINITY);
        if v < *e {
            *e = v;
        }
    }
    pub fn stat_set(&mut self, k: &str, v: f64) {
        self.stats.insert(k.to_string(), v);
    }
    pub fn nontrivial(&mut self, key: &[u8]) {
        self.distinct.insert(hash64(key));
    }
    pub fn nontrivial_s(&mut self, key: &str) {
        self.distinct.insert(hash64(key.as_bytes()));
    }
    pub fn sample(&mut self, v: Value) {
        if self.samples.len() < MAX_SAMPLES {
            self.samples.push(v);
        }
    }
    pub fn violation(&mut self, signature: &str, detail: String, replay: Value) {
        let c = self.violation_counts.entry(signature.to_string()).or_insert(0);
        *c += 1;
        if *c <= MAX_VIOL_PER_SIG {
            self.violations.push(Violation {
                signature: signature.to_string(),
                detail,
                replay,
            });
        }
    }
    pub fn inconclusive(&mut self, why: String) {
        if self.inconclusive.len() < 20 {
            self.inconclusive.push(why);
        }
    }
    pub fn note(&mut self, s: String) {
        if self.notes.len() < 40 {
            self.notes.push(s);
        }
    }
    /// Require that a counter is non-zero, else the leg is inconclusive.
    pub fn require(&mut self, k: &str, min: u64) {
        // legs run with a scaled-down workload (VF_SCALE percent, e.g. under ThreadSanitizer)
        // scale their evidence requirements with it; at least one event is always required
        let min = match std::env::var("VF_SCALE").ok().and_then(|s| s.parse::<u64>().ok()) {
            Some(p) if p < 100 => (min * p / 100).max(1),
            _ => min,
        };
        if self.get(k) < min {
            self.inconclusive(format!("counter {} = {} < required {}", k, self.get(k), min));
        }
    }
    pub fn merge(&mut self, o: Report) {
        self.evaluations += o.evaluations;
        self.distinct.extend(o.distinct);
        for (k, v) in o.counters {
            *self.counters.entry(k).or_insert(0) += v;
        }
        for (k, v) in o.stats {
            // merged stats: keys ending in _min take the minimum, everything else the maximum
            if k.ends_with("_min") {
                let e = self.stats.entry(k).or_insert(f64::INFINITY);
                if v < *e {
                    *e = v;
                }
            } else {
                let e = self.stats.entry(k).or_insert(f64::NEG_INFINITY);
                if v > *e {
                    *e = v;
                }
            }
        }
        for s in o.samples {
            self.sample(s);
        }
        for (k, c) in o.violation_counts {
            *self.violation_counts.entry(k).or_insert(0) += c;
        }
        for v in o.violations {
            let have = self
                .violations
                .iter()
                .filter(|x| x.signature == v.signature)
                .count() as u64;
            if have < MAX_VIOL_PER_SIG {
                self.violations.push(v);
            }
        }
        for s in o.inconclusive {
            self.inconclusive(s);
        }
        for s in o.notes {
            self.note(s);
        }
    }
    pub fn to_json(&self, prop: &str, leg: &str, profile: &str, tier: &str, seed: u64, wall: f64) -> Value {
        let mut counters = Map::new();
        for (k, v) in &self.counters {
            counters.insert(k.clone(), json!(v));
        }
        let mut stats = Map::new();
        for (k, v) in &self.stats {
            stats.insert(k.clone(), if v.is_finite() { json!(v) } else { json!(format!("{}", v)) });
        }
        let mut vc = Map::new();
        for (k, v) in &self.violation_counts {
            vc.insert(k.clone(), json!(v));
        }
        json!({
            "property": prop, "leg": leg, "profile": profile, "tier": tier, "seed": seed,
            "wall_s": wall,
            "evaluations": self.evaluations,
            "distinct_nontrivial": self.distinct.len(),
            "counters": counters, "stats": stats,
            "samples": self.samples,
            "violations": self.violations.iter().map(|v| json!({"signature": v.signature, "detail": v.detail, "replay": v.replay})).collect::<Vec<_>>(),
            "violation_counts": vc,
            "inconclusive": self.inconclusive,
            "notes": self.notes,
        })
    }
}

/// Work-sharing loop: `items` indices are handed out to `threads` workers, each with its
/// own Report; reports are merged at the end.
pub fn par_for<F>(items: usize, threads: usize, f: F) -> Report
where
    F: Fn(usize, &mut Report) + Sync,
{
    let next = AtomicUsize::new(0);
    let out = Mutex::new(Report::new());
    let threads = threads.max(1).min(items.max(1));
    std::thread::scope(|s| {
        for _ in 0..threads {
            s.spawn(|| {
                let mut rep = Report::new();
                loop {
                    let i = next.fetch_add(1, Ordering::SeqCst);
                    if i >= items {
                        break;
                    }
                    f(i, &mut rep);
                }
                out.lock().unwrap().merge(rep);
            });
        }
    });
    out.into_inner().unwrap()
}

pub fn ncpu() -> usize {
    std::env::var("VF_THREADS")
        .ok()
        .and_then(|s| s.parse().ok())
        .unwrap_or_else(|| std::thread::available_parallelism().map(|n| n.get()).unwrap_or(4))
}

pub struct Ctx {
    pub tier: String,
    pub seed: u64,
    pub profile: String,
    pub args: Vec<String>,
}

impl Ctx {
    pub fn thorough(&self) -> bool {
        self.tier == "thorough"
    }
    /// quick/thorough sized constant
    pub fn sz(&self, quick: usize, thorough: usize) -> usize {
        let base = if self.thorough() { thorough } else { quick };
        // VF_SCALE (percent) lets the mutation campaign shrink or enlarge workloads
        match std::env::var("VF_SCALE").ok().and_then(|s| s.parse::<usize>().ok()) {
            Some(p) => (base * p / 100).max(1),
            None => base,
        }
    }
}

/// Replay helper: print every violation of the re-executed case with a machine-readable
/// signature line (the driver filters known findings on it). Returns true if none.
pub fn print_replay(rep: &Report) -> bool {
    for v in &rep.violations {
        println!("REPLAY-SIGNATURE: {}", v.signature);
        println!("  {}", v.detail);
    }
    rep.violations.is_empty()
}

static NOT_REPLAYABLE: std::sync::atomic::AtomicBool = std::sync::atomic::AtomicBool::new(false);
/// The recorded case cannot be re-executed exactly (statistical verdict, input too large to
/// store, reference-side randomness): the driver re-runs the leg with the recorded seed.
pub fn not_replayable() {
    NOT_REPLAYABLE.store(true, Ordering::SeqCst);
}
pub fn was_not_replayable() -> bool {
    NOT_REPLAYABLE.load(Ordering::SeqCst)
}

// ---------------------------------------------------------------------------
// running code while a thread is being torn down

struct TeardownProbe {
    f: Option<Box<dyn FnOnce() -> Option<String>>>,
    out: std::sync::Arc<Mutex<Option<Result<Option<String>, String>>>>,
}

impl Drop for TeardownProbe {
    fn drop(&mut self) {
        if let Some(f) = self.f.take() {
            let r = std::panic::catch_unwind(std::panic::AssertUnwindSafe(f));
            *self.out.lock().unwrap() = Some(r.map_err(|e| {
                if let Some(s) = e.downcast_ref::<String>() {
                    s.clone()
                } else if let Some(s) = e.downcast_ref::<&str>() {
                    s.to_string()
                } else {
                    "panic".to_string()
                }
            }));
        }
    }
}

thread_local! {
    static TEARDOWN: std::cell::RefCell<Option<TeardownProbe>> = std::cell::RefCell::new(None);
}

/// Runs `warmup` on a fresh thread and then `f` from the destructor of a thread-local object
/// that was registered BEFORE `warmup` ran, i.e. after every thread-local that `warmup` caused
/// to be created has already been destroyed. Returns what `f` returned (Some(description) = a
/// wrong result), Err(message) if it panicked, or Err if the destructor never ran.
pub fn run_at_thread_exit<W, F>(warmup: W, f: F) -> Result<Option<String>, String>
where
    W: FnOnce() + Send + 'static,
    F: FnOnce() -> Option<String> + Send + 'static,
{
    let out = std::sync::Arc::new(Mutex::new(None));
    let out2 = out.clone();
    let h = std::thread::spawn(move || {
        TEARDOWN.with(|t| *t.borrow_mut() = Some(TeardownProbe { f: Some(Box::new(f)), out: out2 }));
        warmup();
    });
    let _ = h.join();
    let r = out.lock().unwrap().take();
    r.unwrap_or_else(|| Err("the thread-exit probe did not run".to_string()))
}
