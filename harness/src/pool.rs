//! Key pool: keys generated at run time by the code under test (never cached across runs).

use std::sync::atomic::{AtomicBool, Ordering};
use std::sync::Mutex;

use crate::fv::Fv;
use crate::util::{monitored, ncpu, par_for, seed32, PanicInfo};

pub struct Key<V: Fv> {
    pub seed: [u8; 32],
    pub sk: V::Sk,
    pub pk: V::Pk,
}

/// `count` keys from seeds derived from (seed, label, index). Keygen panics are returned.
pub fn keys<V: Fv>(seed: u64, label: &str, count: usize) -> (Vec<Key<V>>, Vec<([u8; 32], PanicInfo)>) {
    let seeds: Vec<[u8; 32]> = (0..count).map(|i| seed32(seed, &format!("{}-{}-{}", label, V::NAME, i))).collect();
    keys_from::<V>(&seeds)
}

static KEYGEN_STUCK: AtomicBool = AtomicBool::new(false);
static CANARY_DONE: AtomicBool = AtomicBool::new(false);

/// Key generation draws from its own seeded generator, so a key search that never accepts
/// cannot be bounded by logical steps from outside. One canary key generation per process
/// runs under a generous wall-clock limit (normal: 0.2-1.5 s; limit 180 s); if it does not
/// return, every leg that needs keys reports INCONCLUSIVE at once instead of hanging until the
/// driver's watchdog. (Never a violation: wall time is not an oracle.)
pub fn keygen_responds<V: Fv>() -> bool {
    if KEYGEN_STUCK.load(Ordering::SeqCst) {
        return false;
    }
    if CANARY_DONE.load(Ordering::SeqCst) {
        return true;
    }
    let (tx, rx) = std::sync::mpsc::channel();
    std::thread::spawn(move || {
        let r = monitored(|| V::keygen([0x42u8; 32])).is_ok();
        let _ = tx.send(r);
    });
    match rx.recv_timeout(std::time::Duration::from_secs(180)) {
        Ok(_) => {
            CANARY_DONE.store(true, Ordering::SeqCst);
            true
        }
        Err(_) => {
            KEYGEN_STUCK.store(true, Ordering::SeqCst);
            false
        }
    }
}

pub fn keys_from<V: Fv>(seeds: &[[u8; 32]]) -> (Vec<Key<V>>, Vec<([u8; 32], PanicInfo)>) {
    if !keygen_responds::<V>() {
        return (vec![], vec![([0u8; 32], PanicInfo { message: "key generation did not return within 180 s (canary)".into(), location: "harness".into(), no_progress: true })]);
    }
    let out: Mutex<Vec<(usize, Key<V>)>> = Mutex::new(vec![]);
    let bad: Mutex<Vec<([u8; 32], PanicInfo)>> = Mutex::new(vec![]);
    par_for(seeds.len(), ncpu(), |i, _| {
        let s = seeds[i];
        match monitored(|| V::keygen(s)) {
            Ok((sk, pk)) => out.lock().unwrap().push((i, Key { seed: s, sk, pk })),
            Err(p) => bad.lock().unwrap().push((s, p)),
        }
    });
    let mut v = out.into_inner().unwrap();
    v.sort_by_key(|x| x.0);
    (v.into_iter().map(|x| x.1).collect(), bad.into_inner().unwrap())
}
