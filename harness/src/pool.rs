//! Key pool: keys generated at run time by the code under test (never cached across runs).

use std::sync::Mutex;

use crate::fv::Fv;
use crate::util::{monitored, ncpu, par_for, seed32, PanicInfo};

pub struct Key<V: Fv> {
    pub seed: [u8; 32],
    pub sk: V::Sk,
    pub pk: V::Pk,
}

/// `count` keys from seeds derived from (seed, label, index). Keygen panics are returned.
pub fn keys<V: Fv>(seed: u64, label: &str, count: usize) -> (Vec<Key<V>>, Vec<([u8; 32], PanicInfo)>) {
    let seeds: Vec<[u8; 32]> = (0..count).map(|i| seed32(seed, &format!("{}-{}-{}", label, V::NAME, i))).collect();
    keys_from::<V>(&seeds)
}

pub fn keys_from<V: Fv>(seeds: &[[u8; 32]]) -> (Vec<Key<V>>, Vec<([u8; 32], PanicInfo)>) {
    let out: Mutex<Vec<(usize, Key<V>)>> = Mutex::new(vec![]);
    let bad: Mutex<Vec<([u8; 32], PanicInfo)>> = Mutex::new(vec![]);
    par_for(seeds.len(), ncpu(), |i, _| {
        let s = seeds[i];
        match monitored(|| V::keygen(s)) {
            Ok((sk, pk)) => out.lock().unwrap().push((i, Key { seed: s, sk, pk })),
            Err(p) => bad.lock().unwrap().push((s, p)),
        }
    });
    let mut v = out.into_inner().unwrap();
    v.sort_by_key(|x| x.0);
    (v.into_iter().map(|x| x.1).collect(), bad.into_inner().unwrap())
}
