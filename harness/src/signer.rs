//! Driving `sign` with harness-supplied randomness and observing its branch events.

use std::cell::RefCell;
use std::rc::Rc;
use std::sync::atomic::{AtomicU64, Ordering};

use falcon_rust::verif_hooks as vh;
use falcon_rust::verif_hooks::Event;

use crate::fv::Fv;
use crate::gen::{ScriptedRng, SharedRng, Strategy};
use crate::util::{monitored, PanicInfo};

/// 1000 honest attempts' worth of u32 draws (2n samples x ~1.5 iterations x 17 draws).
pub fn progress_budget(n: usize) -> u64 {
    1000 * (2 * n as u64) * 17 * 3 / 2
}

pub struct SignOutcome<V: Fv> {
    pub sig: Result<V::Sig, PanicInfo>,
    pub events: Vec<Event>,
    pub draws: u64,
    pub fills: u64,
    pub first_fill: Option<Vec<u8>>,
    pub norm_rejects: usize,
    pub compress_fails: usize,
    /// bytes drawn by the sampler during the call (if the generator was recording)
    pub recorded: Option<Vec<u8>>,
}

/// Circuit breaker: every no-progress verdict costs the randomness of 1000 honest attempts.
/// After a few of them in one process, further scripted sign calls fail fast with the same
/// verdict (the run is already "violated"; the remaining workload would only burn time).
static NO_PROGRESS_SEEN: AtomicU64 = AtomicU64::new(0);
pub const BREAKER_AT: u64 = 4;

pub fn sign_is_stuck() -> bool {
    NO_PROGRESS_SEEN.load(Ordering::SeqCst) >= BREAKER_AT
}

pub fn sign_scripted<V: Fv>(msg: &[u8], sk: &V::Sk, rng: ScriptedRng, log_sampler: bool, compress_failures: u32) -> SignOutcome<V> {
    if sign_is_stuck() {
        return SignOutcome {
            sig: Err(PanicInfo { message: "circuit breaker: sign made no progress in earlier calls of this run".into(), location: "harness".into(), no_progress: true }),
            events: vec![],
            draws: 0,
            fills: 0,
            first_fill: None,
            norm_rejects: 0,
            compress_fails: 0,
            recorded: None,
        };
    }
    let rc = Rc::new(RefCell::new(rng));
    vh::take_events();
    vh::set_sign_rng(Some(Box::new(SharedRng(rc.clone()))));
    vh::set_logging(true, log_sampler, false);
    vh::set_compress_failures(compress_failures);
    let sig = monitored(|| V::sign(msg, sk));
    vh::set_sign_rng(None);
    vh::set_compress_failures(0);
    vh::set_logging(false, false, false);
    let events = vh::take_events();
    if let Err(p) = &sig {
        if p.no_progress {
            NO_PROGRESS_SEEN.fetch_add(1, Ordering::SeqCst);
        }
    }
    let r = rc.borrow();
    let norm_rejects = events.iter().filter(|e| matches!(e, Event::NormReject(_))).count();
    let compress_fails = events.iter().filter(|e| matches!(e, Event::CompressFail)).count();
    SignOutcome {
        sig,
        events,
        draws: r.total_u32,
        fills: r.fills,
        first_fill: r.first_fill.clone(),
        norm_rejects,
        compress_fails,
        recorded: r.record.clone(),
    }
}

pub fn sign_honest<V: Fv>(msg: &[u8], sk: &V::Sk, seed: u64, label: &str) -> SignOutcome<V> {
    sign_scripted::<V>(msg, sk, ScriptedRng::new(seed, label, Strategy::Honest, progress_budget(V::N)), false, 0)
}

/// Canary for legs that call the un-overridden `sign` (which the harness cannot bound by
/// logical steps): one bounded signing call first. Returns false if signing does not
/// terminate or panics -- the leg then reports "inconclusive" instead of hanging until the
/// watchdog (C01 reports the defect itself).
pub fn canary<V: Fv>(sk: &V::Sk) -> bool {
    let out = sign_scripted::<V>(b"canary", sk, ScriptedRng::new(0xCA, "canary", Strategy::Honest, progress_budget(V::N) / 10), false, 0);
    out.sig.is_ok()
}
