//! C14: HashToPoint equals the SHAKE-256 rejection sampler of Algorithm 3.

use rand::Rng;
use serde_json::{json, Value};

use crate::gen::rand_bytes;
use crate::refs::spec;
use crate::util::{hex, monitored, ncpu, par_for, rng_for, short_loc, unhex, Ctx, Report};
use falcon_rust::verif_hooks as vh;

thread_local! {
    /// the input hashed just before on this thread (call-sequence findings need it to replay)
    static PREVIOUS: std::cell::RefCell<Vec<u8>> = std::cell::RefCell::new(vec![]);
}

fn check(s: &[u8], rep: &mut Report) -> u32 {
    rep.evaluations += 1;
    let prev: Vec<u8> = PREVIOUS.try_with(|p| std::mem::replace(&mut *p.borrow_mut(), if s.len() <= 4096 { s.to_vec() } else { vec![] })).unwrap_or_default();
    let replay = || json!({"kind": "h2p", "input": if s.len() <= 4096 { hex(s) } else { format!("len:{}", s.len()) }, "hashed_just_before": hex(&prev)});
    let (w1024, tr) = spec::hash_to_point_traced(s, 1024);
    let (_, tr512) = spec::hash_to_point_traced(s, 512);
    let ss = s.to_vec();
    // the same input under alternating degrees: 512, 1024, 512, 1024
    let r = monitored(move || (vh::hash_to_point(&ss, 512), vh::hash_to_point(&ss, 1024), vh::hash_to_point(&ss, 512), vh::hash_to_point(&ss, 1024)));
    match r {
        Err(p) => rep.violation(&format!("panic:hash_to_point@{}", short_loc(&p.location)), format!("input of {} bytes: {}", s.len(), p.message), replay()),
        Ok((h512, h1024, again, again1024)) => {
            if again1024 != h1024 {
                rep.violation("h2p:nondeterministic", format!("the second call with n = 1024 on the same {}-byte input (after calls with 512, 1024, 512) returns {} coefficients / different values", s.len(), again1024.len()), replay());
            }
            let a: Vec<i64> = h512.iter().map(|&x| x as i64).collect();
            let b: Vec<i64> = h1024.iter().map(|&x| x as i64).collect();
            if b != w1024 {
                let first = b.iter().zip(w1024.iter()).position(|(x, y)| x != y).unwrap_or(b.len().min(w1024.len()));
                rep.violation("h2p:differs-1024", format!("hash_to_point(len {}, 1024) differs from Algorithm 3 at coefficient {} (lengths {} / 1024)", s.len(), first, b.len()), replay());
            }
            if a[..] != w1024[..512] {
                let first = a.iter().zip(w1024.iter()).position(|(x, y)| x != y).unwrap_or(a.len().min(512));
                rep.violation("h2p:differs-512", format!("hash_to_point(len {}, 512) differs from Algorithm 3 at coefficient {} (length {})", s.len(), first, a.len()), replay());
            }
            if a.iter().chain(b.iter()).any(|&x| !(0..spec::Q).contains(&x)) {
                rep.violation("h2p:coefficient-out-of-range", format!("coefficient outside [0,q) for input of {} bytes", s.len()), replay());
            }
            if again != h512 {
                rep.violation("h2p:nondeterministic", format!("two calls on the same {}-byte input differ", s.len()), replay());
            }
        }
    }
    let boundary = tr.saw_61444 + tr.saw_61445;
    rep.count("chunks_61444", tr.saw_61444 as u64);
    rep.count("chunks_61445", tr.saw_61445 as u64);
    rep.count("chunks_65535", tr.saw_65535 as u64);
    rep.count("chunks_12288", tr.saw_12288 as u64);
    rep.count("chunks_12289", tr.saw_12289 as u64);
    rep.count("chunks_rejected", tr.rejected as u64);
    // boundary chunks inside the first 512 accepted coefficients matter for the 512 variant
    rep.count("chunks_boundary_in_512_prefix", (tr512.saw_61444 + tr512.saw_61445) as u64);
    boundary
}

pub fn differential(ctx: &Ctx, rep: &mut Report) {
    // all lengths 0..=300 (across the 136-byte rate boundary), three fills each
    let r = par_for(301, ncpu(), |l, rep| {
        let mut rng = rng_for(ctx.seed, &format!("c14-len-{}", l));
        check(&vec![0u8; l], rep);
        check(&vec![0xffu8; l], rep);
        let s0 = rand_bytes(&mut rng, l);
        check(&s0, rep);
        // call sequences on one thread: a permutation of the same bytes (same length, byte sum
        // and xor), the original again, an extension and a truncation of it, the original again
        if l >= 2 {
            let mut s1 = s0.clone();
            let (i, j) = (rng.gen_range(0..l), rng.gen_range(0..l));
            s1.swap(i, j);
            check(&s1, rep);
            check(&s0, rep);
            let mut s2 = s0.clone();
            s2.rotate_left(1);
            check(&s2, rep);
            rep.count("checksum_preserving_sequences", 1);
        }
        let mut s3 = s0.clone();
        s3.push(0);
        check(&s3, rep);
        check(&s0, rep);
        if l >= 1 {
            check(&s0[..l - 1], rep);
            check(&s0, rep);
        }
        rep.count("lengths", 1);
        rep.nontrivial(format!("len|{}", l).as_bytes());
    });
    rep.merge(r);
    // long inputs
    let mut rng = rng_for(ctx.seed, "c14-long");
    for l in [135usize, 136, 137, 271, 272, 273, 4096, 65_536, ctx.sz(1 << 20, 1 << 24)] {
        let s = rand_bytes(&mut rng, l);
        check(&s, rep);
        rep.nontrivial(format!("long|{}", l).as_bytes());
    }
    // search leg: counter strings until the reference stream has shown the exact boundary
    // chunks (61444 accepted, 61445 rejected) often enough
    let n = ctx.sz(40_000, 8_000_000);
    let r = par_for(16, ncpu(), |w, rep| {
        let mut rng = rng_for(ctx.seed, &format!("c14-search-{}", w));
        for i in 0..n / 16 {
            let mut s = format!("vf-c14-{}-{}-{}", ctx.seed, w, i).into_bytes();
            if i % 3 == 0 {
                let extra = rng.gen_range(0..80);
                s.extend(rand_bytes(&mut rng, extra));
            }
            if check(&s, rep) > 0 {
                rep.nontrivial(&s);
                if i % 50 == 0 {
                    rep.sample(json!({"input": hex(&s), "reference_first_coefficients": spec::hash_to_point(&s, 512)[..4].to_vec(), "stream_contains_boundary_chunk": true}));
                }
            }
        }
    });
    rep.merge(r);
    // fingerprint-colliding pairs (see collide.rs): two different inputs of one length that agree
    // in a cheap fingerprint, hashed A, B, A on one thread
    let ncand = ctx.sz(1_200_000, 6_000_000);
    let fams: Vec<(usize, bool)> = vec![(8, true), (42, true), (42, false), (200, true), (96, false)];
    let r = par_for(fams.len(), ncpu(), |fi, rep| {
        let (len, counter_last) = fams[fi];
        let mut rng = rng_for(ctx.seed, &format!("c14-collide-{}", fi));
        let fixed = rand_bytes(&mut rng, len - 8);
        let cands: Vec<Vec<u8>> = (0..ncand / fams.len())
            .map(|_| {
                let ctr: [u8; 8] = rng.gen();
                let mut v = Vec::with_capacity(len);
                if len == 96 {
                    // the varying bytes in the MIDDLE: all candidates share head and tail
                    v.extend_from_slice(&fixed[..48]);
                    v.extend_from_slice(&ctr);
                    v.extend_from_slice(&fixed[48..]);
                } else if counter_last {
                    v.extend_from_slice(&fixed);
                    v.extend_from_slice(&ctr);
                } else {
                    v.extend_from_slice(&ctr);
                    v.extend_from_slice(&fixed);
                }
                v
            })
            .collect();
        for (name, a, b) in crate::collide::pairs(&cands, 3) {
            check(&cands[a], rep);
            check(&cands[b], rep);
            check(&cands[a], rep);
            rep.count("fingerprint_colliding_pairs", 1);
            rep.count(&format!("collide_{}", name), 1);
            rep.nontrivial(format!("collide|{}|{}|{}", name, hex(&cands[a]), hex(&cands[b])).as_bytes());
        }
    });
    rep.merge(r);
    // HashToPoint while a thread is being torn down (see C13), on threads that did / did not hash before
    let r = par_for(ctx.sz(48, 600), ncpu(), |ti, rep| {
        let mut rng = rng_for(ctx.seed, &format!("c14-teardown-{}", ti));
        let len = [0usize, 1, 42, 136, 200, 1000][ti % 6];
        let inp = rand_bytes(&mut rng, len);
        let warm = ti % 2 == 0;
        let res = crate::util::run_at_thread_exit(
            move || {
                if warm {
                    let _ = vh::hash_to_point(b"warm", 512);
                }
            },
            move || {
                let mut rep = Report::new();
                check(&inp, &mut rep);
                rep.violations.first().map(|v| format!("{}: {}", v.signature, v.detail))
            },
        );
        rep.evaluations += 1;
        match res {
            Ok(None) => rep.count("hashes_during_thread_exit", 1),
            Ok(Some(what)) => rep.violation("h2p:wrong-during-thread-exit", what, json!({"kind": "teardown", "ti": ti})),
            Err(e) if e.contains("did not run") => rep.inconclusive(e),
            Err(e) => rep.violation("panic:h2p-during-thread-exit", e, json!({"kind": "teardown", "ti": ti})),
        }
    });
    rep.merge(r);
    rep.require("hashes_during_thread_exit", 20);
    // VOLUME: one input hashed again and again on all cores
    {
        let inp = b"volume: the same salt and message".to_vec();
        let want: Vec<i16> = spec::hash_to_point(&inp, 512).iter().map(|&x| x as i16).collect();
        let reps = ctx.sz(200_000, 5_000_000);
        let r = par_for(64, ncpu(), |ci, rep| {
            for it in 0..reps / 64 {
                let got = monitored(|| vh::hash_to_point(&inp, 512));
                if got.as_ref().ok().map(|v| v.iter().map(|&x| x as i16).collect::<Vec<i16>>()) != Some(want.clone()) {
                    rep.violation("h2p:not-a-function-of-its-input", format!("repetition {} of chunk {} of one fixed input differs from Algorithm 3", it, ci), json!({"kind": "h2p", "input": hex(&inp)}));
                    break;
                }
            }
            rep.count("repeated_hashes_of_one_input", (reps / 64) as u64);
            rep.evaluations += (reps / 64) as u64;
        });
        rep.merge(r);
    }
    rep.require("fingerprint_colliding_pairs", 12);
    rep.require("collide_siphash-write-lo32", 1);
    rep.require("collide_siphash-hash-lo32", 1);
    rep.require("collide_crc32", 1);
    rep.require("lengths", 301);
    rep.require("chunks_61444", 100);
    rep.require("chunks_61445", 100);
    rep.require("chunks_12288", 100);
    rep.require("chunks_12289", 100);
    rep.require("chunks_65535", 100);
}

/// Inputs whose SHAKE stream has unusually MANY rejected chunks early (found by scanning
/// candidates with the reference only): they stress any buffering / bulk-squeeze / refill
/// logic of an implementation, which typical inputs never do. Returns the inputs ordered by
/// decreasing number of chunks the reference consumes for 512 coefficients.
pub fn extreme_inputs(seed: u64, candidates: usize, keep: usize) -> Vec<(usize, Vec<u8>)> {
    extreme_inputs_ex(seed, candidates, keep).0
}

/// As extreme_inputs, plus a second list: inputs in which a chunk equal to the acceptance
/// threshold (61445 = 5q, the first rejected value, or 61444) is among the LAST chunks the
/// reference consumes for 512 coefficients, at a position beyond n + n/16 (so that many
/// rejections came before it): the threshold test of whatever code handles the tail of a
/// bulk-squeezed stream is the only thing between such a chunk and a wrong coefficient.
/// Sorted by the position of that chunk, latest first.
pub fn extreme_inputs_ex(seed: u64, candidates: usize, keep: usize) -> (Vec<(usize, Vec<u8>)>, Vec<(usize, Vec<u8>)>) {
    let (a, b, _) = extreme_inputs_ex3(seed, candidates, keep);
    (a, b)
}

/// As extreme_inputs_ex, plus a third list: inputs whose stream, within the part consumed for 512
/// coefficients, contains two EQUAL ADJACENT aligned 4-byte words (2^-32 per word: a few per
/// 4*10^7 candidates). Code that reads the stream in words and compares a word with its
/// predecessor (a "stalled reader" guard, a run-length shortcut) meets its trigger only there.
/// The first component is the byte offset of the repeated word.
pub fn extreme_inputs_ex3(seed: u64, candidates: usize, keep: usize) -> (Vec<(usize, Vec<u8>)>, Vec<(usize, Vec<u8>)>, Vec<(usize, Vec<u8>)>) {
    use crate::refs::keccak::Shake256;
    use std::sync::Mutex;
    let repeats: Mutex<Vec<(usize, Vec<u8>)>> = Mutex::new(vec![]);
    let best: Mutex<Vec<(usize, Vec<u8>)>> = Mutex::new(vec![]);
    let tails: Mutex<Vec<(usize, Vec<u8>)>> = Mutex::new(vec![]);
    par_for(64, ncpu(), |w, _| {
        let mut local: Vec<(usize, Vec<u8>)> = vec![];
        let mut buf = [0u8; 2 * 612];
        for i in 0..candidates / 64 {
            // 40-byte "salt" with a counter, then a short message: the shape verify hashes
            let mut s = vec![0u8; 40];
            s[..8].copy_from_slice(&((seed << 40) ^ ((w as u64) << 32) ^ i as u64).to_le_bytes());
            s[8] = 0x5e;
            s.extend_from_slice(b"vf");
            // raw chunk stream (9 SHAKE blocks = 612 chunks): rejections among the first 576 chunks
            // and the longest run of consecutive rejected chunks
            let mut x = Shake256::new(&s);
            x.read(&mut buf);
            let (mut rej576, mut run, mut maxrun) = (0usize, 0usize, 0usize);
            let (mut accepted, mut late_boundary) = (0usize, 0usize);
            for k in 0..612 {
                let t = ((buf[2 * k] as u32) << 8) | buf[2 * k + 1] as u32;
                if accepted < 512 {
                    if (t == 61445 || t == 61444) && k >= 512 + 32 {
                        late_boundary = k;
                    }
                    if t < 61445 {
                        accepted += 1;
                    }
                }
                if t >= 61445 {
                    run += 1;
                    maxrun = maxrun.max(run);
                    if k < 576 {
                        rej576 += 1;
                    }
                } else {
                    run = 0;
                }
            }
            if late_boundary > 0 {
                tails.lock().unwrap().push((late_boundary, s.clone()));
            }
            // equal adjacent aligned 4-byte words inside the first 1100 bytes (the part every
            // 512-coefficient hash consumes)
            for w in 1..275 {
                if buf[4 * w..4 * w + 4] == buf[4 * w - 4..4 * w] {
                    repeats.lock().unwrap().push((4 * w, s.clone()));
                    break;
                }
            }
            if rej576 >= 58 || maxrun >= 6 {
                // score: rejection-heavy prefixes and long runs both rank high
                local.push((rej576 + 1000 * maxrun, s));
            }
        }
        best.lock().unwrap().extend(local);
    });
    let mut tl = tails.into_inner().unwrap();
    tl.sort_by(|a, b| b.0.cmp(&a.0).then(a.1.cmp(&b.1)));
    tl.truncate(keep.max(200));
    let mut v = best.into_inner().unwrap();
    // half of the kept inputs by longest run, half by number of early rejections
    v.sort_by(|a, b| b.0.cmp(&a.0));
    let mut out: Vec<(usize, Vec<u8>)> = v.iter().take(keep / 2).cloned().collect();
    let mut rest: Vec<(usize, Vec<u8>)> = v.into_iter().skip(keep / 2).collect();
    rest.sort_by(|a, b| (b.0 % 1000).cmp(&(a.0 % 1000)));
    out.extend(rest.into_iter().take(keep - keep / 2));
    let mut rp = repeats.into_inner().unwrap();
    rp.sort();
    (out, tl, rp)
}

pub fn extremes(ctx: &Ctx, rep: &mut Report) {
    let cands = ctx.sz(128_000_000, 600_000_000);
    let (xs, tails, repeats) = extreme_inputs_ex3(ctx.seed, cands, ctx.sz(4000, 80000));
    for (pos, s) in &repeats {
        check(s, rep);
        rep.count("inputs_with_a_repeated_aligned_word_in_the_stream", 1);
        rep.stat_max("repeated_word_offset", *pos as f64);
    }
    for (pos, s) in &tails {
        check(s, rep);
        rep.count("inputs_with_a_threshold_chunk_late_in_the_stream", 1);
        rep.stat_max("latest_threshold_chunk_position_512", *pos as f64);
        if *pos >= 563 {
            rep.count("threshold_chunk_beyond_n_plus_n_over_10", 1);
        }
        rep.nontrivial(s);
    }
    rep.require("inputs_with_a_threshold_chunk_late_in_the_stream", 100);
    rep.count("candidates_scanned_with_the_reference", cands as u64);
    let mut maxc = 0;
    for (score, s) in &xs {
        check(s, rep);
        maxc = maxc.max(*score);
        rep.nontrivial(s);
        rep.count("extreme_inputs_checked", 1);
        // characterise what was reached (reference trace)
        let (_, tr) = spec::hash_to_point_traced(s, 1024);
        if tr.chunks > 1024 + 128 {
            rep.count("inputs_with_more_than_n_over_8_rejections_1024", 1);
        }
        let (_, tr5) = spec::hash_to_point_traced(s, 512);
        if tr5.chunks > 512 + 64 {
            rep.count("inputs_with_more_than_n_over_8_rejections_512", 1);
        }
        if *score / 1000 >= 7 {
            rep.count("inputs_with_a_run_of_7_or_more_rejected_chunks", 1);
        }
        if *score / 1000 >= 8 {
            rep.count("inputs_with_a_run_of_8_or_more_rejected_chunks", 1);
        }
    }
    rep.stat_set("max_extremeness_score", maxc as f64);
    if let Some((c, s)) = xs.first() {
        rep.sample(json!({"input": hex(s), "score": c, "meaning": "1000 * (longest run of consecutive rejected chunks) + rejections among the first 576 chunks"}));
    }
    rep.require("extreme_inputs_checked", 100);
}

pub fn replay(r: &Value) -> bool {
    let mut rep = Report::new();
    let inp = r["input"].as_str().unwrap_or("");
    if inp.starts_with("len:") {
        println!("input too large to be stored; re-run the leg with the recorded seed");
        crate::util::not_replayable();
        return false;
    }
    if let Some(p) = r["hashed_just_before"].as_str() {
        // sequence-dependent findings: the predecessor first, same thread (its own verdict is
        // not part of this replay)
        let mut scratch = Report::new();
        check(&unhex(p), &mut scratch);
    }
    check(&unhex(inp), &mut rep);
    crate::util::print_replay(&rep)
}
