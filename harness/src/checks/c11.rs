//! C11: NTT-based multiplication in Z_q[X]/(X^n+1) is exact; tables are the bit-reversed
//! powers of a primitive 2048-th root of unity.

use rand::Rng;
use serde_json::{json, Value};

use crate::refs::fl::bitrev;
use crate::refs::spec::{self, Q};
use crate::util::{monitored, ncpu, par_for, rng_for, short_loc, Ctx, Report};
use falcon_rust::verif_hooks as vh;

pub fn tables(_ctx: &Ctx, rep: &mut Report) {
    let (fwd, inv, ninv) = match monitored(vh::felt_tables) {
        Ok(t) => t,
        Err(p) => {
            rep.violation(&format!("panic:tables@{}", short_loc(&p.location)), p.message.clone(), json!({"kind": "tables"}));
            return;
        }
    };
    if fwd.len() != 1024 || inv.len() != 1024 || ninv.len() != 11 {
        rep.violation("tables:wrong-size", format!("{} {} {}", fwd.len(), inv.len(), ninv.len()), json!({"kind": "tables"}));
        return;
    }
    // psi = the entry at index 512 (bit reversal of 1)
    let psi = fwd[512] as i64;
    rep.evaluations += 1;
    if spec::powm(psi, 1024) != Q - 1 {
        rep.violation("tables:psi-not-primitive-2048th-root", format!("table[512] = {} and {}^1024 != -1", psi, psi), json!({"kind": "tables", "index": 512}));
        return;
    }
    let psi_inv = spec::powm(psi, Q - 2);
    for i in 0..1024usize {
        rep.evaluations += 2;
        let e = bitrev(i, 10) as i64;
        let want = spec::powm(psi, e);
        if fwd[i] as i64 != want {
            rep.violation("tables:forward-entry-wrong", format!("forward table[{}] = {} but psi^bitrev({}) = {}", i, fwd[i], i, want), json!({"kind": "tables", "index": i}));
        }
        let wanti = spec::powm(psi_inv, e);
        if inv[i] as i64 != wanti {
            rep.violation("tables:inverse-entry-wrong", format!("inverse table[{}] = {} but psi^-bitrev({}) = {}", i, inv[i], i, wanti), json!({"kind": "tables", "index": i}));
        }
        rep.nontrivial(format!("entry|{}", i).as_bytes());
    }
    for (k, &v) in ninv.iter().enumerate() {
        rep.evaluations += 1;
        let n = 1i64 << k;
        if (v as i64 * n) % Q != 1 || !(0..Q).contains(&(v as i64)) {
            rep.violation("tables:ninv-wrong", format!("stored inverse of n = {} is {}", n, v), json!({"kind": "tables", "ninv": k}));
        }
        rep.nontrivial(format!("ninv|{}", k).as_bytes());
    }
    rep.count("table_entries_checked", 2048 + 11);
    rep.sample(json!({"psi": psi, "psi_inverse": psi_inv, "forward_table_1": fwd[1], "check": "all 2 x 1024 entries and 11 n^-1 constants"}));
}

fn check_pair(a: &[i64], b: &[i64], what: &str, rep: &mut Report) {
    rep.evaluations += 1;
    let n = a.len();
    let ai: Vec<i16> = a.iter().map(|&x| x as i16).collect();
    let bi: Vec<i16> = b.iter().map(|&x| x as i16).collect();
    let replay = || json!({"kind": "pair", "a": a, "b": b});
    let (a2, b2) = (ai.clone(), bi.clone());
    let r = monitored(move || (vh::intt(&vh::ntt(&a2)), vh::ntt_mul(&a2, &b2), vh::ntt(&a2)));
    match r {
        Err(p) => rep.violation(&format!("panic:ntt@{}", short_loc(&p.location)), format!("n={} ({}): {}", n, what, p.message), replay()),
        Ok((rt, prod, hat)) => {
            if rt != ai {
                rep.violation("ntt:roundtrip", format!("intt(ntt(a)) != a for n={} ({})", n, what), replay());
            }
            let want = spec::negamul_mod(a, b);
            if prod.iter().map(|&x| x as i64).collect::<Vec<_>>() != want {
                let first = prod.iter().zip(want.iter()).position(|(x, y)| *x as i64 != *y).unwrap_or(0);
                rep.violation("ntt:product", format!("intt(ntt(a).ntt(b)) != a*b mod (x^n+1, q) for n={} ({}), first difference at coefficient {}", n, what, first), replay());
            }
            if hat.iter().any(|&x| !(0..Q).contains(&(x as i64))) {
                rep.violation("ntt:non-canonical-output", format!("ntt output outside [0,q) for n={}", n), replay());
            }
        }
    }
}

/// Operands whose TRANSFORM has a single non-zero slot (b = c * intt(e_i): a dense geometric
/// sequence in the coefficient domain), and transforms with a few non-zero slots: pointwise
/// products then meet vectors that look like "constants" or "low-degree polynomials" to code
/// that inspects a transform-domain vector with coefficient-domain notions (degree, is_zero).
fn one_slot_operands(ctx: &Ctx, rep: &mut Report) {
    use rand::Rng;
    let sizes: Vec<usize> = (1..=10).map(|k| 1usize << k).collect();
    let r = par_for(sizes.len(), ncpu(), |si, rep| {
        let n = sizes[si];
        let mut rng = rng_for(ctx.seed, &format!("c11-oneslot-{}", n));
        let mut slots: Vec<usize> = vec![0, 1, n / 2, n - 1];
        for _ in 0..ctx.sz(4, 60) {
            slots.push(rng.gen_range(0..n));
        }
        for &i in &slots {
            for c in [1i64, 2, Q - 1, rng.gen_range(1..Q)] {
                let mut e = vec![0i16; n];
                e[i] = c as i16;
                // a second variant with two non-zero slots
                let mut e2 = e.clone();
                e2[(i + 1) % n] = rng.gen_range(1..Q) as i16;
                for t in [e, e2] {
                    let b: Vec<i64> = match monitored(move || vh::intt(&t)) {
                        Ok(v) => v.iter().map(|&x| x as i64).collect(),
                        Err(_) => continue,
                    };
                    let a: Vec<i64> = (0..n).map(|_| rng.gen_range(0..Q)).collect();
                    check_pair(&a, &b, "second operand with a one- or two-slot transform", rep);
                    check_pair(&b, &a, "first operand with a one- or two-slot transform", rep);
                    rep.count("operands_with_few_slot_transforms", 1);
                }
            }
        }
    });
    rep.merge(r);
}

pub fn products(ctx: &Ctx, rep: &mut Report) {
    one_slot_operands(ctx, rep);
    rep.require("operands_with_few_slot_transforms", 200);
    let nrand = ctx.sz(2500, 250_000);
    let r = par_for(11, ncpu(), |k, rep| {
        let n = 1usize << k;
        let mut rng = rng_for(ctx.seed, &format!("c11-{}", n));
        let rb: Vec<i64> = (0..n).map(|_| rng.gen_range(0..Q)).collect();
        // all n unit impulses against a random polynomial and against each other (sampled)
        for i in 0..n {
            let mut e = vec![0i64; n];
            e[i] = 1;
            check_pair(&e, &rb, "impulse x random", rep);
            let mut e2 = vec![0i64; n];
            e2[rng.gen_range(0..n)] = Q - 1;
            check_pair(&e, &e2, "impulse x -impulse", rep);
            rep.nontrivial(format!("imp|{}|{}", n, i).as_bytes());
        }
        let allq = vec![Q - 1; n];
        check_pair(&allq, &allq, "all q-1", rep);
        let alt: Vec<i64> = (0..n).map(|i| if i % 2 == 0 { 1 } else { Q - 1 }).collect();
        check_pair(&alt, &allq, "alternating", rep);
        check_pair(&vec![0i64; n], &rb, "zero", rep);
        for it in 0..nrand {
            let a: Vec<i64> = (0..n).map(|_| rng.gen_range(0..Q)).collect();
            let b: Vec<i64> = (0..n).map(|_| if it % 3 == 0 { rng.gen_range(0..Q) } else { rng.gen_range(Q - 200..Q) }).collect();
            check_pair(&a, &b, "random", rep);
        }
        rep.nontrivial(format!("n|{}", n).as_bytes());
        rep.count("sizes", 1);
        if n == 8 {
            rep.sample(json!({"n": n, "a": rb, "ntt(a)": vh::ntt(&rb.iter().map(|&x| x as i16).collect::<Vec<_>>())}));
        }
    });
    rep.merge(r);
    rep.require("sizes", 11);
}

/// The inverse transform applied directly to structured TRANSFORM-DOMAIN vectors (the products
/// leg only ever feeds it outputs of the forward transform, which look random): blocks of
/// values near q-1 next to blocks near 0 at every alignment, saw-tooth and extreme vectors.
/// Oracle: linearity against the crate's own impulse responses (each validated by
/// ntt(intt(e_i)) == e_i), and the round trip ntt(intt(v)) == v.
pub fn inverse_structured(ctx: &Ctx, rep: &mut Report) {
    let sizes: Vec<usize> = (1..=10).map(|k| 1usize << k).collect();
    let reps = ctx.sz(1, 6);
    let r = par_for(sizes.len(), ncpu(), |si, rep| {
        let n = sizes[si];
        let mut rng = rng_for(ctx.seed, &format!("c11-inv-{}", n));
        // impulse responses of the inverse transform
        let mut basis: Vec<Vec<i64>> = Vec::with_capacity(n);
        for i in 0..n {
            let mut e = vec![0i16; n];
            e[i] = 1;
            let e2 = e.clone();
            match monitored(move || (vh::intt(&e2), vh::ntt(&vh::intt(&e2)))) {
                Ok((col, back)) => {
                    if back != e {
                        rep.violation("ntt:inverse-impulse-roundtrip", format!("ntt(intt(e_{})) != e_{} for n={}", i, i, n), json!({"kind": "inv", "v": e}));
                    }
                    basis.push(col.iter().map(|&x| x as i64).collect());
                }
                Err(p) => {
                    rep.violation(&format!("panic:intt@{}", short_loc(&p.location)), format!("n={}: {}", n, p.message), json!({"kind": "inv", "v": e}));
                    return;
                }
            }
        }
        let mut vectors: Vec<(String, Vec<i64>)> = vec![];
        vectors.push(("all q-1".into(), vec![Q - 1; n]));
        vectors.push(("saw 0/q-1".into(), (0..n).map(|i| if i % 2 == 0 { 0 } else { Q - 1 }).collect()));
        for blk in [2usize, 4, 8, 16, 32, 64, 128] {
            if 2 * blk > n {
                continue;
            }
            // blocks of `blk` high values followed by `blk` low values, at every block-aligned
            // offset, high = q-1-small, low = small
            for off in (0..n).step_by(2 * blk).take(if n > 256 { 40 } else { 64 }) {
                for _ in 0..reps {
                    let mut v: Vec<i64> = (0..n).map(|_| rng.gen_range(0..Q)).collect();
                    for i in 0..blk {
                        v[off + i] = Q - 1 - rng.gen_range(0..3);
                        if off + blk + i < n {
                            v[off + blk + i] = rng.gen_range(0..3);
                        }
                    }
                    vectors.push((format!("block{}@{}", blk, off), v.clone()));
                    // and the mirrored pattern (low first)
                    let m: Vec<i64> = v.iter().map(|&x| (Q - 1 - x).rem_euclid(Q)).collect();
                    vectors.push((format!("block{}@{}-mirrored", blk, off), m));
                }
            }
            // the whole vector made of such blocks
            vectors.push((format!("periodic-block{}", blk), (0..n).map(|i| if (i / blk) % 2 == 0 { Q - 1 } else { 0 }).collect()));
            vectors.push((format!("periodic-block{}-inv", blk), (0..n).map(|i| if (i / blk) % 2 == 0 { 0 } else { Q - 1 }).collect()));
        }
        for (name, v) in vectors {
            rep.evaluations += 1;
            let vi: Vec<i16> = v.iter().map(|&x| x as i16).collect();
            let v2 = vi.clone();
            match monitored(move || (vh::intt(&v2), vh::ntt(&vh::intt(&v2)))) {
                Err(p) => rep.violation(&format!("panic:intt@{}", short_loc(&p.location)), format!("n={} ({}): {}", n, name, p.message), json!({"kind": "inv", "v": vi})),
                Ok((got, back)) => {
                    // linear combination of the impulse responses
                    let mut want = vec![0i64; n];
                    for (i, &c) in v.iter().enumerate() {
                        if c != 0 {
                            for j in 0..n {
                                want[j] += c * basis[i][j];
                            }
                        }
                    }
                    let want: Vec<i64> = want.iter().map(|&x| x.rem_euclid(Q)).collect();
                    if got.iter().map(|&x| x as i64).collect::<Vec<_>>() != want {
                        rep.violation("ntt:inverse-not-linear", format!("intt(v) differs from the linear combination of its impulse responses for n={} ({})", n, name), json!({"kind": "inv", "v": vi}));
                    } else if back != vi {
                        rep.violation("ntt:inverse-roundtrip", format!("ntt(intt(v)) != v for n={} ({})", n, name), json!({"kind": "inv", "v": vi}));
                    }
                    rep.nontrivial(format!("inv|{}|{}", n, name).as_bytes());
                }
            }
        }
        // forward transform on sparse inputs (monomials c x^k and two-term polynomials): the
        // butterflies then meet (0, x) and (x, 0) pairs with x running over many residues;
        // oracle: linearity against the forward impulse responses
        let mut fbasis: Vec<Vec<i64>> = Vec::with_capacity(n);
        for i in 0..n {
            let mut e = vec![0i16; n];
            e[i] = 1;
            match monitored(move || vh::ntt(&e)) {
                Ok(col) => fbasis.push(col.iter().map(|&x| x as i64).collect()),
                Err(p) => {
                    rep.violation(&format!("panic:ntt@{}", short_loc(&p.location)), format!("n={}: impulse {}: {}", n, i, p.message), json!({"kind": "fwd", "n": n, "terms": [[i, 1]]}));
                    return;
                }
            }
        }
        for it in 0..ctx.sz(4000, 120_000) {
            rep.evaluations += 1;
            let nterms = if it % 4 == 3 { 2 } else { 1 };
            let terms: Vec<(usize, i64)> = (0..nterms).map(|_| (rng.gen_range(0..n), if it % 16 == 0 { [1, 2, 3, Q - 1, Q - 2, (Q - 1) / 2, (Q + 1) / 2][rng.gen_range(0..7)] } else { rng.gen_range(1..Q) })).collect();
            let mut v = vec![0i16; n];
            for &(k, c) in &terms {
                v[k] = c as i16;
            }
            let v2 = v.clone();
            let rj = || json!({"kind": "fwd", "n": n, "terms": terms.iter().map(|&(k, c)| vec![k as i64, c]).collect::<Vec<_>>()});
            match monitored(move || vh::ntt(&v2)) {
                Err(p) => rep.violation(&format!("panic:ntt@{}", short_loc(&p.location)), format!("n={} sparse {:?}: {}", n, terms, p.message), rj()),
                Ok(got) => {
                    let mut want = vec![0i64; n];
                    for (i, &c) in v.iter().enumerate() {
                        if c != 0 {
                            for j in 0..n {
                                want[j] += c as i64 * fbasis[i][j];
                            }
                        }
                    }
                    if got.iter().zip(want.iter()).any(|(&g, &w)| g as i64 != w.rem_euclid(Q)) {
                        rep.violation("ntt:forward-not-linear", format!("ntt of the sparse polynomial {:?} (position, coefficient) differs from the combination of its impulse responses, n={}", terms, n), rj());
                    }
                }
            }
            rep.count("sparse_forward_transforms", 1);
        }
        rep.count("inverse_sizes", 1);
    });
    rep.merge(r);
    // TOWER BINOMIALS: x^n + 1 splits level by level into x^t - r (r^(n/t) = -1). The polynomial
    // x^e (x^t - r) vanishes on the whole sub-block of the spectrum that belongs to x^t = r and
    // reduces to the single term 2r x^e on the sibling block x^t = -r: inside the inverse
    // transform, at the stage that joins the two blocks, one block is zero and the other holds
    // one non-zero entry (the last one for e = t-1, the first for e = 0). Shortcuts of a stage for
    // "empty" or "constant" groups meet exactly these inputs; neither sparse spectra nor sparse
    // polynomials produce them.
    let sizes2: Vec<usize> = (2..=10).map(|k| 1usize << k).collect();
    let r = par_for(sizes2.len(), ncpu(), |si, rep| {
        let n = sizes2[si];
        let psi = spec::find_psi(n);
        let mut rng = rng_for(ctx.seed, &format!("c11-tower-{}", n));
        let mut t = 1usize;
        while t < n {
            // all roots of level t: psi^(t k), k odd (at most 16 per level at large sizes)
            let nroots = n / t;
            let step = (nroots / 16).max(1);
            for ri in (0..nroots).step_by(step) {
                let k = (2 * ri + 1) as i64;
                let r_ = spec::powm(psi, (t as i64) * k);
                for e in [t - 1, 0, t / 2, rng.gen_range(0..t)] {
                    let c = [1i64, Q - 1, rng.gen_range(1..Q)][rng.gen_range(0..3)];
                    // p = c x^e (x^t - r)
                    let mut p_ = vec![0i64; n];
                    p_[e] = spec::modq(-c * r_);
                    p_[e + t] = spec::modq(p_[e + t] + c);
                    let mut other = vec![0i64; n];
                    for x in other.iter_mut().take(1 + rng.gen_range(0..n)) {
                        *x = rng.gen_range(0..Q);
                    }
                    check_pair(&p_, &other, &format!("tower binomial c x^{} (x^{} - r)", e, t), rep);
                    // the same plus a dense polynomial that vanishes nowhere in particular times the
                    // sibling factor (x^t + r): the rest of the spectrum is arbitrary
                    let dense: Vec<i64> = (0..n).map(|_| rng.gen_range(0..Q)).collect();
                    let mut sib = vec![0i64; n];
                    sib[0] = r_;
                    sib[t % n] = spec::modq(sib[t % n] + 1);
                    let mut both = vec![0i64; n];
                    both[0] = spec::modq(-r_);
                    both[t % n] = spec::modq(both[t % n] + 1);
                    // (x^t - r)(x^t + r) * dense vanishes on both blocks; adding p leaves block r
                    // zero and block -r equal to 2 r c x^e
                    let fill = spec::negamul_mod(&spec::negamul_mod(&sib, &both), &dense);
                    let q2: Vec<i64> = (0..n).map(|i| spec::modq(p_[i] + fill[i])).collect();
                    check_pair(&q2, &other, &format!("tower binomial c x^{} (x^{} - r) + (x^{} - r^2) * dense", e, t, 2 * t), rep);
                    rep.count("tower_binomial_inputs", 2);
                }
            }
            t *= 2;
        }
    });
    rep.merge(r);
    rep.require("tower_binomial_inputs", 1000);
    rep.require("inverse_sizes", 10);
    rep.require("sparse_forward_transforms", 10_000);
    rep.sample(json!({"what": "intt on block-structured transform-domain vectors", "block_sizes": [2, 4, 8, 16, 32, 64, 128], "oracle": "linearity against impulse responses + round trip"}));
}

/// One thread walks through all sizes with the SAME low-degree coefficients embedded in
/// different lengths (constants, the zero polynomial, short polynomials): any state kept between
/// transforms (a cache, a scratch buffer) that confuses X^n+1 with X^m+1 shows up here.
pub fn cross_size(ctx: &Ctx, rep: &mut Report) {
    let mut rng = rng_for(ctx.seed, "c11-cross");
    let rounds = ctx.sz(6, 200);
    let sizes: Vec<usize> = (0..=10).map(|k| 1usize << k).collect();
    for round in 0..rounds {
        let deg = rng.gen_range(0..4usize);
        let head: Vec<i64> = (0..=deg).map(|_| rng.gen_range(0..Q)).collect();
        let head2: Vec<i64> = (0..=rng.gen_range(0..3usize)).map(|_| rng.gen_range(0..Q)).collect();
        // ascending, descending and shuffled walks
        let mut order = sizes.clone();
        match round % 3 {
            1 => order.reverse(),
            2 => {
                for k in (1..order.len()).rev() {
                    let j = rng.gen_range(0..=k);
                    order.swap(k, j);
                }
            }
            _ => {}
        }
        for &n in &order {
            let embed = |h: &Vec<i64>| {
                let mut v = vec![0i64; n];
                for (i, x) in h.iter().enumerate() {
                    if i < n {
                        v[i] = *x;
                    }
                }
                v
            };
            let a = embed(&head);
            let b = embed(&head2);
            let mut one = vec![0i64; n];
            one[0] = 1;
            check_pair(&a, &one, "embedded head x 1", rep);
            check_pair(&a, &b, "embedded head x embedded head", rep);
            check_pair(&vec![0i64; n], &a, "zero x embedded head", rep);
            check_pair(&one, &one, "1 x 1", rep);
            rep.nontrivial(format!("cross|{}|{}", round, n).as_bytes());
        }
        rep.count("cross_size_walks", 1);
    }
    // call histories in FRESH threads (per-thread tables start empty): random sequences of
    // (operation, size); patterns put the inverse first, or the product first at a large size
    let nh = ctx.sz(200, 4000);
    let r = par_for(nh, ncpu(), |hi, rep| {
        let vseed = ctx.seed;
        let out = std::thread::scope(|s| {
            s.spawn(move || {
                let mut rep = Report::new();
                let mut rng = rng_for(vseed, &format!("c11-hist-{}", hi));
                let len = match hi % 4 {
                    0 => 2,
                    1 => 4,
                    _ => 10,
                };
                for st in 0..len {
                    let n = 1usize << rng.gen_range(0..=10);
                    let a: Vec<i64> = (0..n).map(|_| rng.gen_range(0..Q)).collect();
                    let b: Vec<i64> = (0..n).map(|_| rng.gen_range(0..Q)).collect();
                    if (hi + st) % 3 == 0 {
                        // inverse before any forward transform at this size
                        let v: Vec<i16> = a.iter().map(|&x| x as i16).collect();
                        let v2 = v.clone();
                        rep.evaluations += 1;
                        match monitored(move || vh::ntt(&vh::intt(&v2))) {
                            Ok(back) if back == v => {}
                            Ok(_) => rep.violation("ntt:inverse-roundtrip", format!("ntt(intt(v)) != v for n={} inside a call history (history {} step {})", n, hi, st), json!({"kind": "inv", "v": v})),
                            Err(p) => rep.violation(&format!("panic:intt@{}", short_loc(&p.location)), format!("n={}: {}", n, p.message), json!({"kind": "inv", "v": v})),
                        }
                    }
                    check_pair(&a, &b, "call history", &mut rep);
                }
                // a REJECTED call, then valid ones: a transform of an unsupported length panics
                // (outside the property's domain; its outcome is ignored), and the next valid
                // operations on this thread must be unaffected
                if hi % 2 == 0 {
                    let bad = [3usize, 5, 6, 7, 12, 100, 1025, 1536, 2047, 2048, 4096][(hi / 2) % 11];
                    let junk: Vec<i16> = (0..bad).map(|i| (i % 7) as i16).collect();
                    let j2 = junk.clone();
                    let _ = monitored(move || vh::intt(&j2));
                    if hi % 4 == 0 {
                        let _ = monitored(move || vh::ntt(&junk));
                    }
                    let below = if bad.is_power_of_two() { 1024.min(bad) } else { 1usize << (usize::BITS - 1 - bad.leading_zeros()) }.min(1024);
                    for n in [below, (below * 2).min(1024), (below / 2).max(1)] {
                        let a: Vec<i64> = (0..n).map(|_| rng.gen_range(0..Q)).collect();
                        let b: Vec<i64> = (0..n).map(|_| rng.gen_range(0..Q)).collect();
                        check_pair(&a, &b, "after a rejected transform length", &mut rep);
                    }
                    rep.count("valid_operations_after_a_rejected_length", 3);
                }
                rep.count("call_histories", 1);
                rep.nontrivial(format!("hist|{}", hi).as_bytes());
                rep
            })
            .join()
        });
        match out {
            Ok(r) => rep.merge(r),
            Err(_) => rep.inconclusive("a history thread died".into()),
        }
    });
    rep.merge(r);
    rep.require("call_histories", 50);
    rep.require("valid_operations_after_a_rejected_length", 30);
    // the same operations while a thread is being torn down (see C13)
    let r = par_for(ctx.sz(64, 800), ncpu(), |ti, rep| {
        let mut rng = rng_for(ctx.seed, &format!("c11-teardown-{}", ti));
        let n = 1usize << rng.gen_range(0..=10);
        let a: Vec<i64> = (0..n).map(|_| rng.gen_range(0..Q)).collect();
        let b: Vec<i64> = (0..n).map(|_| rng.gen_range(0..Q)).collect();
        let warm = ti % 3 != 2;
        let res = crate::util::run_at_thread_exit(
            move || {
                if warm {
                    let w: Vec<i16> = (0..n).map(|i| (i % 100) as i16).collect();
                    let _ = vh::intt(&vh::ntt(&w));
                }
            },
            move || {
                let mut rep = Report::new();
                check_pair(&a, &b, "thread exit", &mut rep);
                rep.violations.first().map(|v| format!("{}: {}", v.signature, v.detail))
            },
        );
        rep.evaluations += 1;
        match res {
            Ok(None) => rep.count("operations_during_thread_exit", 1),
            Ok(Some(what)) => rep.violation("ntt:wrong-during-thread-exit", format!("n={}: {}", n, what), json!({"kind": "teardown", "n": n, "ti": ti})),
            Err(e) if e.contains("did not run") => rep.inconclusive(e),
            Err(e) => rep.violation("panic:ntt-during-thread-exit", format!("n={}: {}", n, e), json!({"kind": "teardown", "n": n, "ti": ti})),
        }
    });
    rep.merge(r);
    rep.require("operations_during_thread_exit", 30);
    rep.sample(json!({"walks": rounds, "sizes": sizes, "inputs": "the same low-degree coefficients embedded in every length, in one thread"}));
    rep.require("cross_size_walks", 3);
}

pub fn replay(r: &Value) -> bool {
    let mut rep = Report::new();
    match r["kind"].as_str().unwrap_or("") {
        "fwd" => {
            let n = r["n"].as_u64().unwrap_or(2) as usize;
            let mut v = vec![0i16; n];
            for t in r["terms"].as_array().unwrap() {
                v[t[0].as_u64().unwrap() as usize] = t[1].as_i64().unwrap() as i16;
            }
            let got = vh::ntt(&v);
            let mut want = vec![0i64; n];
            for (i, &c) in v.iter().enumerate() {
                if c != 0 {
                    let mut e = vec![0i16; n];
                    e[i] = 1;
                    for (j, x) in vh::ntt(&e).iter().enumerate() {
                        want[j] += c as i64 * *x as i64;
                    }
                }
            }
            rep.evaluations += 1;
            if got.iter().zip(want.iter()).any(|(&g, &w)| g as i64 != w.rem_euclid(Q)) {
                rep.violation("ntt:forward-not-linear", "replayed".into(), r.clone());
            }
        }
        "inv" => {
            let v: Vec<i16> = r["v"].as_array().unwrap().iter().map(|x| x.as_i64().unwrap() as i16).collect();
            let v2 = v.clone();
            let out = monitored(move || vh::ntt(&vh::intt(&v2)));
            println!("ntt(intt(v)) == v: {:?}", out.as_ref().map(|b| *b == v).map_err(|p| p.message.clone()));
            return matches!(out, Ok(b) if b == v);
        }
        "pair" => {
            let a: Vec<i64> = r["a"].as_array().unwrap().iter().map(|x| x.as_i64().unwrap()).collect();
            let b: Vec<i64> = r["b"].as_array().unwrap().iter().map(|x| x.as_i64().unwrap()).collect();
            check_pair(&a, &b, "replay", &mut rep);
        }
        _ => tables(&Ctx { tier: "quick".into(), seed: 1, profile: "release".into(), args: vec![] }, &mut rep),
    }
    crate::util::print_replay(&rep)
}
