//! C06: decoding is strict and canonical. Every accepted byte string must re-encode to
//! itself; the listed malformed classes must be rejected.

use serde_json::{json, Value};

use super::bytesgen::{header_of, len_of, mutations, synth_pk, synth_sig, synth_sk, Ty};
use crate::fv::{Fv, F1024, F512};
use crate::pool;
use crate::refs::spec;
use crate::util::{hex, monitored, ncpu, par_for, rng_for, short_loc, unhex, Ctx, Report};

/// Reference judgement of the *format*: is `b` a well-formed encoding of type `ty`?
/// (Signature bodies are not judged here: their strictness is enforced by verify, C02/C07.)
fn format_ok<V: Fv>(ty: Ty, b: &[u8]) -> bool {
    if b.len() != len_of::<V>(ty) || b[0] != header_of::<V>(ty) {
        return false;
    }
    match ty {
        Ty::Pk => spec::pk_fields(&b[1..]).iter().all(|&x| x < spec::Q),
        Ty::Sk => spec::sk_decode(b, V::N).is_some(),
        Ty::Sig => true,
    }
}

fn must_reject_class<V: Fv>(ty: Ty, b: &[u8]) -> Option<&'static str> {
    if b.len() != len_of::<V>(ty) {
        return Some("wrong-length");
    }
    if b[0] != header_of::<V>(ty) {
        return Some("wrong-header");
    }
    match ty {
        Ty::Pk => {
            if spec::pk_fields(&b[1..]).iter().any(|&x| x >= spec::Q) {
                return Some("pk-field-ge-q");
            }
        }
        Ty::Sk => {
            if spec::sk_decode(b, V::N).is_none() {
                return Some("sk-reserved-pattern");
            }
        }
        Ty::Sig => {}
    }
    None
}

pub fn check_one<V: Fv>(ty: Ty, class: &str, b: &[u8], rep: &mut Report) {
    rep.evaluations += 1;
    let replay = || json!({"variant": V::NAME, "ty": ty.name(), "class": class, "bytes": hex(b)});
    let r = monitored(|| -> Option<Vec<u8>> {
        match ty {
            Ty::Pk => V::pk_from_bytes(b).ok().map(|x| V::pk_to_bytes(&x)),
            Ty::Sk => V::sk_from_bytes(b).ok().map(|x| V::sk_to_bytes(&x)),
            Ty::Sig => V::sig_from_bytes(b).ok().map(|x| V::sig_to_bytes(&x)),
        }
    });
    match r {
        Err(p) => rep.violation(&format!("panic:{}@{}", ty.name(), short_loc(&p.location)), format!("{} {} decode/re-encode panicked on {}: {}", V::NAME, ty.name(), class, p.message), replay()),
        Ok(Some(re)) => {
            rep.count(&format!("{}_accepted", ty.name()), 1);
            if re != b {
                let first = re.iter().zip(b.iter()).position(|(a, c)| a != c).unwrap_or(re.len().min(b.len()));
                rep.violation(
                    &format!("{}:accepted-but-not-canonical", ty.name()),
                    format!("{} {}::from_bytes accepted a string (class {}) that re-encodes differently (first difference at byte {}, lengths {} / {})", V::NAME, ty.name(), class, first, b.len(), re.len()),
                    replay(),
                );
            }
            if let Some(cls) = must_reject_class::<V>(ty, b) {
                rep.violation(
                    &format!("{}:accepts-{}", ty.name(), cls),
                    format!("{} {}::from_bytes accepted a string of the must-reject class {} (generator class {})", V::NAME, ty.name(), cls, class),
                    replay(),
                );
            }
            rep.nontrivial(format!("acc|{}|{}|{}", V::NAME, ty.name(), crate::util::hash64(b)).as_bytes());
        }
        Ok(None) => {
            rep.count(&format!("{}_rejected", ty.name()), 1);
            if let Some(cls) = must_reject_class::<V>(ty, b) {
                rep.count(&format!("rejected_{}", cls), 1);
                rep.nontrivial(format!("rej|{}|{}|{}|{}", V::NAME, ty.name(), cls, class).as_bytes());
            } else if format_ok::<V>(ty, b) {
                // well-formed by format but refused: allowed by the property (e.g. a key the
                // implementation cannot use); recorded as evidence only
                rep.count("wellformed_but_refused", 1);
            }
        }
    }
}

fn run_v<V: Fv>(ctx: &Ctx, rep: &mut Report) {
    let (keys, _bad) = pool::keys::<V>(ctx.seed, "c06", ctx.sz(2, 40));
    if let Some(k0) = keys.first() {
        if !crate::signer::canary::<V>(&k0.sk) {
            rep.inconclusive("sign does not terminate or panics on a fresh key (reported by C01); this leg needs working signatures".into());
            return;
        }
    }
    let mut valids: Vec<(Ty, Vec<u8>)> = vec![];
    for k in &keys {
        valids.push((Ty::Pk, V::pk_to_bytes(&k.pk)));
        valids.push((Ty::Sk, V::sk_to_bytes(&k.sk)));
        if let Ok(sig) = monitored(|| V::sign(b"c06", &k.sk)) {
            valids.push((Ty::Sig, V::sig_to_bytes(&sig)));
        }
    }
    // SEMANTIC extensions of valid encodings: the secret key followed by an 8-bit section holding
    // its own G (an "expanded key" some tools export), by F again, by its public key; the public
    // key and the signature followed by their own bodies: all have the wrong length
    for k in &keys {
        let b0 = V::basis(&k.sk);
        let skb = V::sk_to_bytes(&k.sk);
        let pkb = V::pk_to_bytes(&k.pk);
        let sect = |p: &Vec<i16>, neg: bool| -> Vec<u8> { p.iter().map(|&x| (if neg { -x } else { x }) as i8 as u8).collect() };
        for (name, tail) in [("G-section", sect(&b0[2], false)), ("F-section", sect(&b0[3], true)), ("minus-G-section", sect(&b0[2], true)), ("public-key", pkb[1..].to_vec()), ("whole-key-again", skb[1..].to_vec())] {
            let mut e = skb.clone();
            e.extend_from_slice(&tail);
            check_one::<V>(Ty::Sk, &format!("sk-extended-by-{}", name), &e, rep);
            check_one::<V>(Ty::Sk, &format!("sk-extended-by-{}-retried", name), &e, rep);
            rep.count("semantic_extensions", 1);
        }
        let mut e = pkb.clone();
        e.extend_from_slice(&pkb[1..]);
        check_one::<V>(Ty::Pk, "pk-extended-by-itself", &e, rep);
        rep.count("semantic_extensions", 1);
    }
    // other valid completions of the same (f,g): F' = F + c x^j f (G' = G + c x^j g), in range:
    // well-formed and different strings that a decoder must not map onto one object
    for k in &keys {
        let b0 = V::basis(&k.sk);
        let g: Vec<i64> = b0[0].iter().map(|&x| x as i64).collect();
        let f: Vec<i64> = b0[1].iter().map(|&x| -(x as i64)).collect();
        let cg: Vec<i64> = b0[2].iter().map(|&x| x as i64).collect();
        let cf: Vec<i64> = b0[3].iter().map(|&x| -(x as i64)).collect();
        let mut made = 0;
        'v: for c in [1i64, -1, 2, -2] {
            for j in (0..V::N).step_by(7) {
                let (sf, sg) = (super::c05::shift(&f, j), super::c05::shift(&g, j));
                let f2: Vec<i64> = (0..V::N).map(|i| cf[i] + c * sf[i]).collect();
                let g2: Vec<i64> = (0..V::N).map(|i| cg[i] + c * sg[i]).collect();
                if f2.iter().chain(g2.iter()).any(|x| x.abs() > 127) {
                    continue;
                }
                check_one::<V>(Ty::Sk, "lattice-variant-of-a-valid-key", &spec::sk_encode(&f, &g, &f2), rep);
                rep.count("lattice_variant_keys", 1);
                made += 1;
                if made >= 12 {
                    break 'v;
                }
            }
        }
        // ... and completions whose F' is in range while the implied, NOT serialized G' leaves
        // the 8-bit range (a decoder that "normalises" or range-checks the recomputed G changes
        // or refuses these; whatever it does, an accepted string must re-encode to itself)
        let mut wide = 0;
        'w: for c in [3i64, -3, 4, -4, 5, -5, 2, -2, 6, -6] {
            for j in (0..V::N).step_by(5) {
                let (sf, sg) = (super::c05::shift(&f, j), super::c05::shift(&g, j));
                let f2: Vec<i64> = (0..V::N).map(|i| cf[i] + c * sf[i]).collect();
                let g2: Vec<i64> = (0..V::N).map(|i| cg[i] + c * sg[i]).collect();
                if f2.iter().any(|x| x.abs() > 127) || !g2.iter().any(|x| x.abs() > 127) {
                    continue;
                }
                check_one::<V>(Ty::Sk, "lattice-variant-with-G-outside-8-bits", &spec::sk_encode(&f, &g, &f2), rep);
                rep.count("lattice_variant_keys_with_wide_G", 1);
                wide += 1;
                if wide >= 12 {
                    break 'w;
                }
            }
        }
    }
    let synth = ctx.sz(9, 600);
    let flips = ctx.sz(30, 400);
    let r = par_for(valids.len() + synth, ncpu(), |job, rep| {
        let mut rng = rng_for(ctx.seed, &format!("c06-{}-{}", V::NAME, job));
        let (ty, valid) = if job < valids.len() {
            valids[job].clone()
        } else {
            match (job - valids.len()) % 3 {
                0 => (Ty::Pk, synth_pk::<V>(&mut rng)),
                1 => (Ty::Sk, synth_sk::<V>(&mut rng, ((job / 3) % 3) as u32)),
                _ => (Ty::Sig, synth_sig::<V>(&mut rng)),
            }
        };
        for (class, b) in mutations::<V>(&valid, ty, &mut rng, flips) {
            // decode as the intended type, and also as the two other types of this variant
            // and as the same type of the other variant
            check_one::<V>(ty, &class, &b, rep);
            // and the SAME string again at once: a decoder that remembers its last input (and
            // forgets to forget it when the decode fails) answers differently the second time
            check_one::<V>(ty, &format!("{}-retried", class), &b, rep);
            for t in [Ty::Pk, Ty::Sk, Ty::Sig] {
                if t != ty && (class == "valid" || class.starts_with("header") || class.starts_with("len")) {
                    check_one::<V>(t, &class, &b, rep);
                }
            }
        }
        if job < 3 {
            rep.sample(json!({"variant": V::NAME, "type": ty.name(), "valid_len": valid.len(), "head": hex(&valid[..6]), "mutations": "header sweep, truncation/extension, other lengths, bit flips, field edits, all-zero/one, random body"}));
        }
    });
    rep.merge(r);
}

/// The reserved field value (-2^(w-1)) inside an otherwise VALID NTRU basis: g' = g + c x^j f
/// (with G' = G + c x^j F) or f' = f + c x^j g (with F' = F + c x^j G) is again a short
/// solution of the NTRU equation; (c, j) are searched so that the minimum of the changed
/// polynomial is exactly the reserved value while everything else stays in range. Such a
/// string passes every consistency check a decoder may run on the decoded basis, so only the
/// field-level rule rejects it.
fn reserved_in_valid_basis<V: Fv>(ctx: &Ctx, nkeys: usize, rep: &mut Report) {
    let (keys, _bad) = pool::keys::<V>(ctx.seed, "c06-rsv", nkeys);
    let (w, wf) = spec::sk_widths(V::N);
    let rsv = -(1i64 << (w - 1));
    let lim = (1i64 << (w - 1)) - 1;
    let limf = (1i64 << (wf - 1)) - 1;
    let r = par_for(keys.len(), ncpu(), |ki, rep| {
        let k = &keys[ki];
        let b0 = V::basis(&k.sk);
        let g: Vec<i64> = b0[0].iter().map(|&x| x as i64).collect();
        let f: Vec<i64> = b0[1].iter().map(|&x| -(x as i64)).collect();
        let cg: Vec<i64> = b0[2].iter().map(|&x| x as i64).collect();
        let cf: Vec<i64> = b0[3].iter().map(|&x| -(x as i64)).collect();
        let mut quota = [0usize; 2];
        'search: for c in [1i64, -1, 2, -2, 3, -3] {
            for j in 0..V::N {
                for which in 0..2usize {
                    if quota[which] >= 3 {
                        continue;
                    }
                    // which = 0: change g (and G); which = 1: change f (and F)
                    let (small, other, big, obig) = if which == 0 { (&g, &f, &cg, &cf) } else { (&f, &g, &cf, &cg) };
                    let so = super::c05::shift(other, j);
                    let s2: Vec<i64> = (0..V::N).map(|i| small[i] + c * so[i]).collect();
                    if *s2.iter().min().unwrap() != rsv || *s2.iter().max().unwrap() > lim {
                        continue;
                    }
                    let sb = super::c05::shift(obig, j);
                    let b2: Vec<i64> = (0..V::N).map(|i| big[i] + c * sb[i]).collect();
                    if b2.iter().any(|x| x.abs() > limf.min(127)) {
                        continue;
                    }
                    let (f2, g2, cf2, cg2) = if which == 0 { (f.clone(), s2, cf.clone(), b2) } else { (s2, g.clone(), b2, cg.clone()) };
                    // harness-side sanity: still an NTRU completion
                    let fg = spec::negamul_z(&f2, &cg2);
                    let gf = spec::negamul_z(&g2, &cf2);
                    if !(0..V::N).all(|i| fg[i] - gf[i] == if i == 0 { spec::Q as i128 } else { 0 }) {
                        rep.inconclusive("reserved-in-valid-basis construction is not an NTRU completion (harness error)".into());
                        continue;
                    }
                    let bytes = spec::sk_encode(&f2, &g2, &cf2);
                    if spec::sk_decode(&bytes, V::N).is_some() {
                        rep.inconclusive("reserved-in-valid-basis construction does not contain the reserved pattern (harness error)".into());
                        continue;
                    }
                    check_one::<V>(Ty::Sk, if which == 0 { "reserved-in-valid-basis-g" } else { "reserved-in-valid-basis-f" }, &bytes, rep);
                    rep.count("reserved_in_valid_basis", 1);
                    rep.count(&format!("reserved_in_valid_basis_{}", V::NAME), 1);
                    rep.count(if which == 0 { "reserved_in_valid_basis_g" } else { "reserved_in_valid_basis_f" }, 1);
                    rep.nontrivial(format!("rsv|{}|{}|{}|{}|{}", V::NAME, hex(&k.seed[..6]), which, c, j).as_bytes());
                    quota[which] += 1;
                    if quota[0] >= 3 && quota[1] >= 3 {
                        break 'search;
                    }
                }
            }
        }
    });
    rep.merge(r);
}

/// Fingerprint-colliding pairs of VALID public-key and signature encodings (collide.rs), decoded
/// A, B, A on one thread: each must decode to itself (canonical re-encoding).
fn collision_sequences<V: Fv>(ctx: &Ctx, rep: &mut Report) {
    let n = ctx.sz(150_000, 1_000_000);
    for ty in [Ty::Pk, Ty::Sig] {
        let gen = |i: usize| -> Option<Vec<u8>> {
            let mut rng = rng_for(ctx.seed ^ 0xC011, &format!("c06-collide-{}-{}-{}", V::NAME, ty.name(), i));
            Some(if ty == Ty::Pk { synth_pk::<V>(&mut rng) } else { synth_sig::<V>(&mut rng) })
        };
        for (name, a, b) in crate::collide::pairs_streaming(n, gen, 2) {
            let (xa, xb) = (gen(a).unwrap(), gen(b).unwrap());
            let cls = format!("collide-{}", name);
            check_one::<V>(ty, &cls, &xa, rep);
            check_one::<V>(ty, &cls, &xb, rep);
            check_one::<V>(ty, &cls, &xa, rep);
            rep.count("fingerprint_colliding_pairs", 1);
            rep.count(&format!("collide_{}_{}", ty.name(), name), 1);
            rep.nontrivial(format!("collide|{}|{}|{}|{}|{}", V::NAME, ty.name(), name, a, b).as_bytes());
        }
    }
}

/// each variant's valid encodings offered to the other variant's decoders
fn cross_variant(ctx: &Ctx, rep: &mut Report) {
    let mut rng = rng_for(ctx.seed, "c06-cross");
    for _ in 0..ctx.sz(3, 30) {
        for (ty, b) in [(Ty::Pk, synth_pk::<F512>(&mut rng)), (Ty::Sk, synth_sk::<F512>(&mut rng, 2)), (Ty::Sig, synth_sig::<F512>(&mut rng))] {
            check_one::<F1024>(ty, "other-variant", &b, rep);
            rep.count("cross_variant", 1);
        }
        for (ty, b) in [(Ty::Pk, synth_pk::<F1024>(&mut rng)), (Ty::Sk, synth_sk::<F1024>(&mut rng, 2)), (Ty::Sig, synth_sig::<F1024>(&mut rng))] {
            check_one::<F512>(ty, "other-variant", &b, rep);
            rep.count("cross_variant", 1);
        }
    }
}

pub fn canonical(ctx: &Ctx, rep: &mut Report) {
    run_v::<F512>(ctx, rep);
    run_v::<F1024>(ctx, rep);
    cross_variant(ctx, rep);
    collision_sequences::<F512>(ctx, rep);
    collision_sequences::<F1024>(ctx, rep);
    rep.require("fingerprint_colliding_pairs", 20);
    rep.require("lattice_variant_keys", 10);
    rep.require("semantic_extensions", 10);
    reserved_in_valid_basis::<F512>(ctx, ctx.sz(12, 200), rep);
    reserved_in_valid_basis::<F1024>(ctx, ctx.sz(3, 16), rep);
    rep.require("reserved_in_valid_basis_g", 2);
    rep.require("reserved_in_valid_basis_f", 2);
    for k in ["pk_accepted", "sk_accepted", "sig_accepted", "rejected_wrong-length", "rejected_wrong-header", "rejected_pk-field-ge-q", "rejected_sk-reserved-pattern"] {
        rep.require(k, 10);
    }
}

pub fn replay(r: &Value) -> bool {
    fn go<V: Fv>(r: &Value) -> bool {
        let ty = match r["ty"].as_str().unwrap_or("") {
            "pk" => Ty::Pk,
            "sk" => Ty::Sk,
            _ => Ty::Sig,
        };
        let mut rep = Report::new();
        check_one::<V>(ty, "replay", &unhex(r["bytes"].as_str().unwrap()), &mut rep);
        println!("counters: {:?}", rep.counters);
        crate::util::print_replay(&rep)
    }
    match r["variant"].as_str().unwrap_or("") {
        "falcon512" => go::<F512>(r),
        _ => go::<F1024>(r),
    }
}
