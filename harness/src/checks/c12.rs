//! C12: arithmetic modulo q is exact and canonical. Exhaustive differential monitor.

use serde_json::{json, Value};

use crate::util::{monitored, ncpu, par_for, short_loc, Ctx, Report};
use falcon_rust::verif_hooks as vh;

const Q: i64 = 12289;

fn check_new(v: i16, rep: &mut Report) {
    rep.evaluations += 1;
    let want = (v as i64).rem_euclid(Q);
    match monitored(|| vh::felt_new(v)) {
        Err(p) => rep.violation(
            &format!("panic:felt_new@{}", short_loc(&p.location)),
            format!("Felt::new({}) panicked: {}", v, p.message),
            json!({"op": "new", "a": v}),
        ),
        Ok(got) => {
            if got as i64 != want {
                rep.violation(
                    "felt_new:wrong-or-noncanonical",
                    format!("Felt::new({}) = {} expected {}", v, got, want),
                    json!({"op": "new", "a": v}),
                );
            }
        }
    }
}

fn op2(op: &str, a: i16, b: i16) -> (i64, Result<i16, crate::util::PanicInfo>) {
    let (a6, b6) = (a as i64, b as i64);
    match op {
        "add" => ((a6 + b6).rem_euclid(Q), monitored(|| vh::felt_add(a, b))),
        "sub" => ((a6 - b6).rem_euclid(Q), monitored(|| vh::felt_sub(a, b))),
        "mul" => ((a6 * b6).rem_euclid(Q), monitored(|| vh::felt_mul(a, b))),
        "multiply" => ((a6 * b6).rem_euclid(Q), monitored(|| vh::felt_multiply(a, b))),
        "div" => ((a6 * crate::refs::spec::powm(b6, Q - 2)).rem_euclid(Q), monitored(|| vh::felt_div(a, b))),
        _ => unreachable!(),
    }
}

pub fn exhaustive(ctx: &Ctx, rep: &mut Report) {
    // conversions: all 65536 i16 values
    for v in i16::MIN..=i16::MAX {
        check_new(v, rep);
        rep.count("new_values", 1);
    }
    // unary ops on all residues
    for a in 0..Q as i16 {
        rep.evaluations += 3;
        match monitored(|| (vh::felt_neg(a), vh::felt_inv(a), vh::felt_balanced(a))) {
            Err(p) => rep.violation(
                &format!("panic:unary@{}", short_loc(&p.location)),
                format!("unary op on {} panicked: {}", a, p.message),
                json!({"op": "unary", "a": a}),
            ),
            Ok((neg, inv, bal)) => {
                if neg as i64 != (-(a as i64)).rem_euclid(Q) {
                    rep.violation("neg:wrong", format!("-{} = {}", a, neg), json!({"op": "unary", "a": a}));
                }
                let inv_ok = if a == 0 { inv == 0 } else { (0..Q).contains(&(inv as i64)) && (inv as i64 * a as i64) % Q == 1 };
                if !inv_ok {
                    rep.violation("inv:wrong", format!("inverse({}) = {}", a, inv), json!({"op": "unary", "a": a}));
                }
                let bal_ok = (-6144..=6144).contains(&(bal as i64)) && (bal as i64 - a as i64).rem_euclid(Q) == 0;
                if !bal_ok {
                    rep.violation("balanced:wrong", format!("balanced({}) = {}", a, bal), json!({"op": "unary", "a": a}));
                }
            }
        }
        rep.count("unary_residues", 1);
    }
    // reference inverses for the division check
    let inv_tab: Vec<i64> = (0..Q).map(|b| if b == 0 { 0 } else { crate::refs::spec::powm(b, Q - 2) }).collect();
    // binary ops: all q^2 pairs, rows shared out to the workers
    let r = par_for(Q as usize, ncpu(), |a, rep| {
        let a = a as i16;
        // the whole row under one panic monitor first (fast path); on a panic or mismatch,
        // re-run element by element to locate it
        let row = monitored(|| {
            let mut bad = 0u32;
            for b in 0..Q as i16 {
                let (a6, b6) = (a as i64, b as i64);
                bad += (vh::felt_add(a, b) as i64 != (a6 + b6) % Q) as u32;
                bad += (vh::felt_sub(a, b) as i64 != (a6 - b6).rem_euclid(Q)) as u32;
                bad += (vh::felt_mul(a, b) as i64 != (a6 * b6) % Q) as u32;
                bad += (vh::felt_multiply(a, b) as i64 != (a6 * b6) % Q) as u32;
                if b != 0 {
                    bad += (vh::felt_div(a, b) as i64 != (a6 * inv_tab[b as usize]) % Q) as u32;
                }
            }
            bad
        });
        rep.evaluations += 5 * Q as u64 - 1;
        rep.count("binary_pairs", Q as u64);
        if !matches!(row, Ok(0)) {
            for b in 0..Q as i16 {
                for op in ["add", "sub", "mul", "multiply", "div"] {
                    if op == "div" && b == 0 {
                        continue;
                    }
                    let (want, got) = op2(op, a, b);
                    match got {
                        Err(p) => rep.violation(
                            &format!("panic:{}@{}", op, short_loc(&p.location)),
                            format!("{}({},{}) panicked: {}", op, a, b, p.message),
                            json!({"op": op, "a": a, "b": b}),
                        ),
                        Ok(g) => {
                            if g as i64 != want {
                                rep.violation(&format!("{}:wrong", op), format!("{}({},{}) = {} expected {}", op, a, b, g, want), json!({"op": op, "a": a, "b": b}));
                            }
                        }
                    }
                }
            }
        }
        if a % 1024 == 0 {
            rep.sample(json!({"row_a": a, "ops": "add,sub,mul,multiply for all b in [0,q)", "mismatches": 0}));
        }
        rep.nontrivial(&a.to_le_bytes());
    });
    rep.merge(r);
    // division: a/b = a * b^-1 for sampled pairs, and division by zero is reported as such
    // batch inversion with zeros at every position
    use rand::Rng;
    let mut rng = crate::util::rng_for(ctx.seed, "c12-batch");
    let nb = ctx.sz(20_000, 20_000_000);
    let r = par_for(16, ncpu(), |w, rep| {
        let mut rng = crate::util::rng_for(ctx.seed, &format!("c12-batch-{}", w));
        for it in 0..nb / 16 {
            let len = match it % 5 {
                0 => rng.gen_range(0..4),
                1 => 512,
                _ => rng.gen_range(1..64),
            };
            let zero_at = if len > 0 { rng.gen_range(0..len) } else { 0 };
            let v: Vec<i16> = (0..len)
                .map(|i| {
                    if i == zero_at && it % 2 == 0 {
                        0
                    } else if rng.gen_bool(0.05) {
                        0
                    } else {
                        rng.gen_range(0..Q as i16)
                    }
                })
                .collect();
            rep.evaluations += 1;
            rep.count("batch_vectors", 1);
            let vv = v.clone();
            match monitored(move || vh::felt_batch_inv(&vv)) {
                Err(p) => rep.violation(&format!("panic:batch_inv@{}", short_loc(&p.location)), p.message.clone(), json!({"op": "batch", "v": v})),
                Ok(out) => {
                    let ok = out.len() == v.len()
                        && v.iter().zip(out.iter()).all(|(&a, &i)| if a == 0 { i == 0 } else { (0..Q).contains(&(i as i64)) && (a as i64 * i as i64) % Q == 1 });
                    if !ok {
                        rep.violation("batch_inv:wrong", format!("batch inverse wrong for len {}", v.len()), json!({"op": "batch", "v": v}));
                    }
                    if v.iter().any(|&a| a == 0) {
                        rep.count("batch_with_zero", 1);
                    }
                }
            }
        }
    });
    rep.merge(r);
    // a REJECTED operation, then valid ones, on one thread: division by zero panics (outside the
    // property's domain, outcome ignored); what follows must be unaffected
    {
        let mut rng2 = crate::util::rng_for(ctx.seed, "c12-after-error");
        for it in 0..ctx.sz(200, 5000) {
            let a = rng2.gen_range(0..Q as i16);
            let _ = monitored(move || vh::felt_div(a, 0));
            let (x, y) = (rng2.gen_range(0..Q as i16), rng2.gen_range(1..Q as i16));
            rep.evaluations += 1;
            match monitored(move || (vh::felt_div(x, y), vh::felt_inv(y), vh::felt_mul(x, y), vh::felt_batch_inv(&[y, x, 0, y]))) {
                Err(p) => rep.violation(&format!("panic:felt-after-error@{}", short_loc(&p.location)), p.message.clone(), json!({"op": "after-error", "a": a, "x": x, "y": y})),
                Ok((dv, iv, ml, bt)) => {
                    let ok = (dv as i64 * y as i64) % Q == x as i64 % Q && (iv as i64 * y as i64) % Q == 1 && ml as i64 == (x as i64 * y as i64) % Q && bt.len() == 4 && (bt[0] as i64 * y as i64) % Q == 1 && bt[2] == 0 && bt[3] == bt[0];
                    if !ok {
                        rep.violation("felt:wrong-after-a-rejected-operation", format!("after a division by zero (it {}): div({}, {}) = {}, inv = {}, mul = {}, batch = {:?}", it, x, y, dv, iv, ml, bt), json!({"op": "after-error", "a": a, "x": x, "y": y}));
                    }
                }
            }
            rep.count("valid_operations_after_a_division_by_zero", 1);
        }
    }
    // call SEQUENCES over a small pool of operands (b, c, b, ...): every single result checked
    {
        let mut rng3 = crate::util::rng_for(ctx.seed, "c12-sequences");
        for round in 0..ctx.sz(2000, 100_000) {
            let pool: Vec<i16> = (0..rng3.gen_range(2..5)).map(|_| rng3.gen_range(1..Q as i16)).collect();
            for _ in 0..12 {
                let (x, y) = (rng3.gen_range(0..Q as i16), pool[rng3.gen_range(0..pool.len())]);
                rep.evaluations += 1;
                match monitored(move || (vh::felt_div(x, y), vh::felt_inv(y), vh::felt_mul(x, y))) {
                    Err(p) => rep.violation(&format!("panic:felt-sequence@{}", short_loc(&p.location)), p.message.clone(), json!({"op": "sequence", "round": round})),
                    Ok((dv, iv, ml)) => {
                        if (dv as i64 * y as i64) % Q != x as i64 % Q || (iv as i64 * y as i64) % Q != 1 || ml as i64 != (x as i64 * y as i64) % Q {
                            rep.violation("felt:wrong-inside-a-call-sequence", format!("within a sequence over the divisors {:?}: div({}, {}) = {}, inv({}) = {}, mul = {}", pool, x, y, dv, y, iv, ml), json!({"op": "sequence", "round": round, "pool": pool}));
                        }
                    }
                }
            }
            rep.count("operand_pool_sequences", 1);
        }
    }
    // LONG batches: lengths around 2^8, 2^15, 2^16 and 2^17 (an index or a count kept in a
    // narrow integer wraps there), with and without zeros
    let longs: Vec<usize> = vec![255, 256, 257, 1024, 4096, 32767, 32768, 32769, 65535, 65536, 65537, 70000, 131071, 131072, 131073, 200_000];
    let r = par_for(longs.len() * 2, ncpu(), |job, rep| {
        let len = longs[job / 2];
        let mut rng = crate::util::rng_for(ctx.seed, &format!("c12-long-batch-{}", job));
        let v: Vec<i16> = (0..len).map(|_| if job % 2 == 1 && rng.gen_bool(0.01) { 0 } else { rng.gen_range(1..Q as i16) }).collect();
        rep.evaluations += 1;
        let vv = v.clone();
        match monitored(move || vh::felt_batch_inv(&vv)) {
            Err(p) => rep.violation(&format!("panic:batch_inv@{}", short_loc(&p.location)), format!("batch of {} elements: {}", len, p.message), json!({"op": "long-batch", "len": len, "job": job, "vseed": ctx.seed})),
            Ok(out) => {
                let bad = if out.len() != v.len() { Some(0) } else { v.iter().zip(out.iter()).position(|(&a, &i)| if a == 0 { i != 0 } else { !((0..Q).contains(&(i as i64)) && (a as i64 * i as i64) % Q == 1) }) };
                if let Some(pos) = bad {
                    rep.violation("batch_inv:wrong", format!("batch inverse of {} elements is wrong at position {} (element {}, result {:?})", len, pos, v[pos], out.get(pos)), json!({"op": "long-batch", "len": len, "job": job, "vseed": ctx.seed}));
                }
            }
        }
        rep.count("long_batches", 1);
        rep.nontrivial(format!("long-batch|{}|{}", len, job % 2).as_bytes());
    });
    rep.merge(r);
    let _ = &mut rng;
    rep.require("long_batches", 32);
    rep.require("new_values", 65536);
    rep.require("unary_residues", Q as u64);
    rep.require("binary_pairs", (Q * Q) as u64);
    rep.require("batch_with_zero", 100);
    rep.note("exhaustive over all 65536 i16 conversions, all q residues (neg, inverse, centred), all q^2 pairs (add, sub, mul, multiply)".into());
}

/// Concurrency stress: many threads run the field operations at the same time on DIFFERENT
/// operands and every result is checked. The crate has no shared state today; this leg
/// guards against a memo / scratch value shared between threads.
pub fn concurrent(ctx: &Ctx, rep: &mut Report) {
    let inv_tab: Vec<i16> = (0..Q).map(|b| if b == 0 { 0 } else { crate::refs::spec::powm(b, Q - 2) as i16 }).collect();
    let threads = ncpu().max(4);
    let per = ctx.sz(3_000_000, 60_000_000);
    let barrier = std::sync::Barrier::new(threads);
    let out = std::sync::Mutex::new(Report::new());
    std::thread::scope(|sc| {
        for t in 0..threads {
            let (inv_tab, barrier, out) = (&inv_tab, &barrier, &out);
            sc.spawn(move || {
                let mut rep = Report::new();
                // cheap per-thread LCG so that the loop is dominated by the operation under test
                let mut x: u64 = 0x9E3779B97F4A7C15u64.wrapping_mul(t as u64 + 1) ^ ctx.seed;
                barrier.wait();
                let r = monitored(|| {
                    let mut bad: Vec<(i16, i16, i16)> = vec![];
                    let mut wrong = 0u64;
                    for i in 0..per {
                        x = x.wrapping_mul(6364136223846793005).wrapping_add(1442695040888963407);
                        // phases: hammer few residues (maximises same-time collisions), then all
                        let a = if i % 4 == 0 { ((x >> 33) % 8 + 1 + t as u64) as i16 } else { ((x >> 33) % Q as u64) as i16 };
                        let got = vh::felt_inv(a);
                        if got != inv_tab[a as usize] {
                            wrong += 1;
                            if bad.len() < 3 {
                                bad.push((a, got, inv_tab[a as usize]));
                            }
                        }
                        if i % 16 == 0 {
                            let b = ((x >> 20) % (Q as u64 - 1) + 1) as i16;
                            let d = vh::felt_div(a, b);
                            if d as i64 != (a as i64 * inv_tab[b as usize] as i64) % Q {
                                wrong += 1;
                                if bad.len() < 3 {
                                    bad.push((a, b, d));
                                }
                            }
                        }
                    }
                    (wrong, bad)
                });
                rep.evaluations += per as u64;
                match r {
                    Err(p) => rep.violation(&format!("panic:concurrent@{}", short_loc(&p.location)), p.message.clone(), json!({"op": "concurrent"})),
                    Ok((wrong, bad)) => {
                        if wrong > 0 {
                            rep.violation("inv:wrong-under-concurrency", format!("{} wrong inverses/quotients among {} calls while {} threads invert different residues at the same time (first: {:?})", wrong, per, threads, bad), json!({"op": "concurrent", "threads": threads}));
                        }
                    }
                }
                rep.count("concurrent_calls", per as u64);
                rep.nontrivial(format!("thread|{}", t).as_bytes());
                out.lock().unwrap().merge(rep);
            });
        }
    });
    rep.merge(out.into_inner().unwrap());
    rep.sample(json!({"threads": threads, "calls_per_thread": per, "operations": "inverse_or_zero and division on different operands at the same time"}));
    rep.require("concurrent_calls", 1_000_000);
}

pub fn replay(r: &Value) -> bool {
    if r["op"] == "concurrent" {
        println!("concurrency cases are replayed by re-running the leg");
        crate::util::not_replayable();
        return false;
    }
    let a = r["a"].as_i64().unwrap_or(0) as i16;
    let b = r["b"].as_i64().unwrap_or(0) as i16;
    let mut rep = Report::new();
    match r["op"].as_str().unwrap_or("") {
        "new" => check_new(a, &mut rep),
        "unary" => {
            let ok = monitored(|| (vh::felt_neg(a), vh::felt_inv(a), vh::felt_balanced(a)));
            println!("unary({}) = {:?}", a, ok.as_ref().map_err(|p| p.message.clone()));
            return ok.is_ok();
        }
        "batch" => {
            let v: Vec<i16> = r["v"].as_array().unwrap().iter().map(|x| x.as_i64().unwrap() as i16).collect();
            let out = monitored(|| vh::felt_batch_inv(&v));
            println!("batch_inv({:?}) = {:?}", v, out.as_ref().map_err(|p| p.message.clone()));
            return out.is_ok();
        }
        op => {
            let (want, got) = op2(op, a, b);
            println!("{}({},{}) = {:?}, expected {}", op, a, b, got.as_ref().map_err(|p| p.message.clone()), want);
            return matches!(got, Ok(g) if g as i64 == want);
        }
    }
    crate::util::print_replay(&rep)
}
