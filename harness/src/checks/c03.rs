//! C03: decoders and verify are total (panic monitor on release and overflow-checked builds).

use rand::Rng;
use serde_json::{json, Value};

use super::bytesgen::{mutations, synth_pk, synth_sig, synth_sk, Ty};
use super::codec::cursor_sweep;
use crate::fv::{Fv, F1024, F512};
use crate::gen::rand_bytes;
use crate::pool;
use crate::refs::spec;
use crate::util::{hex, monitored, ncpu, par_for, rng_for, short_loc, unhex, Ctx, Report};

fn decode_one<V: Fv>(ty: Ty, b: &[u8]) -> Result<bool, crate::util::PanicInfo> {
    monitored(|| match ty {
        Ty::Pk => V::pk_from_bytes(b).is_ok(),
        Ty::Sk => V::sk_from_bytes(b).is_ok(),
        Ty::Sig => V::sig_from_bytes(b).is_ok(),
    })
}

fn feed<V: Fv>(ty: Ty, class: &str, b: &[u8], rep: &mut Report) {
    rep.evaluations += 1;
    match decode_one::<V>(ty, b) {
        Err(p) => rep.violation(
            &format!("panic:{}::from_bytes@{}", ty.name(), short_loc(&p.location)),
            format!("{} {}::from_bytes panicked on class {} (len {}): {}", V::NAME, ty.name(), class, b.len(), p.message),
            json!({"kind": "decode", "variant": V::NAME, "ty": ty.name(), "bytes": hex(b)}),
        ),
        Ok(ok) => {
            rep.count(&format!("{}_{}", ty.name(), if ok { "ok" } else { "err" }), 1);
            // distinct cell: (variant, type, class family, outcome)
            let fam: String = class.split('-').take(2).collect::<Vec<_>>().join("-");
            rep.nontrivial(format!("{}|{}|{}|{}", V::NAME, ty.name(), fam, ok).as_bytes());
        }
    }
}

fn decoders_v<V: Fv>(ctx: &Ctx, rep: &mut Report) {
    let rounds = ctx.sz(2, 40);
    let flips = ctx.sz(40, 300);
    // valid encodings of real keys/signatures (2 keys) and synthetic ones
    let (keys, bad) = pool::keys::<V>(ctx.seed, "c03", 2);
    for (s, p) in bad {
        rep.inconclusive(format!("keygen panicked for seed {}: {} (reported by C04/C15)", hex(&s), p.message));
    }
    let mut valids: Vec<(Ty, Vec<u8>)> = vec![];
    let sign_ok = keys.first().map(|k| crate::signer::canary::<V>(&k.sk)).unwrap_or(false);
    for k in &keys {
        valids.push((Ty::Pk, V::pk_to_bytes(&k.pk)));
        valids.push((Ty::Sk, V::sk_to_bytes(&k.sk)));
        if !sign_ok {
            continue; // synthetic signatures below still exercise the decoder
        }
        if let Ok(sig) = monitored(|| V::sign(b"c03", &k.sk)) {
            valids.push((Ty::Sig, V::sig_to_bytes(&sig)));
        }
    }
    let r = par_for(valids.len() + 3 * rounds, ncpu(), |job, rep| {
        let mut rng = rng_for(ctx.seed, &format!("c03-dec-{}-{}", V::NAME, job));
        let (ty, valid) = if job < valids.len() {
            valids[job].clone()
        } else {
            match (job - valids.len()) % 3 {
                0 => (Ty::Pk, synth_pk::<V>(&mut rng)),
                1 => (Ty::Sk, synth_sk::<V>(&mut rng, ((job / 3) % 3) as u32)),
                _ => (Ty::Sig, synth_sig::<V>(&mut rng)),
            }
        };
        for (class, b) in mutations::<V>(&valid, ty, &mut rng, flips) {
            // every string goes through all three decoders of this variant
            for t in [Ty::Pk, Ty::Sk, Ty::Sig] {
                if t == Ty::Sk && t != ty && b.len() > 2 && (b[0] >> 4) == 5 && class.starts_with("header") {
                    // (still fed: a pk/sig body read as a secret key)
                }
                feed::<V>(t, &class, &b, rep);
            }
        }
        if job == 0 {
            rep.sample(json!({"variant": V::NAME, "type": ty.name(), "class": "valid", "len": valid.len(), "head": hex(&valid[..8])}));
        }
    });
    rep.merge(r);
    // every length 0..2400 with random bytes and each plausible header
    let r = par_for(2401, ncpu(), |l, rep| {
        let mut rng = rng_for(ctx.seed, &format!("c03-len-{}-{}", V::NAME, l));
        for hdr in [V::LOGN, 0x50 | V::LOGN, 0x30 | V::LOGN, 0x59, 0x5a, 0x09, 0x0a, rng.gen()] {
            let mut b = rand_bytes(&mut rng, l);
            if l > 0 {
                b[0] = hdr;
            }
            // random secret-key bodies of the right length cost a full key expansion; one is enough
            for t in [Ty::Pk, Ty::Sk, Ty::Sig] {
                feed::<V>(t, &format!("len-{}", if l == super::bytesgen::len_of::<V>(t) { "exact" } else { "other" }), &b, rep);
            }
        }
        rep.count("lengths_swept", 1);
    });
    rep.merge(r);
}

pub fn decoders(ctx: &Ctx, rep: &mut Report) {
    decoders_v::<F512>(ctx, rep);
    decoders_v::<F1024>(ctx, rep);
    for k in ["pk_ok", "pk_err", "sk_ok", "sk_err", "sig_ok", "sig_err"] {
        rep.require(k, 10);
    }
    rep.require("lengths_swept", 2 * 2401);
}

fn verify_one<V: Fv>(class: &str, msg: &[u8], sigb: &[u8], pk: &V::Pk, pkb: &[u8], rep: &mut Report) {
    rep.evaluations += 1;
    let r = monitored(|| match V::sig_from_bytes(sigb) {
        Ok(sig) => Some(V::verify(msg, &sig, pk)),
        Err(_) => None,
    });
    match r {
        Err(p) => rep.violation(
            &format!("panic:verify@{}", short_loc(&p.location)),
            format!("{} verify panicked on class {}: {}", V::NAME, class, p.message),
            json!({"kind": "verify", "variant": V::NAME, "msg": hex(msg), "sig": hex(sigb), "pk": hex(pkb)}),
        ),
        Ok(None) => rep.count("sig_not_decodable", 1),
        Ok(Some(b)) => {
            rep.count(if b { "verify_true" } else { "verify_false" }, 1);
        }
    }
}

fn verify_hostile_v<V: Fv>(ctx: &Ctx, rep: &mut Report) {
    let (keys, _bad) = pool::keys::<V>(ctx.seed, "c03v", 1);
    if keys.is_empty() {
        rep.inconclusive("no key could be generated".into());
        return;
    }
    let k = &keys[0];
    let mut rng = rng_for(ctx.seed, &format!("c03-vh-{}", V::NAME));
    // public keys: honest, all zero, all q-1, random
    let mut pks: Vec<(String, Vec<u8>)> = vec![("honest".into(), V::pk_to_bytes(&k.pk))];
    pks.push(("zero".into(), spec::pk_encode(&vec![0i64; V::N])));
    pks.push(("all-q-1".into(), spec::pk_encode(&vec![spec::Q - 1; V::N])));
    pks.push(("random".into(), synth_pk::<V>(&mut rng)));
    let pks: Vec<(String, Vec<u8>, V::Pk)> = pks
        .into_iter()
        .filter_map(|(n, b)| V::pk_from_bytes(&b).ok().map(|p| (n, b, p)))
        .collect();
    let rounds = ctx.sz(1, 10);
    let honest: Vec<Vec<u8>> = if crate::signer::canary::<V>(&k.sk) { (0..4).filter_map(|i| monitored(|| V::sig_to_bytes(&V::sign(&[i as u8; 3], &k.sk))).ok()).collect() } else { vec![] };
    let r = par_for(rounds * pks.len(), ncpu(), |job, rep| {
        let (pkname, pkb, pk) = &pks[job % pks.len()];
        let mut rng = rng_for(ctx.seed, &format!("c03-vh-{}-{}", V::NAME, job));
        let cases = cursor_sweep(V::N, V::SIG_LEN - 41, &mut rng, ctx.thorough() && job < pks.len());
        for c in cases {
            let mut sigb = vec![0x50 | V::LOGN];
            sigb.extend(rand_bytes(&mut rng, 40));
            sigb.extend_from_slice(&c.x);
            let msg = rand_bytes(&mut rng, (job * 7) % 50);
            verify_one::<V>(&c.cell, &msg, &sigb, pk, pkb, rep);
            rep.nontrivial(format!("{}|{}|{}", V::NAME, pkname, c.cell).as_bytes());
        }
        // bit-flipped honest signatures, random bodies
        for (i, h) in honest.iter().enumerate() {
            // the untouched signature first (the accepting path of verify)
            verify_one::<V>("honest", &[i as u8; 3], h, pk, pkb, rep);
            for _ in 0..ctx.sz(100, 2000) {
                let mut b = h.clone();
                let flips = rng.gen_range(1..4);
                for _ in 0..flips {
                    let i = rng.gen_range(8..b.len() * 8);
                    b[i / 8] ^= 128 >> (i % 8);
                }
                verify_one::<V>("bitflip", &[0u8; 3], &b, pk, pkb, rep);
            }
        }
        for _ in 0..ctx.sz(200, 5000) {
            let mut b = rand_bytes(&mut rng, V::SIG_LEN);
            b[0] = 0x50 | V::LOGN;
            // sparse bodies reach deeper into the decoder than uniform ones
            let dens = rng.gen_range(0..4);
            for x in b[41..].iter_mut() {
                for _ in 0..dens {
                    *x &= rng.gen::<u8>();
                }
            }
            verify_one::<V>("random-body", b"m", &b, pk, pkb, rep);
        }
        if job == 0 {
            rep.sample(json!({"variant": V::NAME, "pk": pkname, "what": "cursor sweep + bit-flipped honest signatures + random bodies through Signature::from_bytes and verify"}));
        }
    });
    rep.merge(r);
}

pub fn verify_hostile(ctx: &Ctx, rep: &mut Report) {
    verify_hostile_v::<F512>(ctx, rep);
    verify_hostile_v::<F1024>(ctx, rep);
    rep.require("verify_false", 1000);
    rep.require("verify_true", 1);
}

/// verify on hash-aware crafted triples (public key solved from the hash so that s1 takes
/// chosen values): enormous norms in several mass layouts (all of s1 at the edge of its range
/// in the first block, in one aligned block, spread, ...), exact-boundary norms, lopsided
/// vectors. These corners cannot be reached by mutating bytes; the oracle here is only the
/// panic monitor (both build profiles).
pub fn verify_crafted(ctx: &Ctx, rep: &mut Report) {
    fn go<V: Fv>(ctx: &Ctx, rep: &mut Report) {
        let reps = ctx.sz(6, 60);
        let r = par_for(reps, ncpu(), |job, rep| {
            let mut rng = rng_for(ctx.seed, &format!("c03-crafted-{}-{}", V::NAME, job));
            let mut triples: Vec<(String, crate::gen::Crafted)> = crate::gen::overflow_layouts(V::N, V::BOUND, &mut rng);
            for (d, style) in [(0i64, 0u32), (1, 2), (-1, 200), (0, 3)] {
                if let Some(c) = crate::gen::craft_exact(V::N, V::BOUND + d, style, &mut rng) {
                    triples.push((format!("exact-norm{:+}-style{}", d, style), c));
                }
            }
            // every coefficient of s1 at +-6144 (the largest norm verify can ever compute)
            let s1max: Vec<i64> = (0..V::N).map(|i| if i % 2 == 0 { 6144 } else { -6144 }).collect();
            let s2one: Vec<i64> = (0..V::N).map(|i| if i == 0 { 1 } else { 0 }).collect();
            if let Some(c) = crate::gen::craft_from(V::N, s1max, s2one, &mut rng) {
                triples.push(("all-s1-at-range-edge".into(), c));
            }
            for (name, c) in triples {
                if let Some(body) = spec::compress(&c.s2, V::SIG_LEN - 41) {
                    let mut sb = vec![0x50 | V::LOGN];
                    sb.extend_from_slice(&c.salt);
                    sb.extend_from_slice(&body);
                    let pkb = spec::pk_encode(&c.h);
                    if let Ok(pk) = V::pk_from_bytes(&pkb) {
                        verify_one::<V>(&name, &c.msg, &sb, &pk, &pkb, rep);
                        rep.count("crafted_triples", 1);
                        rep.nontrivial(format!("{}|{}|{}", V::NAME, job, name).as_bytes());
                    }
                }
            }
        });
        rep.merge(r);
    }
    go::<F512>(ctx, rep);
    go::<F1024>(ctx, rep);
    // boundary operands in ONE slot of the transform domain (s2^, h^ in {0, 1, 2, q-1, q-2,
    // (q+-1)/2} with the matching value of the hashed message's transform): a fused
    // multiply-subtract inside verify whose offset is one short panics only on such a slot
    fn slot_boundaries<V: Fv>(ctx: &Ctx, rep: &mut Report) {
        for (class, msg, sb, pkb, _, _, _, _) in super::c02::ntt_boundary_triples::<V>(ctx.seed, ctx.sz(120, 600)) {
            if let Ok(pk) = V::pk_from_bytes(&pkb) {
                verify_one::<V>(&class, &msg, &sb, &pk, &pkb, rep);
                rep.count("transform_slot_boundary_triples", 1);
                rep.nontrivial(format!("{}|{}", V::NAME, class).as_bytes());
            }
        }
    }
    slot_boundaries::<F512>(ctx, rep);
    slot_boundaries::<F1024>(ctx, rep);
    rep.require("transform_slot_boundary_triples", 100);
    // structured residuals in the TRANSFORM domain: verify inverse-transforms c^ - s2^ h^; with
    // s2 = 1 and h = c - intt(T) that residual is exactly T, for T running over block patterns
    // (runs of near-maximal entries followed by near-zero ones, periods 2..256, both phases),
    // constants and saws: the inverse transform inside verify meets the operand patterns that a
    // lazy-reduction schedule is most sensitive to
    fn residual_patterns<V: Fv>(ctx: &Ctx, rep: &mut Report) {
        let n = V::N;
        let q = spec::Q;
        let mut rng = rng_for(ctx.seed, &format!("c03-residual-{}", V::NAME));
        let mut pats: Vec<(String, Vec<i64>)> = vec![("all-max".into(), vec![q - 1; n]), ("saw".into(), (0..n).map(|i| if i % 2 == 0 { 0 } else { q - 1 }).collect())];
        for blk in [1usize, 2, 4, 8, 16, 32, 64, 128] {
            for phase in [0usize, 1] {
                pats.push((format!("square-period{}-phase{}", 2 * blk, phase), (0..n).map(|i| if (i / blk) % 2 == phase { q - 1 } else { 0 }).collect()));
                use rand::Rng;
                pats.push((format!("noisy-square-period{}-phase{}", 2 * blk, phase), (0..n).map(|i| if (i / blk) % 2 == phase { q - 1 - rng.gen_range(0..3) } else { rng.gen_range(0..3) }).collect()));
            }
        }
        let mut xm = vec![0i16; n];
        xm[1] = 1;
        let roots: Vec<i64> = match monitored(|| falcon_rust::verif_hooks::ntt(&xm)) {
            Ok(v) => v.iter().map(|&x| x as i64).collect(),
            Err(_) => return,
        };
        // root_k^{-j} for all k, j
        let inv_pow: Vec<Vec<i64>> = roots
            .iter()
            .map(|&r| {
                let ri = spec::powm(spec::modq(r), q - 2);
                let mut v = Vec::with_capacity(n);
                let mut p = 1i64;
                for _ in 0..n {
                    v.push(p);
                    p = p * ri % q;
                }
                v
            })
            .collect();
        let ninv = spec::powm(n as i64, q - 2);
        for (name, t) in pats {
            // s1 = inverse transform of T in the crate's OWN slot order, computed by the harness:
            // the evaluation point of slot k is read off the forward transform of the monomial x
            let s1: Vec<i64> = (0..n)
                .map(|j| {
                    let mut acc = 0i64;
                    for k in 0..n {
                        acc = (acc + t[k] * inv_pow[k][j]) % q;
                    }
                    acc * ninv % q
                })
                .collect();
            let salt: Vec<u8> = (0..40).map(|i| (i * 7) as u8).collect();
            let msg = format!("residual {}", name).into_bytes();
            let mut rm = salt.clone();
            rm.extend_from_slice(&msg);
            let c = spec::hash_to_point(&rm, n);
            let h: Vec<i64> = (0..n).map(|i| spec::modq(c[i] - s1[i])).collect();
            let mut s2 = vec![0i64; n];
            s2[0] = 1;
            let mut sb = vec![0x50 | V::LOGN];
            sb.extend_from_slice(&salt);
            sb.extend_from_slice(&spec::compress(&s2, V::SIG_LEN - 41).unwrap());
            let pkb = spec::pk_encode(&h);
            if let Ok(pk) = V::pk_from_bytes(&pkb) {
                verify_one::<V>(&format!("residual-{}", name), &msg, &sb, &pk, &pkb, rep);
                rep.count("transform_domain_residual_patterns", 1);
            }
        }
    }
    residual_patterns::<F512>(ctx, rep);
    residual_patterns::<F1024>(ctx, rep);
    rep.require("transform_domain_residual_patterns", 40);
    // FIRST use of one shared public-key object by several threads at once: a key is decoded,
    // handed to 8 threads behind a barrier, and each verifies a valid signature (and a hostile
    // one) with it; repeated with a fresh object every round
    fn shared_first_use<V: Fv>(ctx: &Ctx, rep: &mut Report) {
        use std::sync::{Arc, Barrier};
        let mut rng = rng_for(ctx.seed, &format!("c03-shared-{}", V::NAME));
        let c = match crate::gen::craft_exact(V::N, V::BOUND - 5, 0, &mut rng) {
            Some(c) => c,
            None => return,
        };
        let body = match spec::compress(&c.s2, V::SIG_LEN - 41) {
            Some(b) => b,
            None => return,
        };
        let mut sb = vec![0x50 | V::LOGN];
        sb.extend_from_slice(&c.salt);
        sb.extend_from_slice(&body);
        let pkb = spec::pk_encode(&c.h);
        let sig = match V::sig_from_bytes(&sb) {
            Ok(s) => Arc::new(s),
            Err(_) => return,
        };
        let msg = Arc::new(c.msg.clone());
        for round in 0..ctx.sz(150, 3000) {
            let pk = match V::pk_from_bytes(&pkb) {
                Ok(p) => Arc::new(p),
                Err(_) => return,
            };
            let threads = [2usize, 4, 8, 16][round % 4];
            let barrier = Arc::new(Barrier::new(threads));
            let mut hs = vec![];
            for _ in 0..threads {
                let (pk, sig, msg, barrier) = (pk.clone(), sig.clone(), msg.clone(), barrier.clone());
                hs.push(std::thread::spawn(move || {
                    barrier.wait();
                    monitored(|| V::verify(&msg, &sig, &pk))
                }));
            }
            for h in hs {
                rep.evaluations += 1;
                match h.join() {
                    Ok(Ok(true)) => rep.count("shared_key_first_use_verifications", 1),
                    Ok(Ok(false)) => rep.count("shared_key_first_use_rejected", 1), // C02's business
                    Ok(Err(p)) => rep.violation(&format!("panic:verify@{}", short_loc(&p.location)), format!("{} verify panicked when {} threads made the first use of one shared public-key object at the same time: {}", V::NAME, threads, p.message), json!({"variant": V::NAME, "class": "shared-first-use", "msg": hex(&msg), "sig": hex(&sb), "pk": hex(&pkb)})),
                    Err(_) => rep.inconclusive("a verifying thread died outside the monitor".into()),
                }
            }
        }
    }
    shared_first_use::<F512>(ctx, rep);
    shared_first_use::<F1024>(ctx, rep);
    rep.require("shared_key_first_use_verifications", 200);
    // call sequences over related keys of the two parameter sets (see C02): panic monitor only
    for seq in super::c02::related_variant_sequences(ctx.seed, ctx.sz(6, 60)) {
        let seq_ref = &seq;
        // each sequence in a fresh thread (see C02)
        let out = std::thread::scope(|s| {
            s.spawn(move || {
                let mut rep = Report::new();
                for (is1024, class, msg, sig, pkb) in seq_ref {
                    if *is1024 {
                        if let Ok(pk) = F1024::pk_from_bytes(pkb) {
                            verify_one::<F1024>(class, msg, sig, &pk, pkb, &mut rep);
                        }
                    } else if let Ok(pk) = F512::pk_from_bytes(pkb) {
                        verify_one::<F512>(class, msg, sig, &pk, pkb, &mut rep);
                    }
                }
                rep
            })
            .join()
        });
        match out {
            Ok(r) => rep.merge(r),
            Err(_) => rep.inconclusive("a sequence thread died".into()),
        }
        rep.count("related_variant_sequences", 1);
    }
    rep.require("related_variant_sequences", 20);
    rep.sample(json!({"what": "verify on hash-aware crafted triples", "layouts": ["spread", "front-loaded", "back-loaded", "two-step-block", "all-s1-at-range-edge", "exact-norm", "lopsided"]}));
    rep.require("crafted_triples", 50);
}

/// verify on (salt, message) pairs whose hash stream has unusually many rejected chunks (found
/// with the reference hash only; see C14 extremes): the hashing step of verify under the panic
/// monitor on inputs that typical workloads never produce.
pub fn hash_extremes(ctx: &Ctx, rep: &mut Report) {
    let xs = super::c14::extreme_inputs(ctx.seed ^ 0x33, ctx.sz(8_000_000, 300_000_000), ctx.sz(3000, 60000));
    let mut rng = rng_for(ctx.seed, "c03-hx");
    let pk5 = synth_pk::<F512>(&mut rng);
    let pk10 = synth_pk::<F1024>(&mut rng);
    let (p5, p10) = (F512::pk_from_bytes(&pk5), F1024::pk_from_bytes(&pk10));
    let body5 = spec::compress(&vec![0i64; 512], 625).unwrap();
    let body10 = spec::compress(&vec![0i64; 1024], 1239).unwrap();
    if let (Ok(p5), Ok(p10)) = (p5, p10) {
        for (_, s) in &xs {
            // the 40 first bytes are the salt, the rest the message
            let mut sb = vec![0x59u8];
            sb.extend_from_slice(&s[..40]);
            sb.extend_from_slice(&body5);
            verify_one::<F512>("hash-extreme", &s[40..], &sb, &p5, &pk5, rep);
            let mut sb = vec![0x5au8];
            sb.extend_from_slice(&s[..40]);
            sb.extend_from_slice(&body10);
            verify_one::<F1024>("hash-extreme", &s[40..], &sb, &p10, &pk10, rep);
            rep.nontrivial(s);
            rep.count("hash_extreme_inputs", 1);
        }
    }
    if let Some((c, s)) = xs.first() {
        rep.sample(json!({"salt_and_message": hex(s), "extremeness_score": c}));
    }
    rep.require("hash_extreme_inputs", 100);
}

/// Write structured seeds for the libFuzzer target (first byte = selector of the target).
pub fn dump_corpus(ctx: &Ctx, rep: &mut Report) {
    let dir = match ctx.args.first() {
        Some(d) => d.clone(),
        None => {
            rep.inconclusive("no directory given".into());
            return;
        }
    };
    let _ = std::fs::create_dir_all(&dir);
    let mut rng = rng_for(ctx.seed, "c03-corpus");
    let mut n = 0;
    let mut put = |sel: u8, body: &[u8], n: &mut usize| {
        let mut v = vec![sel];
        v.extend_from_slice(body);
        let _ = std::fs::write(format!("{}/seed-{:04}", dir, *n), v);
        *n += 1;
    };
    let cases = cursor_sweep(512, 625, &mut rng, false);
    for (i, c) in cases.iter().enumerate() {
        if i % 40 == 0 {
            // selector 5: Falcon-512 signature body (after the header: 40 salt bytes + body)
            let mut b = rand_bytes(&mut rng, 40);
            b.extend_from_slice(&c.x);
            put(5, &b, &mut n);
        }
    }
    let cases = cursor_sweep(1024, 1239, &mut rng, false);
    for (i, c) in cases.iter().enumerate() {
        if i % 120 == 0 {
            let mut b = rand_bytes(&mut rng, 40);
            b.extend_from_slice(&c.x);
            put(8, &b, &mut n);
        }
    }
    for _ in 0..4 {
        put(2, &synth_pk::<F512>(&mut rng)[1..], &mut n);
        put(3, &synth_pk::<F1024>(&mut rng)[1..], &mut n);
        put(4, &synth_sk::<F512>(&mut rng, 2)[1..], &mut n);
        put(0, &synth_sig::<F512>(&mut rng), &mut n);
        put(1, &synth_sk::<F1024>(&mut rng, 0), &mut n);
    }
    rep.evaluations += n as u64;
    rep.count("corpus_files", n as u64);
}

pub fn replay(r: &Value) -> bool {
    if r["kind"] == "fuzz-input" {
        // a libFuzzer crash input: feed it to the decoders the way the target does
        let data = unhex(r["bytes"].as_str().unwrap_or(""));
        let out = monitored(|| {
            if data.is_empty() {
                return;
            }
            let rest = &data[1..];
            let _ = F512::pk_from_bytes(rest);
            let _ = F1024::pk_from_bytes(rest);
            let _ = F512::sig_from_bytes(rest);
            let _ = F1024::sig_from_bytes(rest);
            let _ = F512::sk_from_bytes(rest);
            let _ = F1024::sk_from_bytes(rest);
        });
        println!("raw decoders on the crash input: {:?} (run `cargo +nightly fuzz run decode_verify <file>` in /verif/fuzz for the exact path)", out.as_ref().map_err(|p| p.message.clone()));
        return out.is_ok();
    }
    fn go<V: Fv>(r: &Value) -> bool {
        match r["kind"].as_str().unwrap_or("") {
            "decode" => {
                let b = unhex(r["bytes"].as_str().unwrap());
                let ty = match r["ty"].as_str().unwrap() {
                    "pk" => Ty::Pk,
                    "sk" => Ty::Sk,
                    _ => Ty::Sig,
                };
                let out = decode_one::<V>(ty, &b);
                println!("{} {}::from_bytes(len {}) -> {:?}", V::NAME, ty.name(), b.len(), out.as_ref().map_err(|p| format!("PANIC {} at {}", p.message, p.location)));
                out.is_ok()
            }
            "verify" => {
                let mut rep = Report::new();
                let pkb = unhex(r["pk"].as_str().unwrap());
                let pk = match V::pk_from_bytes(&pkb) {
                    Ok(p) => p,
                    Err(e) => {
                        println!("public key no longer decodes: {}", e);
                        return true;
                    }
                };
                verify_one::<V>("replay", &unhex(r["msg"].as_str().unwrap()), &unhex(r["sig"].as_str().unwrap()), &pk, &pkb, &mut rep);
                println!("counters: {:?}", rep.counters);
                crate::util::print_replay(&rep)
            }
            _ => false,
        }
    }
    if r["kind"] == "decompress" || r["kind"] == "compress" {
        return super::codec::replay(r);
    }
    match r["variant"].as_str().unwrap_or("") {
        "falcon512" => go::<F512>(r),
        _ => go::<F1024>(r),
    }
}
