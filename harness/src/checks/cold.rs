//! Cold-start concurrency: the FIRST use of an operation in a fresh process, made by several
//! threads at the same instant. Lazily initialised process-wide state (a table filled on first
//! use, a "ready" flag set before the data is there) is exercised only in that window; every
//! other leg runs in a process that has long passed it.
//!
//! `parent` spawns many short child processes (`vfh run <prop> cold-child -- kind n threads seed`);
//! in a child nothing of the crate runs before the barrier: inputs and expected results are
//! computed with the harness' own reference code, then all threads perform the same first
//! operation and compare.

use rand::Rng;
use serde_json::{json, Value};
use std::sync::{Arc, Barrier, Mutex};

use crate::refs::spec;
use crate::util::{hex, monitored, ncpu, rng_for, short_loc, unhex, Ctx, Report};
use falcon_rust::verif_hooks as vh;

fn arg<T: std::str::FromStr>(ctx: &Ctx, i: usize, default: T) -> T {
    ctx.args.get(i).and_then(|s| s.parse().ok()).unwrap_or(default)
}

pub fn child(ctx: &Ctx, rep: &mut Report) {
    let kind = ctx.args.first().cloned().unwrap_or_default();
    let n: usize = arg(ctx, 1, 64);
    let threads: usize = arg(ctx, 2, 8);
    let cseed: u64 = arg(ctx, 3, 1);
    let mut rng = rng_for(cseed, &format!("cold-{}-{}", kind, n));
    // ---- inputs and expectations: harness code only -------------------------------------
    let a: Vec<i64> = (0..n).map(|_| rng.gen_range(0..spec::Q)).collect();
    let b: Vec<i64> = (0..n).map(|_| rng.gen_range(0..spec::Q)).collect();
    let prod_q = if kind.starts_with("ntt") { spec::negamul_mod(&a, &b) } else { vec![] };
    let ra: Vec<i64> = (0..n).map(|_| rng.gen_range(-16384i64..=16384)).collect();
    let rb: Vec<i64> = (0..n).map(|_| rng.gen_range(-1024i64..=1024)).collect();
    let prod_z: Vec<f64> = if kind.starts_with("fft") { spec::negamul_z(&ra, &rb).iter().map(|&x| x as f64).collect() } else { vec![] };
    let input: Vec<u8> = (0..n).map(|_| rng.gen()).collect();
    let (h512, h1024) = if kind == "h2p" { (spec::hash_to_point(&input, 512), spec::hash_to_point(&input, 1024)) } else { (vec![], vec![]) };
    let batch: Vec<i64> = (0..n).map(|i| if i % 7 == 3 { 0 } else { rng.gen_range(1..spec::Q) }).collect();
    // sampler building blocks: inputs and reference answers
    let blocks: Vec<([u8; 9], i16, f64, f64, u64, [u8; 7], bool)> = if kind == "sampler-blocks" {
        use crate::refs::sampler as rs;
        (0..64)
            .map(|_| {
                let bb: [u8; 9] = rng.gen();
                let u = bb.iter().fold(0u128, |a, &x| (a << 8) | x as u128);
                // the crate's byte order for the 72-bit value is its own business: the expected
                // base-sampler output is taken for both orders and either is accepted below
                let _ = u;
                let x = rng.gen::<f64>() * 10.0;
                let ccs = 0.7 + 0.3 * rng.gen::<f64>();
                let by: [u8; 7] = rng.gen();
                let want_ber = match rs::ber_exp(x, ccs, &by) {
                    rs::Ber::Decided(b, _) => b,
                    rs::Ber::NeedMore(_) => false,
                };
                (bb, 0i16, x, ccs, rs::approx_exp(x.min(rs::LN2), ccs), by, want_ber)
            })
            .collect()
    } else {
        vec![]
    };
    let signer: Option<(bool, Vec<u8>, Vec<u8>)> = if kind == "sign-verify" { Some((ctx.args[4] == "1024", unhex(&ctx.args[5]), unhex(&ctx.args[6]))) } else { None };
    let triple: Option<(bool, Vec<u8>, Vec<u8>, Vec<u8>, bool)> = if kind == "verify" {
        // variant flag, msg, sig, pk, expected verdict: from the parent (argv)
        Some((ctx.args[4] == "1024", unhex(&ctx.args[5]), unhex(&ctx.args[6]), unhex(&ctx.args[7]), ctx.args[8] == "true"))
    } else {
        None
    };
    let shared = Arc::new((kind.clone(), a, b, prod_q, ra, rb, prod_z, input, h512, h1024, batch, triple));
    let shared2 = Arc::new((blocks, signer));
    let barrier = Arc::new(Barrier::new(threads));
    let out: Arc<Mutex<Report>> = Arc::new(Mutex::new(Report::new()));
    let mut hs = vec![];
    let argv = ctx.args.clone();
    for t in 0..threads {
        let (shared, shared2, barrier, out, argv) = (shared.clone(), shared2.clone(), barrier.clone(), out.clone(), argv.clone());
        hs.push(std::thread::spawn(move || {
            let (kind, a, b, prod_q, ra, rb, prod_z, input, h512, h1024, batch, triple) = &*shared;
            let (blocks, signer) = &*shared2;
            let mut rep = Report::new();
            let replay = || json!({"kind": "cold", "args": argv, "thread": t});
            let ai: Vec<i16> = a.iter().map(|&x| x as i16).collect();
            let bi: Vec<i16> = b.iter().map(|&x| x as i16).collect();
            let rac: Vec<(f64, f64)> = ra.iter().map(|&x| (x as f64, 0.0)).collect();
            let rbc: Vec<(f64, f64)> = rb.iter().map(|&x| (x as f64, 0.0)).collect();
            let na: f64 = ra.iter().map(|&x| (x * x) as f64).sum::<f64>().sqrt().max(1.0);
            let nb: f64 = rb.iter().map(|&x| (x * x) as f64).sum::<f64>().sqrt().max(1.0);
            barrier.wait();
            rep.evaluations += 1;
            let r = monitored(|| -> Option<String> {
                match kind.as_str() {
                    "ntt-inverse-first" => {
                        let back = vh::ntt(&vh::intt(&ai));
                        (back != ai).then(|| "ntt(intt(v)) != v".to_string())
                    }
                    "ntt-roundtrip-first" => {
                        let back = vh::intt(&vh::ntt(&ai));
                        (back != ai).then(|| "intt(ntt(a)) != a".to_string())
                    }
                    "ntt-product-first" => {
                        let p = vh::ntt_mul(&ai, &bi);
                        (p.iter().map(|&x| x as i64).collect::<Vec<_>>() != *prod_q).then(|| "ntt product != schoolbook product".to_string())
                    }
                    "fft-roundtrip-first" => {
                        let back = vh::cifft(&vh::cfft(&rac));
                        let e = back.iter().zip(rac.iter()).map(|(x, y)| (x.0 - y.0).abs().max(x.1.abs())).fold(0.0, f64::max);
                        (!(e <= 1e-9 * na)).then(|| format!("ifft(fft(a)) off by {:e}", e))
                    }
                    "fft-split-first" => {
                        let fa = vh::cfft(&rac);
                        let (f0, f1) = vh::csplit(&fa);
                        let m = vh::cmerge(&f0, &f1);
                        let e = m.iter().zip(fa.iter()).map(|(x, y)| (x.0 - y.0).abs().max((x.1 - y.1).abs())).fold(0.0, f64::max);
                        let back = vh::cifft(&m);
                        let e2 = back.iter().zip(rac.iter()).map(|(x, y)| (x.0 - y.0).abs().max(x.1.abs())).fold(0.0, f64::max);
                        (!(e <= 1e-9 * na * (rac.len() as f64).sqrt()) || !(e2 <= 1e-9 * na)).then(|| format!("merge(split(F)) off by {:e}, inverse off by {:e}", e, e2))
                    }
                    "fft-product-first" => {
                        let p = vh::cifft(&vh::cmul(&vh::cfft(&rac), &vh::cfft(&rbc)));
                        let e = p.iter().zip(prod_z.iter()).map(|(x, y)| (x.0 - y).abs().max(x.1.abs())).fold(0.0, f64::max);
                        (!(e <= 1e-9 * na * nb)).then(|| format!("fft product off by {:e}", e))
                    }
                    "h2p" => {
                        let (x5, x10) = (vh::hash_to_point(input, 512), vh::hash_to_point(input, 1024));
                        (x5.iter().map(|&x| x as i64).collect::<Vec<_>>() != *h512 || x10.iter().map(|&x| x as i64).collect::<Vec<_>>() != *h1024).then(|| "hash_to_point differs from Algorithm 3".to_string())
                    }
                    "felt-batch" => {
                        let v: Vec<i16> = batch.iter().map(|&x| x as i16).collect();
                        let o = vh::felt_batch_inv(&v);
                        let ok = o.len() == v.len() && v.iter().zip(o.iter()).all(|(&x, &i)| if x == 0 { i == 0 } else { (x as i64 * i as i64) % spec::Q == 1 });
                        (!ok).then(|| "batch inverse wrong".to_string())
                    }
                    "sampler-blocks" => {
                        let mut bad = None;
                        for (i, (_bb, _z, x, ccs, want_exp, by, want_ber)) in blocks.iter().enumerate() {
                            let xe = x.min(crate::refs::sampler::LN2);
                            if vh::sampler::approx_exp(xe, *ccs) != *want_exp {
                                bad = Some(format!("approx_exp differs on input {}", i));
                            }
                            // ties on all seven bytes need an eighth byte: skipped (NeedMore)
                            if let crate::refs::sampler::Ber::Decided(_, _) = crate::refs::sampler::ber_exp(*x, *ccs, by) {
                                if vh::sampler::ber_exp(*x, *ccs, *by) != *want_ber {
                                    bad = Some(format!("ber_exp differs on input {}", i));
                                }
                            }
                        }
                        bad
                    }
                    "sign-verify" => {
                        use crate::fv::{Fv, F1024, F512};
                        let (is1024, skb, pkb) = signer.as_ref().unwrap();
                        let msg = format!("cold start thread {}", t).into_bytes();
                        fn go<V: Fv>(skb: &[u8], pkb: &[u8], msg: &[u8]) -> Option<String> {
                            let sk = match V::sk_from_bytes(skb) {
                                Ok(k) => k,
                                Err(e) => return Some(format!("sk_from_bytes failed: {}", e)),
                            };
                            let pk = match V::pk_from_bytes(pkb) {
                                Ok(k) => k,
                                Err(e) => return Some(format!("pk_from_bytes failed: {}", e)),
                            };
                            let sig = V::sign(msg, &sk);
                            let sb = V::sig_to_bytes(&sig);
                            let h = spec::pk_fields(&pkb[1..]);
                            let v1 = V::verify(msg, &sig, &pk);
                            let v2 = sb.len() == V::SIG_LEN && spec::verify_traced(msg, &sb[1..41], &sb[41..], &h).0;
                            (!v1 || !v2).then(|| format!("honest signature rejected: verify = {}, reference = {}", v1, v2))
                        }
                        if *is1024 {
                            go::<F1024>(skb, pkb, &msg)
                        } else {
                            go::<F512>(skb, pkb, &msg)
                        }
                    }
                    "verify" => {
                        use crate::fv::{Fv, F1024, F512};
                        let (is1024, msg, sig, pk, want) = triple.as_ref().unwrap();
                        let got = if *is1024 {
                            match (F1024::sig_from_bytes(sig), F1024::pk_from_bytes(pk)) {
                                (Ok(s), Ok(p)) => Some(F1024::verify(msg, &s, &p)),
                                _ => None,
                            }
                        } else {
                            match (F512::sig_from_bytes(sig), F512::pk_from_bytes(pk)) {
                                (Ok(s), Ok(p)) => Some(F512::verify(msg, &s, &p)),
                                _ => None,
                            }
                        };
                        (got != Some(*want)).then(|| format!("verify = {:?}, Algorithm 16 says {}", got, want))
                    }
                    _ => Some("unknown kind".to_string()),
                }
            });
            match r {
                Err(p) => rep.violation(&format!("panic:cold-start@{}", short_loc(&p.location)), format!("first use of {} (n = {}) by {} threads at once panicked: {}", kind, a.len(), argv.get(2).cloned().unwrap_or_default(), p.message), replay()),
                Ok(Some(what)) => rep.violation(&format!("cold-start:{}", kind), format!("first use of {} (n = {}) in a fresh process, made by several threads at once: {}", kind, a.len(), what), replay()),
                Ok(None) => {}
            }
            out.lock().unwrap().merge(rep);
        }));
    }
    for h in hs {
        let _ = h.join();
    }
    let r = std::mem::replace(&mut *out.lock().unwrap(), Report::new());
    rep.merge(r);
}

/// Spawn `count` child processes over the given kinds and sizes; merge their findings.
pub fn parent(ctx: &Ctx, prop: &str, kinds: &[&str], sizes: &[usize], count: usize, extra: &dyn Fn(usize) -> Vec<String>, rep: &mut Report) {
    let exe = std::env::current_exe().expect("exe");
    let dir = std::env::temp_dir().join(format!("vf-cold-{}-{}", prop, std::process::id()));
    let _ = std::fs::create_dir_all(&dir);
    let slots = (ncpu() / 4).max(2);
    let mut running: Vec<(usize, std::process::Child, std::path::PathBuf, Vec<String>)> = vec![];
    let mut next = 0;
    let mut rng = rng_for(ctx.seed, &format!("cold-parent-{}", prop));
    let mut finish = |c: (usize, std::process::Child, std::path::PathBuf, Vec<String>), rep: &mut Report| {
        let (_i, mut ch, path, args) = c;
        let st = ch.wait();
        let text = std::fs::read_to_string(&path).unwrap_or_default();
        let _ = std::fs::remove_file(&path);
        let v: Value = serde_json::from_str(&text).unwrap_or(Value::Null);
        if !st.map(|s| s.success()).unwrap_or(false) || v.is_null() {
            rep.inconclusive(format!("cold-start child {:?} produced no report", &args[..args.len().min(4)]));
            return;
        }
        rep.evaluations += v["evaluations"].as_u64().unwrap_or(0);
        rep.count("cold_start_processes", 1);
        rep.count(&format!("cold_{}", args[0]), 1);
        if let Some(vs) = v["violations"].as_array() {
            for x in vs {
                rep.violation(x["signature"].as_str().unwrap_or("cold-start"), x["detail"].as_str().unwrap_or("").to_string(), x["replay"].clone());
            }
        }
        rep.nontrivial(format!("cold|{}|{}", args[0], args[1]).as_bytes());
    };
    while next < count || !running.is_empty() {
        while next < count && running.len() < slots {
            let kind = kinds[next % kinds.len()];
            let n = sizes[rng.gen_range(0..sizes.len())];
            let threads = [2usize, 4, 8, 8, 16][next % 5];
            let mut args: Vec<String> = vec![kind.to_string(), n.to_string(), threads.to_string(), (ctx.seed * 100_000 + next as u64).to_string()];
            args.extend(extra(next));
            let path = dir.join(format!("c{}.json", next));
            let mut cmd = std::process::Command::new(&exe);
            cmd.args(["run", prop, "cold-child", "--seed", "1", "--out", path.to_str().unwrap(), "--"]).args(&args);
            match cmd.spawn() {
                Ok(ch) => running.push((next, ch, path, args)),
                Err(e) => rep.inconclusive(format!("cannot spawn cold-start child: {}", e)),
            }
            next += 1;
        }
        if !running.is_empty() {
            let c = running.remove(0);
            finish(c, rep);
        }
    }
    let _ = std::fs::remove_dir_all(&dir);
    let _ = hex(&[]);
}
