//! Byte-string mutators for the three `from_bytes` decoders (shared by C03, C05, C06).

use rand::Rng;
use rand_chacha::ChaCha20Rng;

use crate::fv::Fv;
use crate::gen::rand_bytes;
use crate::refs::spec;

#[derive(Debug, Clone, Copy, PartialEq)]
pub enum Ty {
    Pk,
    Sk,
    Sig,
}

impl Ty {
    pub fn name(&self) -> &'static str {
        match self {
            Ty::Pk => "pk",
            Ty::Sk => "sk",
            Ty::Sig => "sig",
        }
    }
}

pub fn len_of<V: Fv>(ty: Ty) -> usize {
    match ty {
        Ty::Pk => V::PK_LEN,
        Ty::Sk => V::SK_LEN,
        Ty::Sig => V::SIG_LEN,
    }
}

pub fn header_of<V: Fv>(ty: Ty) -> u8 {
    match ty {
        Ty::Pk => V::LOGN,
        Ty::Sk => 0x50 | V::LOGN,
        Ty::Sig => 0x50 | V::LOGN,
    }
}

/// Public key bytes with uniformly random coefficients in [0,q).
pub fn synth_pk<V: Fv>(rng: &mut ChaCha20Rng) -> Vec<u8> {
    let h: Vec<i64> = (0..V::N).map(|_| rng.gen_range(0..spec::Q)).collect();
    spec::pk_encode(&h)
}

/// Secret key bytes whose fields are drawn from the full legal range of their width
/// (mode 0), from the extremes only (mode 1), or small like a real key (mode 2).
pub fn synth_sk<V: Fv>(rng: &mut ChaCha20Rng, mode: u32) -> Vec<u8> {
    let (w, wf) = spec::sk_widths(V::N);
    let draw = |rng: &mut ChaCha20Rng, width: usize| -> i64 {
        let m = (1i64 << (width - 1)) - 1;
        match mode {
            0 => rng.gen_range(-m..=m),
            1 => *[m, -m, 0, 1, -1].get(rng.gen_range(0..5)).unwrap(),
            _ => rng.gen_range(-4..=4),
        }
    };
    let f: Vec<i64> = (0..V::N).map(|_| draw(rng, w)).collect();
    let g: Vec<i64> = (0..V::N).map(|_| draw(rng, w)).collect();
    let cf: Vec<i64> = (0..V::N).map(|_| draw(rng, wf)).collect();
    spec::sk_encode(&f, &g, &cf)
}

/// Signature bytes with a valid header, random salt and a valid compressed body.
pub fn synth_sig<V: Fv>(rng: &mut ChaCha20Rng) -> Vec<u8> {
    // (an honest-like vector fits the budget all but once in several thousand draws)
    let body = loop {
        let v = super::codec::honest_like(V::N, rng, 165.0);
        if let Some(b) = spec::compress(&v, V::SIG_LEN - 41) {
            break b;
        }
    };
    let mut b = vec![0x50 | V::LOGN];
    b.extend(rand_bytes(rng, 40));
    b.extend(body);
    b
}

fn set_bits(b: &mut [u8], bit_off: usize, width: usize, val: u64) {
    for i in 0..width {
        let bit = (val >> (width - 1 - i)) & 1;
        let pos = bit_off + i;
        let mask = 128u8 >> (pos % 8);
        if bit == 1 {
            b[pos / 8] |= mask;
        } else {
            b[pos / 8] &= !mask;
        }
    }
}

/// Mutations of a valid encoding. Each is (class, bytes).
pub fn mutations<V: Fv>(valid: &[u8], ty: Ty, rng: &mut ChaCha20Rng, flips: usize) -> Vec<(String, Vec<u8>)> {
    let mut out: Vec<(String, Vec<u8>)> = vec![];
    let len = valid.len();
    out.push(("valid".into(), valid.to_vec()));
    // all header bytes
    for h in 0..=255u8 {
        let mut b = valid.to_vec();
        b[0] = h;
        out.push((format!("header-{:02x}", h), b));
    }
    // truncation / extension
    for d in [1usize, 2, 3, 8, 41, 100] {
        if len > d {
            out.push((format!("truncate-{}", d), valid[..len - d].to_vec()));
        }
        let mut e = valid.to_vec();
        e.extend(vec![0u8; d]);
        out.push((format!("extend-zero-{}", d), e));
        let mut e = valid.to_vec();
        e.extend(rand_bytes(rng, d));
        out.push((format!("extend-rand-{}", d), e));
    }
    // extensions by powers of two (a length kept in a narrowed integer type wraps at 2^8 / 2^16
    // bytes or bits): zero and random fill
    for d in [32usize, 256, 8192, 16384, 65536] {
        let mut e = valid.to_vec();
        e.extend(vec![0u8; d]);
        out.push((format!("extend-zero-pow2-{}", d), e));
        let mut e = valid.to_vec();
        e.extend(rand_bytes(rng, d));
        out.push((format!("extend-rand-pow2-{}", d), e));
    }
    // the other variant's lengths and a few odd ones, with this header
    for l in [0usize, 1, 2, 40, 41, 42, 666, 897, 1280, 1281, 1793, 2305, 2400] {
        let mut b = rand_bytes(rng, l);
        if l > 0 {
            b[0] = valid[0];
        }
        out.push((format!("len-{}", l), b));
    }
    // checksum-preserving edits, offered right after the valid string in the same thread (a
    // memo of the last decoded object keyed by length / byte sum / xor would return the OLD
    // object): byte swaps, +1/-1 on two bytes, the same bit flipped in two bytes, a rotation
    for k in 0..8 {
        let mut b = valid.to_vec();
        let i = rng.gen_range(1..len);
        let mut j = rng.gen_range(1..len);
        if j == i {
            j = 1 + (i % (len - 1));
        }
        let cls = match k % 4 {
            0 => {
                b.swap(i, j);
                "sum-preserving-swap"
            }
            1 => {
                if b[i] < 255 && b[j] > 0 {
                    b[i] += 1;
                    b[j] -= 1;
                }
                "sum-preserving-plus-minus"
            }
            2 => {
                let bit = 1u8 << rng.gen_range(0..8);
                b[i] ^= bit;
                b[j] ^= bit;
                "xor-preserving-double-flip"
            }
            _ => {
                b[1..].rotate_left(1 + k);
                "sum-preserving-rotation"
            }
        };
        if b != valid {
            // the valid string first, then the edited one
            out.push(("valid-again".into(), valid.to_vec()));
            out.push((cls.into(), b));
        }
    }
    // bit flips
    for _ in 0..flips {
        let mut b = valid.to_vec();
        let i = rng.gen_range(0..len * 8);
        b[i / 8] ^= 128 >> (i % 8);
        out.push((format!("bitflip-{}", if i < 8 { "header" } else { "body" }), b));
    }
    // field-level edits
    match ty {
        Ty::Pk => {
            for pos in [0usize, 1, V::N / 2, V::N - 2, V::N - 1] {
                for val in [0u64, 1, 12288, 12289, 12290, 16383, 8192] {
                    let mut b = valid.to_vec();
                    set_bits(&mut b[1..], 14 * pos, 14, val);
                    out.push((format!("pk-field-{}", val), b));
                }
            }
            let mut b = vec![V::LOGN];
            b.extend(vec![0xffu8; len - 1]);
            out.push(("pk-all-ones".into(), b));
            let mut b = vec![V::LOGN];
            b.extend(vec![0u8; len - 1]);
            out.push(("pk-all-zero".into(), b));
        }
        Ty::Sk => {
            let (w, wf) = spec::sk_widths(V::N);
            let offs = [(0usize, w, "f"), (V::N * w, w, "g"), (2 * V::N * w, wf, "F")];
            for (off, width, name) in offs {
                for pos in [0usize, V::N / 2, V::N - 1] {
                    let reserved = 1u64 << (width - 1);
                    for (cls, val) in [("reserved", reserved), ("max", reserved - 1), ("min", reserved + 1), ("zero", 0), ("minus1", (1u64 << width) - 1)] {
                        let mut b = valid.to_vec();
                        set_bits(&mut b[1..], off + pos * width, width, val);
                        out.push((format!("sk-{}-{}", name, cls), b));
                    }
                }
            }
            let mut b = vec![valid[0]];
            b.extend(vec![0u8; len - 1]);
            out.push(("sk-all-zero".into(), b));
            // f with exactly one vanishing NTT coefficient (a small trinomial with a root among
            // the roots of X^n+1 mod q), g and F kept from the valid key
            if let (Some(tri), Some((_f, g, cf))) = (trinomial_with_root(V::N, rng), spec::sk_decode(valid, V::N)) {
                let mut f = vec![0i64; V::N];
                f[0] = tri[0];
                f[1] = tri[1];
                f[2] = tri[2];
                out.push(("sk-f-single-zero-ntt".into(), spec::sk_encode(&f, &g, &cf)));
                // and the same for g
                out.push(("sk-g-single-zero-ntt".into(), spec::sk_encode(&g, &f, &cf)));
            }
            let mut b = vec![valid[0]];
            b.extend(vec![0xffu8; len - 1]);
            out.push(("sk-all-ones".into(), b));
        }
        Ty::Sig => {
            let mut b = valid.to_vec();
            for x in b[41..].iter_mut() {
                *x = 0;
            }
            out.push(("sig-body-zero".into(), b));
            let mut b = valid.to_vec();
            for x in b[41..].iter_mut() {
                *x = 0xff;
            }
            out.push(("sig-body-ones".into(), b));
            let mut b = valid.to_vec();
            let l = b.len();
            b[l - 1] |= 1;
            out.push(("sig-padding-set".into(), b));
        }
    }
    // random body with the right header and length
    for _ in 0..4 {
        let mut b = rand_bytes(rng, len);
        b[0] = valid[0];
        out.push(("random-body".into(), b));
    }
    out
}

/// A small trinomial a + b x + c x^2 (|a|,|b|,|c| within the secret-key field range) that
/// vanishes at one root of X^n + 1 modulo q, i.e. has exactly such NTT zeros.
pub fn trinomial_with_root(n: usize, rng: &mut ChaCha20Rng) -> Option<[i64; 3]> {
    let (w, _) = spec::sk_widths(n);
    let lim = (1i64 << (w - 1)) - 1;
    let psi = spec::find_psi(n);
    let start = rng.gen_range(0..n);
    for k in 0..n {
        let om = spec::powm(psi, (2 * ((start + k) % n) + 1) as i64);
        let om2 = om * om % spec::Q;
        for b in -lim..=lim {
            for c in 1..=lim {
                let a = spec::center(-(b * om + c * om2));
                if a.abs() <= lim && a != 0 {
                    return Some([a, b, c]);
                }
            }
        }
    }
    None
}
