//! One module per property; `run` dispatches (property, leg).

use crate::util::{Ctx, Report};
use serde_json::Value;

pub mod c12;

pub fn run(prop: &str, leg: &str, ctx: &Ctx, rep: &mut Report) -> bool {
    match (prop, leg) {
        ("selftest", _) => crate::selftest::run(ctx, rep),
        ("C12", "exhaustive") => c12::exhaustive(ctx, rep),
        _ => return false,
    }
    true
}

/// Re-execute one recorded case. Returns true if the case no longer violates.
pub fn replay(v: &Value) -> bool {
    let prop = v["property"].as_str().unwrap_or("");
    let r = &v["replay"];
    match prop {
        "C12" => c12::replay(r),
        _ => {
            eprintln!("no replay for {}", prop);
            false
        }
    }
}
