//! One module per property; `run` dispatches (property, leg).

use crate::util::{Ctx, Report};
use serde_json::Value;

pub mod bytesgen;
pub mod c01;
pub mod c02;
pub mod c03;
pub mod c04;
pub mod c05;
pub mod c06;
pub mod c07;
pub mod c08;
pub mod c09;
pub mod c10;
pub mod c11;
pub mod c12;
pub mod c13;
pub mod c14;
pub mod c15;
#[cfg(feature = "pq")]
pub mod c16;
pub mod c17;
pub mod codec;
pub mod cold;

pub fn run(prop: &str, leg: &str, ctx: &Ctx, rep: &mut Report) -> bool {
    match (prop, leg) {
        ("selftest", _) => crate::selftest::run(ctx, rep),
        ("fixture", "fuzz-pks") => {
            use crate::fv::{Fv, F1024, F512};
            let pk5 = F512::pk_to_bytes(&F512::keygen(crate::util::counter_seed(7)).1);
            let pk10 = F1024::pk_to_bytes(&F1024::keygen(crate::util::counter_seed(7)).1);
            println!("// public keys (counter seed 7) for the fuzz target: avoids key generation inside the fuzzer");
            println!("pub const PK512: [u8; 897] = {:?};", pk5);
            println!("pub const PK1024: [u8; 1793] = {:?};", pk10);
            rep.evaluations += 1;
        }
        ("fixture", "miri-key512") => {
            use crate::fv::{Fv, F512};
            let (sk, pk) = F512::keygen(crate::util::counter_seed(7));
            let msg = b"miri fixture".to_vec();
            let sig = F512::sign(&msg, &sk);
            assert!(F512::verify(&msg, &sig, &pk));
            println!("# Falcon-512 fixture for the Miri legs: sk, pk, message, signature (hex), from counter seed 7");
            println!("{}\n{}\n{}\n{}", crate::util::hex(&F512::sk_to_bytes(&sk)), crate::util::hex(&F512::pk_to_bytes(&pk)), crate::util::hex(&msg), crate::util::hex(&F512::sig_to_bytes(&sig)));
            rep.evaluations += 1;
        }
        (_, "cold-child") => cold::child(ctx, rep),
        ("C11", "cold-start") => {
            cold::parent(ctx, "C11", &["ntt-inverse-first", "ntt-roundtrip-first", "ntt-product-first"], &[2, 4, 8, 16, 32, 64, 64, 128, 256, 512, 1024], ctx.sz(1500, 12000), &|_| vec![], rep);
            rep.require("cold_start_processes", 100);
        }
        ("C13", "cold-start") => {
            cold::parent(ctx, "C13", &["fft-roundtrip-first", "fft-split-first", "fft-product-first"], &[2, 4, 8, 16, 32, 64, 128, 256, 512, 1024], ctx.sz(1500, 12000), &|_| vec![], rep);
            rep.require("cold_start_processes", 100);
        }
        ("C14", "cold-start") => {
            cold::parent(ctx, "C14", &["h2p"], &[0, 1, 8, 42, 135, 136, 200, 1000], ctx.sz(1500, 12000), &|_| vec![], rep);
            rep.require("cold_start_processes", 60);
        }
        ("C12", "cold-start") => {
            cold::parent(ctx, "C12", &["felt-batch"], &[1, 2, 7, 64, 512, 1024], ctx.sz(20000, 150000), &|_| vec![], rep);
            rep.require("cold_start_processes", 60);
        }
        ("C02", "cold-start") => c02::cold_start(ctx, rep),
        ("C09", "cold-start") => {
            cold::parent(ctx, "C09", &["sampler-blocks"], &[1], ctx.sz(1000, 8000), &|_| vec![], rep);
            rep.require("cold_start_processes", 60);
        }
        ("C01", "cold-start") => c01::cold_start(ctx, rep),
        ("C01", "matrix") => c01::matrix(ctx, rep),
        ("C01", "native") => c01::native(ctx, rep),
        ("C01", "concurrent") => c01::concurrent(ctx, rep),
        ("C02", "differential") => c02::differential(ctx, rep),
        ("C02", "boundary") => c02::boundary(ctx, rep),
        ("C03", "decoders") => c03::decoders(ctx, rep),
        ("C03", "verify-hostile") => c03::verify_hostile(ctx, rep),
        ("C03", "dump-corpus") => c03::dump_corpus(ctx, rep),
        ("C04", "keys") => c04::keys(ctx, rep),
        ("C05", "roundtrip") => c05::roundtrip(ctx, rep),
        ("C05", "boundary-keys") => c05::boundary_keys(ctx, rep),
        ("C06", "canonical") => c06::canonical(ctx, rep),
        ("C07", "small-exhaustive") => c07::small_exhaustive(ctx, rep),
        ("C07", "compress-sweep") => c07::compress_sweep(ctx, rep),
        ("C07", "cursor") => c07::cursor(ctx, rep),
        ("C08", "salts") => c08::salts(ctx, rep),
        ("C08", "processes") => c08::processes(ctx, rep),
        ("C08", "child") => c08::child(ctx, rep),
        ("C08", "check-file") => c08::check_file(ctx, rep),
        ("C15", "determinism") => c15::determinism(ctx, rep),
        ("C15", "bitflips") => c15::bitflips(ctx, rep),
        ("C15", "child") => c15::child(ctx, rep),
        #[cfg(feature = "pq")]
        ("C16", "interop") => c16::interop(ctx, rep),
        ("C10", "transcripts") => c10::transcripts(ctx, rep),
        ("C10", "ffsampling-trace") => c10::trace(ctx, rep),
        ("C17", "synthetic") => c17::synthetic(ctx, rep),
        ("C17", "captured") => c17::captured(ctx, rep),
        ("C17", "u32-field") => c17::u32_field(ctx, rep),
        ("C09", "blocks") => c09::blocks(ctx, rep),
        ("C09", "totality") => c09::totality(ctx, rep),
        ("C09", "deep-rejection") => c09::deep_rejection(ctx, rep),
        ("C09", "deep-child") => c09::deep_child(ctx, rep),
        ("C09", "distribution") => c09::distribution(ctx, rep),
        ("C09", "in-situ") => c09::in_situ(ctx, rep),
        ("C11", "tables") => c11::tables(ctx, rep),
        ("C11", "products") => c11::products(ctx, rep),
        ("C11", "cross-size") => c11::cross_size(ctx, rep),
        ("C11", "inverse-structured") => c11::inverse_structured(ctx, rep),
        ("C13", "table") => c13::table(ctx, rep),
        ("C13", "accuracy") => c13::accuracy(ctx, rep),
        ("C13", "cross-size") => c13::cross_size(ctx, rep),
        ("C14", "differential") => c14::differential(ctx, rep),
        ("C14", "extremes") => c14::extremes(ctx, rep),
        ("C03", "hash-extremes") => c03::hash_extremes(ctx, rep),
        ("C03", "verify-crafted") => c03::verify_crafted(ctx, rep),
        ("C12", "exhaustive") => c12::exhaustive(ctx, rep),
        ("C12", "concurrent") => c12::concurrent(ctx, rep),
        _ => return false,
    }
    true
}

/// Re-execute one recorded case. Returns true if the case no longer violates.
pub fn replay(v: &Value) -> bool {
    let prop = v["property"].as_str().unwrap_or("");
    let r = &v["replay"];
    // findings that depend on a schedule or on a fresh process (cold-start legs, long-lived
    // threads, generator windows, deep rejection chains, planted candidates): re-run the leg
    if matches!(r["kind"].as_str(), Some("cold") | Some("window") | Some("deep") | Some("teardown") | Some("planted-candidate") | Some("vanishing-candidate")) && r["generated_sk"].is_null() {
        println!("this finding depends on a schedule / a fresh process / a scripted generator: re-running the leg with the recorded seed");
        crate::util::not_replayable();
        return false;
    }
    match prop {
        "C12" => c12::replay(r),
        "C07" => codec::replay(r),
        "C03" => c03::replay(r),
        #[cfg(feature = "pq")]
        "C16" => c16::replay(r),
        "C17" => c17::replay(r),
        "C15" => c15::replay(r),
        "C04" => c04::replay(r),
        "C11" => c11::replay(r),
        "C13" => c13::replay(r),
        "C14" => c14::replay(r),
        "C01" => c01::replay(r),
        "C09" => c09::replay(r),
        "C05" => c05::replay(r),
        "C06" => c06::replay(r),
        "C02" => c02::replay(r),
        _ => {
            println!("cases of {} are replayed by re-running the leg with the recorded seed", prop);
            crate::util::not_replayable();
            false
        }
    }
}
