//! C05: fixed sizes and exact round trip of keys and signatures; the decoded key signs.

use serde_json::{json, Value};

use crate::fv::{Fv, F1024, F512};
use crate::refs::spec;
use crate::signer::sign_honest;
use crate::util::{counter_seed, hex, monitored, ncpu, par_for, rng_for, seed32, short_loc, unhex, Ctx, Report};

/// Committed regression seeds (counter seeds: seed[0..8] = i LE, rest zero) on which the
/// pinned tree produced keys outside the encodable range (|F| > 127 or |G| > 127).
pub const REGRESSION_512: [u64; 4] = [785, 2261, 2907, 1052];
pub const REGRESSION_1024: [u64; 3] = [14, 633, 1031];

pub fn check_seed<V: Fv>(seed: [u8; 32], nmsgs: usize, vseed: u64, rep: &mut Report) {
    rep.evaluations += 1;
    let replay = || json!({"variant": V::NAME, "seed": hex(&seed)});
    let (sk, pk) = match monitored(|| V::keygen(seed)) {
        Ok(k) => k,
        Err(p) => {
            rep.violation(&format!("panic:keygen@{}", short_loc(&p.location)), format!("{} keygen panicked: {}", V::NAME, p.message), replay());
            return;
        }
    };
    let r = monitored(|| {
        let skb = V::sk_to_bytes(&sk);
        let pkb = V::pk_to_bytes(&pk);
        (skb, pkb)
    });
    let (skb, pkb) = match r {
        Ok(x) => x,
        Err(p) => {
            rep.violation(&format!("panic:to_bytes@{}", short_loc(&p.location)), p.message.clone(), replay());
            return;
        }
    };
    if skb.len() != V::SK_LEN || pkb.len() != V::PK_LEN {
        rep.violation("key:wrong-length", format!("{} sk {} bytes, pk {} bytes", V::NAME, skb.len(), pkb.len()), replay());
        return;
    }
    // in-memory key against the reference encoder: representable and encoded faithfully
    let b0 = V::basis(&sk);
    let (g, f, cg, cf): (Vec<i64>, Vec<i64>, Vec<i64>, Vec<i64>) = (
        b0[0].iter().map(|&x| x as i64).collect(),
        b0[1].iter().map(|&x| -(x as i64)).collect(),
        b0[2].iter().map(|&x| x as i64).collect(),
        b0[3].iter().map(|&x| -(x as i64)).collect(),
    );
    let (w, _) = spec::sk_widths(V::N);
    let lim = (1i64 << (w - 1)) - 1;
    let maxfg = f.iter().chain(g.iter()).map(|x| x.abs()).max().unwrap();
    let max_cf = cf.iter().map(|x| x.abs()).max().unwrap();
    let max_cg = cg.iter().map(|x| x.abs()).max().unwrap();
    rep.stat_max(&format!("max_abs_fg_{}", V::NAME), maxfg as f64);
    rep.stat_max(&format!("max_abs_F_{}", V::NAME), max_cf as f64);
    rep.stat_max(&format!("max_abs_G_{}", V::NAME), max_cg as f64);
    if maxfg > lim || max_cf > 127 {
        rep.violation(
            "key:not-representable",
            format!("{} key has max|f,g| = {} (limit {}), max|F| = {} (limit 127): does not fit the fixed-width format", V::NAME, maxfg, lim, max_cf),
            replay(),
        );
        return;
    }
    if skb != spec::sk_encode(&f, &g, &cf) {
        rep.violation("sk:to_bytes-differs-from-reference-encoding", format!("{} sk.to_bytes() is not header|f|g|F in the reference layout", V::NAME), replay());
        return;
    }
    // round trips
    let dec = monitored(|| (V::sk_from_bytes(&skb), V::pk_from_bytes(&pkb)));
    let (sk2, pk2) = match dec {
        Err(p) => {
            rep.violation(&format!("panic:from_bytes@{}", short_loc(&p.location)), p.message.clone(), replay());
            return;
        }
        Ok((Ok(a), Ok(b))) => (a, b),
        Ok((a, b)) => {
            rep.violation("key:own-encoding-rejected", format!("{} from_bytes(to_bytes(key)) failed: sk {:?} pk {:?}", V::NAME, a.err(), b.err()), replay());
            return;
        }
    };
    let mut ok = true;
    if !(sk2 == sk) || V::basis(&sk2) != b0 || V::sk_to_bytes(&sk2) != skb {
        let b2 = V::basis(&sk2);
        let which: Vec<&str> = ["g", "f", "G", "F"].iter().zip(0..4).filter(|(_, i)| b2[*i] != b0[*i]).map(|(n, _)| *n).collect();
        rep.violation("sk:roundtrip-differs", format!("{} decoded secret key differs from the original in {:?}", V::NAME, which), replay());
        ok = false;
    }
    if !(pk2 == pk) || V::pk_to_bytes(&pk2) != pkb {
        rep.violation("pk:roundtrip-differs", format!("{} decoded public key differs from the original", V::NAME), replay());
        ok = false;
    }
    if max_cg > 127 {
        // not part of the byte format (G is recomputed), but the reference implementation refuses
        // such keys on import; reported under C16. Counted here as evidence.
        rep.count("keys_with_G_above_127", 1);
    }
    rep.count("keys_roundtripped", 1);
    rep.nontrivial(&seed);
    if !ok {
        return; // never sign with a key that failed its round trip
    }
    // the decoded key signs; signatures have the right size and survive the round trip
    let mut rng = rng_for(vseed, &format!("c05-msg-{}", hex(&seed[..8])));
    let h: Vec<i64> = spec::pk_fields(&pkb[1..]);
    for m in 0..nmsgs {
        let (shape, msg) = crate::gen::message(m * 5 + (seed[0] as usize), &mut rng, 3000);
        rep.evaluations += 1;
        let out = sign_honest::<V>(&msg, &sk2, vseed, &format!("c05-sign-{}-{}", hex(&seed[..8]), m));
        let sig = match out.sig {
            Ok(s) => s,
            Err(p) => {
                let sigk = if p.no_progress { "sign:no-progress-with-decoded-key".to_string() } else { format!("panic:sign@{}", short_loc(&p.location)) };
                rep.violation(&sigk, format!("{} sign with the decoded key failed on message shape {}: {}", V::NAME, shape, p.message), replay());
                return;
            }
        };
        let sb = V::sig_to_bytes(&sig);
        if sb.len() != V::SIG_LEN {
            rep.violation("sig:wrong-length", format!("{} signature has {} bytes", V::NAME, sb.len()), replay());
            return;
        }
        match monitored(|| V::sig_from_bytes(&sb)) {
            Ok(Ok(s2)) => {
                if !(s2 == sig) || V::sig_to_bytes(&s2) != sb {
                    rep.violation("sig:roundtrip-differs", format!("{} decoded signature differs", V::NAME), replay());
                }
                let v1 = monitored(|| V::verify(&msg, &s2, &pk)).unwrap_or(false);
                let v2 = spec::verify_traced(&msg, &sb[1..41], &sb[41..], &h).0;
                if !v1 || !v2 {
                    rep.violation("sig:decoded-key-signature-rejected", format!("{} signature made with the decoded key: verify = {}, reference = {} (shape {})", V::NAME, v1, v2, shape), replay());
                }
            }
            Ok(Err(e)) => rep.violation("sig:own-encoding-rejected", format!("{} Signature::from_bytes(to_bytes()) failed: {}", V::NAME, e), replay()),
            Err(p) => rep.violation(&format!("panic:sig_from_bytes@{}", short_loc(&p.location)), p.message.clone(), replay()),
        }
        rep.count("signatures_roundtripped", 1);
    }
    // one more signature with the decoded key under a generator stream that makes the sampler
    // accept wide candidates (large vectors: norm rejections and GENUINE compression failures,
    // not the failpoint's), Falcon-1024 only (its compression budget is the tight one)
    if V::N == 1024 {
        let strat = crate::gen::Strategy::ForceAccept { rate_pm: 150, groups: 6 * 1024 };
        let srng = crate::gen::ScriptedRng::new(vseed, &format!("c05-wide-{}", hex(&seed[..8])), strat, crate::signer::progress_budget(V::N));
        let msg = b"wide candidates".to_vec();
        let out = crate::signer::sign_scripted::<V>(&msg, &sk2, srng, false, 0);
        rep.evaluations += 1;
        match out.sig {
            Ok(sig) => {
                let sb = V::sig_to_bytes(&sig);
                let v1 = monitored(|| V::verify(&msg, &sig, &pk)).unwrap_or(false);
                let v2 = sb.len() == V::SIG_LEN && spec::verify_traced(&msg, &sb[1..41], &sb[41..], &h).0;
                if sb.len() != V::SIG_LEN || !v1 || !v2 {
                    rep.violation("sig:decoded-key-signature-rejected", format!("{} signature made with the decoded key after {} norm rejections and {} genuine compression failures: length {}, verify = {}, reference = {}", V::NAME, out.norm_rejects, out.compress_fails, sb.len(), v1, v2), replay());
                }
                if out.compress_fails > 0 {
                    rep.count("signatures_after_genuine_compression_failures", 1);
                }
            }
            Err(p) => {
                let sigk = if p.no_progress { "sign:no-progress-with-decoded-key".to_string() } else { format!("panic:sign@{}", short_loc(&p.location)) };
                rep.violation(&sigk, format!("{} sign with the decoded key failed under a wide-candidate stream ({} norm rejections, {} compression failures): {}", V::NAME, out.norm_rejects, out.compress_fails, p.message), replay());
            }
        }
    }
    // the same round trips AFTER the objects have been used (pk in verify, sk2 in sign): the
    // property's equality is the crate's own `==`; state attached to an object by its use (a
    // lazily filled cache, a counter) must not make it differ from a freshly decoded copy
    let again = monitored(|| (V::sk_from_bytes(&V::sk_to_bytes(&sk2)), V::pk_from_bytes(&V::pk_to_bytes(&pk)), V::sk_to_bytes(&sk2) == skb, V::pk_to_bytes(&pk) == pkb));
    match again {
        Ok((Ok(sk3), Ok(pk3), sb_same, pb_same)) => {
            if !(sk3 == sk2) || !(sk2 == sk3) || !(sk3 == sk) || !sb_same {
                rep.violation("sk:roundtrip-differs-after-use", format!("{}: a secret key that has signed no longer equals its own decoded encoding (or encodes differently)", V::NAME), replay());
            }
            if !(pk3 == pk) || !(pk == pk3) || !(pk2 == pk) || !(pk == pk2) || !pb_same {
                rep.violation("pk:roundtrip-differs-after-use", format!("{}: a public key that has verified a signature no longer equals its own decoded encoding / a decoded copy that has not been used (or encodes differently)", V::NAME), replay());
            }
            rep.count("roundtrips_after_use", 1);
        }
        Ok(_) => rep.violation("key:own-encoding-rejected-after-use", format!("{} from_bytes(to_bytes(key)) failed after the key was used", V::NAME), replay()),
        Err(p) => rep.violation(&format!("panic:from_bytes@{}", short_loc(&p.location)), p.message.clone(), replay()),
    }
}

/// VOLUME: the same valid secret-key bytes decoded many times on all cores; every result must
/// equal the first (crate's ==) and re-encode identically. A decoder whose result depends on
/// randomness of its own (blinding, a randomised algorithm with a rare failure) only shows in
/// numbers like these.
fn decode_volume<V: Fv>(ctx: &Ctx, total: usize, rep: &mut Report) {
    let (keys, _) = crate::pool::keys::<V>(ctx.seed, "c05-volume", 1);
    let k = match keys.first() {
        Some(k) => k,
        None => return,
    };
    let bytes = V::sk_to_bytes(&k.sk);
    let chunks = 64usize;
    let r = par_for(chunks, ncpu(), |ci, rep| {
        for it in 0..total / chunks {
            rep.evaluations += 1;
            match monitored(|| V::sk_from_bytes(&bytes)) {
                Ok(Ok(sk2)) => {
                    if !(sk2 == k.sk) || (it % 64 == 0 && V::sk_to_bytes(&sk2) != bytes) {
                        rep.violation("sk:decode-not-a-function-of-the-bytes", format!("{}: decoding the same valid secret-key bytes again (decode {} of chunk {}) gave a key that differs from the original", V::NAME, it, ci), json!({"variant": V::NAME, "seed": hex(&k.seed)}));
                        break;
                    }
                }
                Ok(Err(e)) => {
                    rep.violation("key:own-encoding-rejected", format!("{}: from_bytes(to_bytes(key)) failed on repetition {}: {}", V::NAME, it, e), json!({"variant": V::NAME, "seed": hex(&k.seed)}));
                    break;
                }
                Err(p) => {
                    rep.violation(&format!("panic:from_bytes@{}", short_loc(&p.location)), p.message.clone(), json!({"variant": V::NAME, "seed": hex(&k.seed)}));
                    break;
                }
            }
        }
        rep.count("repeated_decodes_of_one_key", (total / chunks) as u64);
    });
    rep.merge(r);
}

pub fn roundtrip(ctx: &Ctx, rep: &mut Report) {
    decode_volume::<F512>(ctx, ctx.sz(160_000, 3_000_000), rep);
    decode_volume::<F1024>(ctx, ctx.sz(48_000, 1_200_000), rep);
    if !crate::pool::keygen_responds::<F512>() {
        rep.inconclusive("key generation did not return within 180 s (canary); reported as inconclusive, never as a violation".into());
        return;
    }
    // regression seeds first
    let mut seeds512: Vec<[u8; 32]> = REGRESSION_512.iter().map(|&i| counter_seed(i)).collect();
    let mut seeds1024: Vec<[u8; 32]> = REGRESSION_1024.iter().map(|&i| counter_seed(i)).collect();
    let reg = (seeds512.len(), seeds1024.len());
    for i in 0..ctx.sz(192, 12000) {
        seeds512.push(seed32(ctx.seed, &format!("c05-512-{}", i)));
    }
    for i in 0..ctx.sz(40, 2400) {
        seeds1024.push(seed32(ctx.seed, &format!("c05-1024-{}", i)));
    }
    // counter seeds as well: cheap to replay by hand
    for i in 0..ctx.sz(32, 3000) {
        seeds512.push(counter_seed(100_000 + ctx.seed * 10_000 + i as u64));
    }
    for i in 0..ctx.sz(8, 600) {
        seeds1024.push(counter_seed(200_000 + ctx.seed * 10_000 + i as u64));
    }
    // the slower variant first so that the work-sharing loop balances
    let r = par_for(seeds1024.len(), ncpu(), |i, rep| {
        check_seed::<F1024>(seeds1024[i], 5, ctx.seed, rep);
        if i < reg.1 {
            rep.count("regression_seeds", 1);
        }
    });
    rep.merge(r);
    let r = par_for(seeds512.len(), ncpu(), |i, rep| {
        check_seed::<F512>(seeds512[i], 5, ctx.seed, rep);
        if i < reg.0 {
            rep.count("regression_seeds", 1);
        }
        if i == reg.0 {
            rep.sample(json!({"variant": "falcon512", "seed": hex(&seeds512[i]), "checks": "lengths, reference sk layout, sk/pk/sig round trips (PartialEq, bytes, basis incl. G), 5 signatures with the decoded key verified by verify and by the reference"}));
        }
    });
    rep.merge(r);
    // the SAME seed for both parameter sets, back to back on one thread, in both orders (state
    // remembered per thread and keyed by the seed alone hands one set's key to the other)
    {
        let nseq = ctx.sz(6, 60);
        let r = par_for(nseq, ncpu(), |i, rep| {
            let s = seed32(ctx.seed, &format!("c05-both-sets-{}", i));
            let vseed = ctx.seed;
            let mut local = Report::new();
            let h = std::thread::scope(|sc| {
                sc.spawn(|| {
                    let mut r2 = Report::new();
                    if i % 2 == 0 {
                        check_seed::<F1024>(s, 2, vseed, &mut r2);
                        check_seed::<F512>(s, 2, vseed, &mut r2);
                        check_seed::<F1024>(s, 1, vseed, &mut r2);
                    } else {
                        check_seed::<F512>(s, 2, vseed, &mut r2);
                        check_seed::<F1024>(s, 2, vseed, &mut r2);
                        check_seed::<F512>(s, 1, vseed, &mut r2);
                    }
                    r2
                })
                .join()
            });
            if let Ok(r2) = h {
                local.merge(r2);
            }
            local.count("same_seed_both_parameter_sets_sequences", 1);
            rep.merge(local);
        });
        rep.merge(r);
        rep.require("same_seed_both_parameter_sets_sequences", 6);
    }
    rep.require("regression_seeds", 7);
    rep.require("keys_roundtripped", 50);
    rep.require("signatures_roundtripped", 200);
    rep.require("roundtrips_after_use", 50);
}

/// x^j * a in Z[X]/(X^n+1)
pub fn shift(a: &[i64], j: usize) -> Vec<i64> {
    let n = a.len();
    let mut r = vec![0i64; n];
    for i in 0..n {
        let k = i + j;
        if k < n {
            r[k] = a[i];
        } else {
            r[k - n] = -a[i];
        }
    }
    r
}

/// Boundary-steered keys. From a generated key (f, g, F, G), every (F + k f, G + k g) is again
/// an NTRU completion of the same (f, g) with the same public key and the same Gram-Schmidt
/// norms (the tree leaves do not change). k = c x^j is searched so that the extreme
/// coefficient of F' or G' is EXACTLY +-127, the edge of the encodable range that generated
/// keys reach only about once in 10^4 seeds. Such a key must survive serialisation like any
/// other: decode, byte-identical re-encoding, same basis (incl. the recomputed G'), same
/// public key, and it must sign.
fn boundary_keys_v<V: Fv>(ctx: &Ctx, nkeys: usize, per_key: usize, rep: &mut Report) {
    let (keys, _bad) = crate::pool::keys::<V>(ctx.seed, "c05-boundary", nkeys);
    let r = par_for(keys.len(), ncpu(), |ki, rep| {
        let k = &keys[ki];
        let b0 = V::basis(&k.sk);
        let g: Vec<i64> = b0[0].iter().map(|&x| x as i64).collect();
        let f: Vec<i64> = b0[1].iter().map(|&x| -(x as i64)).collect();
        let cg: Vec<i64> = b0[2].iter().map(|&x| x as i64).collect();
        let cf: Vec<i64> = b0[3].iter().map(|&x| -(x as i64)).collect();
        let pkb = V::pk_to_bytes(&k.pk);
        let h = spec::pk_fields(&pkb[1..]);
        let mut found: Vec<(String, Vec<i64>, Vec<i64>)> = vec![];
        let mut quota: std::collections::HashMap<&str, u32> = std::collections::HashMap::new();
        'search: for c in [1i64, -1, 2, -2, 3, -3, 4, -4, 5, -5, 6, -6, 7, -7, 8, -8] {
            for j in 0..V::N {
                let sf = shift(&f, j);
                let sg = shift(&g, j);
                let f2: Vec<i64> = (0..V::N).map(|i| cf[i] + c * sf[i]).collect();
                let g2: Vec<i64> = (0..V::N).map(|i| cg[i] + c * sg[i]).collect();
                let (fmax, fmin) = (*f2.iter().max().unwrap(), *f2.iter().min().unwrap());
                let (gmax, gmin) = (*g2.iter().max().unwrap(), *g2.iter().min().unwrap());
                if fmax > 127 || fmin < -127 || gmax > 127 || gmin < -127 {
                    continue;
                }
                let mut tags = vec![];
                if gmax == 127 {
                    tags.push("G=+127");
                }
                if gmin == -127 {
                    tags.push("G=-127");
                }
                if fmax == 127 {
                    tags.push("F=+127");
                }
                if fmin == -127 {
                    tags.push("F=-127");
                }
                // at most two keys per boundary per base key
                if let Some(tag) = tags.into_iter().find(|t| *quota.entry(*t).or_insert(0) < 2) {
                    *quota.get_mut(tag).unwrap() += 1;
                    found.push((format!("{} (k = {} x^{})", tag, c, j), f2, g2));
                }
                if found.len() >= per_key {
                    break 'search;
                }
            }
        }
        for (tag, f2, g2) in found {
            rep.evaluations += 1;
            let bytes = spec::sk_encode(&f, &g, &f2);
            let replay = json!({"variant": V::NAME, "seed": hex(&k.seed), "boundary": tag, "sk": hex(&bytes)});
            // sanity of the construction (harness side): still an NTRU completion
            let fg = spec::negamul_z(&f, &g2);
            let gf = spec::negamul_z(&g, &f2);
            if !(0..V::N).all(|i| fg[i] - gf[i] == if i == 0 { spec::Q as i128 } else { 0 }) {
                rep.inconclusive("boundary key construction is not an NTRU completion (harness error)".into());
                continue;
            }
            match monitored(|| V::sk_from_bytes(&bytes)) {
                Err(p) => rep.violation(&format!("panic:sk_from_bytes@{}", short_loc(&p.location)), p.message.clone(), replay),
                Ok(Err(e)) => rep.violation("sk:valid-boundary-key-rejected", format!("{}: a valid secret key whose extreme coefficient is {} is rejected by from_bytes: {}", V::NAME, tag, e), replay),
                Ok(Ok(sk2)) => {
                    let b2 = V::basis(&sk2);
                    let same = b2[0].iter().map(|&x| x as i64).eq(g.iter().cloned())
                        && b2[1].iter().map(|&x| -(x as i64)).eq(f.iter().cloned())
                        && b2[2].iter().map(|&x| x as i64).eq(g2.iter().cloned())
                        && b2[3].iter().map(|&x| -(x as i64)).eq(f2.iter().cloned());
                    if !same || V::sk_to_bytes(&sk2) != bytes {
                        rep.violation("sk:boundary-key-roundtrip-differs", format!("{}: secret key with {} decodes to a different basis / re-encodes differently", V::NAME, tag), replay.clone());
                        continue;
                    }
                    if V::pk_to_bytes(&V::pk_from_sk(&sk2)) != pkb {
                        rep.violation("sk:boundary-key-public-key-differs", format!("{}: public key derived from the decoded boundary key differs", V::NAME), replay.clone());
                    }
                    let msg = b"boundary key".to_vec();
                    let out = sign_honest::<V>(&msg, &sk2, ctx.seed, &format!("c05-bk-{}-{}", hex(&k.seed[..6]), tag));
                    match out.sig {
                        Ok(sig) => {
                            let sb = V::sig_to_bytes(&sig);
                            let v1 = monitored(|| V::verify(&msg, &sig, &k.pk)).unwrap_or(false);
                            let v2 = sb.len() == V::SIG_LEN && spec::verify_traced(&msg, &sb[1..41], &sb[41..], &h).0;
                            if !v1 || !v2 {
                                rep.violation("sig:boundary-key-signature-rejected", format!("{}: signature made with a decoded boundary key ({}) rejected: verify = {}, reference = {}", V::NAME, tag, v1, v2), replay.clone());
                            }
                        }
                        Err(p) => rep.violation("sign:fails-with-boundary-key", format!("{}: sign with a decoded boundary key ({}) failed: {}", V::NAME, tag, p.message), replay.clone()),
                    }
                    rep.count("boundary_keys_roundtripped", 1);
                    rep.count(&format!("boundary_{}", &tag[..6]), 1);
                    rep.nontrivial(format!("{}|{}|{}", V::NAME, hex(&k.seed[..6]), tag).as_bytes());
                    if ki == 0 {
                        rep.sample(json!({"variant": V::NAME, "base_seed": hex(&k.seed), "boundary": tag, "max_abs_F": f2.iter().map(|x| x.abs()).max(), "max_abs_G": g2.iter().map(|x| x.abs()).max()}));
                    }
                }
            }
        }
    });
    rep.merge(r);
}

/// Pairs of DIFFERENT valid secret keys whose encodings have the same length and the same
/// simple checksums (byte sum, and where possible also byte xor), decoded one right after the
/// other on one thread, in both orders, followed by the first one again. The keys are lattice
/// variants (F' = F + c x^j f, G' = G + c x^j g) of a few base keys, so collisions are plentiful
/// and include pairs with different public keys. A decoder that recognises "the key I decoded
/// last time" by anything short of the whole encoding hands back the wrong key here.
fn checksum_pairs_v<V: Fv>(ctx: &Ctx, nkeys: usize, npairs: usize, rep: &mut Report) {
    let (keys, _bad) = crate::pool::keys::<V>(ctx.seed, "c05-cks", nkeys);
    if keys.is_empty() {
        return;
    }
    struct Base {
        f: Vec<i64>,
        g: Vec<i64>,
        cf: Vec<i64>,
        cg: Vec<i64>,
    }
    let bases: Vec<Base> = keys
        .iter()
        .map(|k| {
            let b0 = V::basis(&k.sk);
            Base { g: b0[0].iter().map(|&x| x as i64).collect(), f: b0[1].iter().map(|&x| -(x as i64)).collect(), cg: b0[2].iter().map(|&x| x as i64).collect(), cf: b0[3].iter().map(|&x| -(x as i64)).collect() }
        })
        .collect();
    // candidate i: key i % nkeys with F' = F + c1 x^j1 f + c2 x^j2 f (G' accordingly), if in range
    let ncand = ctx.sz(120_000, 800_000);
    let gen = |i: usize| -> Option<Vec<u8>> {
        let mut z = (i as u64).wrapping_mul(0x9E3779B97F4A7C15) ^ ctx.seed.wrapping_mul(0xD1B54A32D192ED03);
        let mut next = || {
            z ^= z >> 30;
            z = z.wrapping_mul(0xBF58476D1CE4E5B9);
            z ^= z >> 27;
            z = z.wrapping_mul(0x94D049BB133111EB);
            z ^= z >> 31;
            z
        };
        let b = &bases[i % bases.len()];
        let (c1, c2) = ((next() % 5) as i64 - 2, (next() % 5) as i64 - 2);
        let (j1, j2) = ((next() as usize) % V::N, (next() as usize) % V::N);
        let (sf1, sg1, sf2, sg2) = (shift(&b.f, j1), shift(&b.g, j1), shift(&b.f, j2), shift(&b.g, j2));
        let f2: Vec<i64> = (0..V::N).map(|t| b.cf[t] + c1 * sf1[t] + c2 * sf2[t]).collect();
        let g2: Vec<i64> = (0..V::N).map(|t| b.cg[t] + c1 * sg1[t] + c2 * sg2[t]).collect();
        if f2.iter().chain(g2.iter()).any(|x| x.abs() > 127) {
            return None;
        }
        Some(spec::sk_encode(&b.f, &b.g, &f2))
    };
    let found = crate::collide::pairs_streaming(ncand, gen, (npairs / 8).max(2));
    let chosen: Vec<(&'static str, usize, usize)> = found.into_iter().take(npairs * 2).collect();
    let cands = |i: usize| gen(i).unwrap();
    let r = par_for(chosen.len(), ncpu(), |pi, rep| {
        let (fname, i, j) = chosen[pi];
        let (ca, cb) = (cands(i), cands(j));
        let (a, b) = (&ca, &cb);
        let mut bad = false;
        for (step, x) in [a, b, a, b, b, a].iter().enumerate() {
            rep.evaluations += 1;
            let replay = json!({"variant": V::NAME, "sk": hex(x), "decoded_just_before": hex(if step == 0 { b } else { [a, b, a, b, b, a][step - 1] }), "boundary": format!("fingerprint-colliding pair ({})", fname)});
            match monitored(|| V::sk_from_bytes(x).map(|k| (V::sk_to_bytes(&k), V::basis(&k)))) {
                Err(p) => {
                    rep.violation(&format!("panic:sk_from_bytes@{}", short_loc(&p.location)), p.message.clone(), replay);
                    bad = true;
                }
                Ok(Err(e)) => {
                    rep.violation("sk:valid-key-rejected-in-sequence", format!("{}: a valid secret key is rejected when decoded after another one with the same length and byte sum: {}", V::NAME, e), replay);
                    bad = true;
                }
                Ok(Ok((re, basis))) => {
                    let want = spec::sk_decode(x, V::N).unwrap();
                    let f_ok = basis[1].iter().map(|&v| -(v as i64)).eq(want.0.iter().cloned());
                    let cf_ok = basis[3].iter().map(|&v| -(v as i64)).eq(want.2.iter().cloned());
                    if &re != *x || !f_ok || !cf_ok {
                        rep.violation(
                            "sk:decode-depends-on-previous-decode",
                            format!("{}: decoding a valid key right after a different key with the same length and the same {} (step {} of the sequence A,B,A,B,B,A) returns a key that {}", V::NAME, fname, step, if &re != *x { "re-encodes differently" } else { "has a different basis" }),
                            replay,
                        );
                        bad = true;
                    }
                }
            }
            if bad {
                break;
            }
        }
        rep.count("checksum_colliding_pairs_decoded_in_sequence", 1);
        rep.count(&format!("collide_sk_{}", fname), 1);
        if i % bases.len() != j % bases.len() {
            rep.count("pairs_from_different_base_keys", 1);
        }
        rep.nontrivial(format!("cks|{}|{}|{}", V::NAME, crate::util::hash64(a), crate::util::hash64(b)).as_bytes());
    });
    rep.merge(r);
}

pub fn boundary_keys(ctx: &Ctx, rep: &mut Report) {
    checksum_pairs_v::<F512>(ctx, ctx.sz(3, 8), ctx.sz(24, 200), rep);
    checksum_pairs_v::<F1024>(ctx, ctx.sz(2, 4), ctx.sz(12, 100), rep);
    rep.require("checksum_colliding_pairs_decoded_in_sequence", 10);
    boundary_keys_v::<F1024>(ctx, ctx.sz(4, 24), 8, rep);
    boundary_keys_v::<F512>(ctx, ctx.sz(12, 60), 8, rep);
    rep.require("boundary_keys_roundtripped", 8);
    for k in ["boundary_G=+127", "boundary_G=-127", "boundary_F=+127", "boundary_F=-127"] {
        rep.require(k, 1);
    }
}

pub fn replay(r: &Value) -> bool {
    if let Some(skh) = r["sk"].as_str() {
        let b = unhex(skh);
        if let Some(prev) = r["decoded_just_before"].as_str() {
            // sequence-dependent finding: decode the predecessor first, on this thread
            let pb = unhex(prev);
            let _ = if r["variant"] == "falcon512" { F512::sk_from_bytes(&pb).is_ok() } else { F1024::sk_from_bytes(&pb).is_ok() };
        }
        let out = if r["variant"] == "falcon512" { F512::sk_from_bytes(&b).map(|k| F512::sk_to_bytes(&k) == b) } else { F1024::sk_from_bytes(&b).map(|k| F1024::sk_to_bytes(&k) == b) };
        println!("boundary key {}: from_bytes -> {:?} (Ok(true) = accepted and re-encodes identically)", r["boundary"], out);
        return out == Ok(true);
    }
    let mut rep = Report::new();
    let mut seed = [0u8; 32];
    seed.copy_from_slice(&unhex(r["seed"].as_str().unwrap()));
    match r["variant"].as_str().unwrap_or("") {
        "falcon512" => check_seed::<F512>(seed, 5, 1, &mut rep),
        _ => check_seed::<F1024>(seed, 5, 1, &mut rep),
    }
    println!("counters {:?} stats {:?}", rep.counters, rep.stats);
    crate::util::print_replay(&rep)
}
