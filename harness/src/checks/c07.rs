//! C07: compression is lossless and canonical (Algorithms 17/18).

use rand::Rng;
use serde_json::json;

use super::codec::{check_compress, check_decompress, cursor_sweep, honest_like};
use crate::refs::spec;
use crate::util::{hex, ncpu, par_for, rng_for, Ctx, Report};

/// Exhaustive: every byte string of length <= 3 for n in {1,2,3}.
pub fn small_exhaustive(ctx: &Ctx, rep: &mut Report) {
    // lengths 0..2 inline
    for n in 1..=3usize {
        for l in 0..=2usize {
            let total = 1u64 << (8 * l);
            for k in 0..total {
                let x: Vec<u8> = (0..l).map(|i| (k >> (8 * (l - 1 - i))) as u8).collect();
                if check_decompress(&x, n, rep) {
                    rep.nontrivial(&[&[n as u8][..], &x].concat());
                }
            }
        }
    }
    rep.count("strings_len_le2", 3 * (1 + 256 + 65536));
    // length 3: 2^24 strings x n in {1,2,3}, shared out by first byte
    let r = par_for(256 * 3, ncpu(), |job, rep| {
        let n = job / 256 + 1;
        let b0 = (job % 256) as u8;
        for k in 0..(1u32 << 16) {
            let x = [b0, (k >> 8) as u8, k as u8];
            if check_decompress(&x, n, rep) {
                rep.nontrivial(&[n as u8, x[0], x[1], x[2]]);
                if k % 9973 == 0 {
                    rep.sample(json!({"x": hex(&x), "n": n, "accepted": true, "vector": spec::decompress(&x, n)}));
                }
            }
        }
        rep.count("strings_len3", 1 << 16);
    });
    rep.merge(r);
    if ctx.thorough() {
        // sampled strings of length 4..6, n <= 5; biased towards few one-bits so that long
        // unary runs and exact fits are common
        let per = ctx.sz(0, 40_000_000);
        let r = par_for(16, ncpu(), |w, rep| {
            let mut rng = rng_for(ctx.seed, &format!("c07-len4-6-{}", w));
            for _ in 0..per {
                let l = rng.gen_range(4..=6);
                let n = rng.gen_range(1..=5);
                let dens = rng.gen_range(1..=4);
                let x: Vec<u8> = (0..l)
                    .map(|_| {
                        let mut b: u8 = rng.gen();
                        for _ in 1..dens {
                            b &= rng.gen::<u8>();
                        }
                        b
                    })
                    .collect();
                if check_decompress(&x, n, rep) {
                    rep.nontrivial(&[&[n as u8][..], &x].concat());
                }
                rep.count("strings_len4_6", 1);
            }
        });
        rep.merge(r);
    }
    // multiple negative zeros at small sizes (n = 3..6 needs 4..7 bytes: beyond the exhaustive
    // range): every subset of positions of an all-zero / small vector gets its sign bits set
    for n in 2..=6usize {
        let l = (9 * n + 7) / 8 + 1;
        let base: Vec<i64> = (0..n).map(|i| if i % 2 == 0 { 0 } else { 3 }).collect();
        let zeros: Vec<usize> = (0..n).collect();
        for mask in 1u32..(1 << n) {
            // encode by hand: sign bit set on the masked positions whose value is zero
            let mut bits: Vec<bool> = vec![];
            for (i, &v) in base.iter().enumerate() {
                let neg = (mask >> i) & 1 == 1 && v == 0;
                bits.push(neg);
                for b in (0..7).rev() {
                    bits.push((v >> b) & 1 == 1);
                }
                bits.push(true);
            }
            let x = crate::gen::pack(&bits, l);
            check_decompress(&x, n, rep);
            rep.count("multi_negative_zero_strings", 1);
        }
        let _ = zeros;
    }
    rep.require("strings_len3", 3 << 24);
    rep.require("dec_accepted", 1000);
    rep.require("dec_rejected", 1000);
    rep.note("exhaustive: all byte strings of length 0..3 decoded as n = 1, 2, 3 coefficients".into());
}

/// compress side: exhaustive n = 1, boundary grid n = 2..3, production sizes at the budget edge.
pub fn compress_sweep(ctx: &Ctx, rep: &mut Report) {
    let r = par_for(15, ncpu(), |l, rep| {
        for v in -12159i64..=12159 {
            check_compress(&[v], l, rep);
        }
        rep.count("n1_values_x_L", 24319);
        rep.nontrivial(&[1, l as u8]);
    });
    rep.merge(r);
    let grid: Vec<i64> = vec![0, 1, -1, 127, -127, 128, -128, 255, 256, -256, 1000, -1023, 1024, 2047, 2048, 12031, 12032, -12032, 12159, -12159];
    let g2 = grid.clone();
    let r = par_for(grid.len(), ncpu(), |i, rep| {
        let a = g2[i];
        for &b in &g2 {
            for l in 0..=30usize {
                check_compress(&[a, b], l, rep);
            }
            for &c in &g2 {
                for l in [0usize, 3, 4, 5, 14, 15, 16, 28, 29, 30, 40, 41, 42, 43, 290] {
                    check_compress(&[a, b, c], l, rep);
                }
            }
        }
        rep.nontrivial(&[2, i as u8]);
        rep.count("grid_rows", 1);
    });
    rep.merge(r);
    // every unary run length at every bit offset: k zero coefficients (9 bits each) put the probe
    // at offset k mod 8; the probe takes every high part 0..95 with low parts {0,1,127}, both
    // signs, alone and twice in a row, followed by small coefficients, generous budget
    let r = par_for(8, ncpu(), |k, rep| {
        for high in 0..=95i64 {
            for low in [0i64, 1, 127] {
                for sgn in [1i64, -1] {
                    let v = sgn * ((high << 7) | low);
                    if v.abs() > 12159 {
                        continue;
                    }
                    let mut vec1 = vec![0i64; k];
                    vec1.push(v);
                    vec1.extend([1, -1, 0]);
                    let l1 = (spec::compressed_bits(&vec1) + 7) / 8 + 2;
                    check_compress(&vec1, l1, rep);
                    let mut vec2 = vec![0i64; k];
                    vec2.extend([v, v, 5]);
                    let l2 = (spec::compressed_bits(&vec2) + 7) / 8 + 1;
                    check_compress(&vec2, l2, rep);
                    // inside a production-size vector of small coefficients
                    let mut vec3 = vec![3i64; 512];
                    for z in vec3.iter_mut().take(k) {
                        *z = 0;
                    }
                    vec3[k + 100] = v;
                    check_compress(&vec3, 625 + 16, rep);
                    rep.count("run_length_x_offset_cases", 3);
                }
            }
        }
        rep.nontrivial(format!("runxoff|{}", k).as_bytes());
    });
    rep.merge(r);
    rep.require("run_length_x_offset_cases", 10_000);
    // LARGE encodings: long vectors and large coefficients whose encoding crosses 2^15, 2^16 and
    // 2^17 bits (a write position or a length kept in a narrow integer wraps there), with the
    // budget exactly fitting, one byte short, and generous
    let big: Vec<(usize, &str)> = vec![(637, "edge"), (1024, "edge"), (1024, "uniform"), (1024, "half-edge"), (1160, "uniform"), (2048, "uniform"), (2048, "edge"), (4096, "small"), (8192, "small"), (16384, "zero"), (512, "edge"), (700, "edge")];
    let r = par_for(big.len() * ctx.sz(2, 12), ncpu(), |job, rep| {
        let (n, kind) = big[job % big.len()];
        let mut rng = rng_for(ctx.seed, &format!("c07-big-{}", job));
        let v: Vec<i64> = (0..n)
            .map(|i| match kind {
                "edge" => if rng.gen() { 12159 } else { -12159 },
                "uniform" => rng.gen_range(-12159i64..=12159),
                "half-edge" => if i % 2 == 0 { 12159 } else { rng.gen_range(-200i64..=200) },
                "small" => rng.gen_range(-300i64..=300),
                _ => 0,
            })
            .collect();
        let bits = spec::compressed_bits(&v);
        let fit = (bits + 7) / 8;
        for l in [fit, fit.saturating_sub(1), fit + 1, fit + 4096, 8192, 16384] {
            check_compress(&v, l, rep);
        }
        // the decoder on large strings: the valid encoding with single-bit flips at random
        // places, a set padding bit, and one byte cut off
        if let Some(x) = spec::compress(&v, fit + 1) {
            for _ in 0..24 {
                let mut y = x.clone();
                let i = rng.gen_range(0..y.len() * 8);
                y[i / 8] ^= 128 >> (i % 8);
                check_decompress(&y, n, rep);
            }
            let mut y = x.clone();
            let last = y.len() - 1;
            y[last] |= 1;
            check_decompress(&y, n, rep);
            check_decompress(&x[..x.len() - 1], n, rep);
            check_decompress(&x, n, rep);
            rep.count("large_strings_decoded", 27);
        }
        rep.count("large_encodings", 1);
        for t in [1usize << 15, 1 << 16, 1 << 17] {
            if bits >= t {
                rep.count(&format!("large_encodings_above_2^{}_bits", t.trailing_zeros()), 1);
            }
        }
        rep.nontrivial(format!("big|{}|{}|{}", n, kind, job).as_bytes());
    });
    rep.merge(r);
    rep.require("large_encodings_above_2^16_bits", 4);
    // production sizes: vectors engineered to need 8L + d bits
    let reps = ctx.sz(6, 2000);
    let r = par_for(2 * reps, ncpu(), |job, rep| {
        let (n, l) = if job % 2 == 0 { (512usize, 625usize) } else { (1024, 1239) };
        let mut rng = rng_for(ctx.seed, &format!("c07-prod-{}", job));
        for d in -12i64..=12 {
            let want = (8 * l as i64 + d) as usize;
            if let Some(c) = crate::gen::filler(n, want, &mut rng) {
                let v: Vec<i64> = c.iter().map(|c| c.value()).collect();
                assert_eq!(spec::compressed_bits(&v), want);
                check_compress(&v, l, rep);
                rep.nontrivial(format!("prod|{}|{}|{}", n, d, job).as_bytes());
                rep.count(if d <= 0 { "prod_fits" } else { "prod_too_long" }, 1);
                if d == 0 && job < 2 {
                    rep.sample(json!({"n": n, "L": l, "bits": want, "first": &v[..6], "fits": true}));
                }
                // the same vector into neighbouring budgets
                for dl in [-1i64, 1] {
                    check_compress(&v, (l as i64 + dl) as usize, rep);
                }
            }
        }
        // honest-like vectors at several scales (sigma ~ 165 like real s2)
        for scale in [20.0, 165.0, 300.0, 1500.0] {
            let v = honest_like(n, &mut rng, scale);
            check_compress(&v, l, rep);
            rep.count("prod_honest_like", 1);
        }
    });
    rep.merge(r);
    rep.require("prod_fits", 10);
    rep.require("prod_too_long", 10);
    rep.require("comp_some", 1000);
    rep.require("comp_none", 1000);
    rep.note("exhaustive: compress of every single value |v| < 12160 into budgets 0..14 bytes".into());
}

/// decompress side at production sizes: the cursor sweep.
pub fn cursor(ctx: &Ctx, rep: &mut Report) {
    let rounds = ctx.sz(1, 40);
    let r = par_for(2 * rounds, ncpu(), |job, rep| {
        let (n, l) = if job % 2 == 0 { (512usize, 625usize) } else { (1024, 1239) };
        let mut rng = rng_for(ctx.seed, &format!("c07-cursor-{}", job));
        let cases = cursor_sweep(n, l, &mut rng, ctx.thorough());
        for c in cases {
            let acc = check_decompress(&c.x, n, rep);
            rep.nontrivial(format!("{}|{}", n, c.cell).as_bytes());
            rep.count(if acc { "cursor_accepted" } else { "cursor_rejected" }, 1);
            if acc && c.cell.starts_with("last|e+0|h94") {
                rep.sample(json!({"n": n, "cell": c.cell, "tail_hex": hex(&c.x[c.x.len() - 16..]), "accepted": acc}));
            }
        }
        // sizes interleaved in one thread (state kept between calls, e.g. a scratch buffer sized
        // by an earlier call, would show up here): production-size strings alternate with tiny ones
        if job < 2 {
            let big = cursor_sweep(n, l, &mut rng, false);
            for (i, c) in big.iter().enumerate().take(300) {
                check_decompress(&c.x, n, rep);
                let tiny = [(i * 37) as u8, (i * 101 + 3) as u8, 0x80 | (i as u8)];
                check_decompress(&tiny, 1 + i % 3, rep);
                check_compress(&[(i as i64 % 257) - 128, 5], 3, rep);
                if let Some(v) = spec::decompress(&c.x, n) {
                    if v.iter().all(|x| x.abs() < 12160) {
                        check_compress(&v, l, rep);
                    }
                }
                rep.count("interleaved_size_switches", 2);
            }
        }
        // small sizes as well: all (n, l) with n <= 4, l <= 6
        if job < 2 {
            for n in 1..=4usize {
                for l in 2..=6usize {
                    if n >= 3 {
                        for c in cursor_sweep(n, l, &mut rng, false) {
                            check_decompress(&c.x, n, rep);
                            rep.nontrivial(format!("{}|{}|{}", n, l, c.cell).as_bytes());
                        }
                    }
                }
            }
        }
    });
    rep.merge(r);
    rep.require("cursor_accepted", 20);
    rep.require("cursor_rejected", 1000);
}
