//! C15: key generation is a deterministic function of the seed; every seed bit matters.

use serde_json::{json, Value};
use std::collections::HashMap;
use std::sync::{Arc, Barrier, Mutex};

use crate::fv::{Fv, F1024, F512};
use crate::util::{counter_seed, hash64, hex, monitored, ncpu, par_for, seed32, unhex, Ctx, Report};
use falcon_rust::verif_hooks as vh;
use rand::RngCore;

type Fp = (u64, u64, usize, usize); // (hash sk, hash pk, len sk, len pk)

fn fingerprint<V: Fv>(seed: [u8; 32]) -> Result<Fp, String> {
    match monitored(|| {
        let (sk, pk) = V::keygen(seed);
        (V::sk_to_bytes(&sk), V::pk_to_bytes(&pk), V::basis(&sk), V::leaves(&sk))
    }) {
        Ok((s, p, b, lv)) => {
            // the fingerprint covers the serialised key, the in-memory basis (incl. G) and the
            // bit patterns of the tree leaves (the whole SecretKey object)
            let mut all = s.clone();
            for l in lv.iter() {
                for c in l.iter() {
                    all.extend_from_slice(&c.0.to_bits().to_le_bytes());
                    all.extend_from_slice(&c.1.to_bits().to_le_bytes());
                }
            }
            for poly in b.iter() {
                for c in poly {
                    all.extend_from_slice(&c.to_le_bytes());
                }
            }
            Ok((hash64(&all), hash64(&p), s.len(), p.len()))
        }
        Err(e) => Err(format!("{} at {}", e.message, e.location)),
    }
}

fn seeds_for(ctx: &Ctx, n: usize) -> Vec<[u8; 32]> {
    let mut v: Vec<[u8; 32]> = (0..n).map(|i| seed32(ctx.seed, &format!("c15-{}", i))).collect();
    v.push([0u8; 32]);
    v.push([0xffu8; 32]);
    v.push(counter_seed(1));
    v
}

fn record(table: &mut HashMap<(String, [u8; 32]), Vec<(String, Fp)>>, variant: &str, seed: [u8; 32], who: &str, fp: Fp) {
    table.entry((variant.to_string(), seed)).or_default().push((who.to_string(), fp));
}

fn run_variant<V: Fv>(ctx: &Ctx, seeds: &[[u8; 32]], table: &Mutex<HashMap<(String, [u8; 32]), Vec<(String, Fp)>>>, rep: &mut Report) {
    // (a) main-thread pass, with unrelated generator activity in between
    for s in seeds {
        let mut junk = [0u8; 64];
        rand::thread_rng().fill_bytes(&mut junk);
        match fingerprint::<V>(*s) {
            Ok(fp) => record(&mut table.lock().unwrap(), V::NAME, *s, "main-thread", fp),
            Err(e) => rep.violation("panic:keygen", format!("{} keygen({}) panicked: {}", V::NAME, hex(s), e), json!({"variant": V::NAME, "seed": hex(s)})),
        }
        rep.evaluations += 1;
    }
    // (b) 8 threads generate the same seeds in different orders while signing with other
    // keys in between (thread_rng, the sign path and keygen interleave)
    let threads = 8;
    let barrier = Arc::new(Barrier::new(threads));
    let seeds_a: Arc<Vec<[u8; 32]>> = Arc::new(seeds.to_vec());
    let results: Arc<Mutex<Vec<([u8; 32], String, Result<Fp, String>)>>> = Arc::new(Mutex::new(vec![]));
    let mut hs = vec![];
    for t in 0..threads {
        let (barrier, seeds_a, results) = (barrier.clone(), seeds_a.clone(), results.clone());
        let vseed = ctx.seed;
        hs.push(std::thread::spawn(move || {
            vh::set_sign_rng(None);
            let (side_sk, _pk) = V::keygen(seed32(vseed, &format!("c15-side-{}", t)));
            barrier.wait();
            let k = seeds_a.len();
            for j in 0..k {
                // each thread walks the seeds from a different offset / direction
                let idx = if t % 2 == 0 { (j + t) % k } else { (k - 1 - j + t) % k };
                if (j + t) % 2 == 0 {
                    let _ = monitored(|| V::sign(b"interleaved", &side_sk));
                }
                let r = fingerprint::<V>(seeds_a[idx]);
                results.lock().unwrap().push((seeds_a[idx], format!("thread-{}", t), r));
            }
        }));
    }
    for h in hs {
        let _ = h.join();
    }
    for (s, who, r) in results.lock().unwrap().drain(..) {
        rep.evaluations += 1;
        match r {
            Ok(fp) => record(&mut table.lock().unwrap(), V::NAME, s, &who, fp),
            Err(e) => rep.violation("panic:keygen", format!("{} keygen({}) panicked in {}: {}", V::NAME, hex(&s), who, e), json!({"variant": V::NAME, "seed": hex(&s)})),
        }
    }
    rep.count("concurrent_keygen_threads", threads as u64);
}

/// Every pool seed is generated twice (the two executions land on different worker threads);
/// returns the pool size and the seeds ordered by decreasing number of candidates drawn.
fn pool_pass<V: Fv>(ctx: &Ctx, n: usize, table: &Mutex<HashMap<(String, [u8; 32]), Vec<(String, Fp)>>>, rep: &mut Report) -> (usize, Vec<[u8; 32]>) {
    let seeds: Vec<[u8; 32]> = (0..n).map(|i| if i % 3 == 2 { counter_seed(500_000 + ctx.seed * 10_000 + i as u64) } else { seed32(ctx.seed, &format!("c15-pool-{}-{}", V::NAME, i)) }).collect();
    let times: Mutex<Vec<(f64, [u8; 32])>> = Mutex::new(vec![]);
    let r = par_for(2 * n, ncpu(), |job, rep| {
        let s = seeds[job % n];
        // logical measure of the length of the key search: number of candidate (f,g) pairs
        // drawn (hook counter, per thread)
        vh::take_keygen_candidates();
        let r = fingerprint::<V>(s);
        let dt = vh::take_keygen_candidates() as f64;
        rep.stat_max(&format!("max_keygen_candidates_{}", V::NAME), dt);
        rep.evaluations += 1;
        match r {
            Ok(fp) => {
                record(&mut table.lock().unwrap(), V::NAME, s, if job < n { "pool-pass-1" } else { "pool-pass-2" }, fp);
                if job < n {
                    times.lock().unwrap().push((dt, s));
                }
            }
            Err(e) => rep.violation("panic:keygen", format!("{} keygen({}) panicked: {}", V::NAME, hex(&s), e), json!({"variant": V::NAME, "seed": hex(&s)})),
        }
    });
    rep.merge(r);
    let mut t = times.into_inner().unwrap();
    t.sort_by(|a, b| b.0.partial_cmp(&a.0).unwrap());
    (n, t.into_iter().map(|x| x.1).collect())
}

/// Child mode: print fingerprints of the given seeds (hex) for both variants.
pub fn child(ctx: &Ctx, rep: &mut Report) {
    for a in &ctx.args {
        let (var, hx) = a.split_at(1);
        let mut s = [0u8; 32];
        s.copy_from_slice(&unhex(hx));
        let fp = if var == "5" { fingerprint::<F512>(s) } else { fingerprint::<F1024>(s) };
        rep.samples.push(json!({"variant": var, "seed": hx, "fp": fp.map(|f| vec![f.0.to_string(), f.1.to_string(), f.2.to_string(), f.3.to_string()]).unwrap_or_default()}));
        rep.evaluations += 1;
    }
}

pub fn determinism(ctx: &Ctx, rep: &mut Report) {
    if !crate::pool::keygen_responds::<F512>() {
        rep.inconclusive("key generation did not return within 180 s (canary); reported as inconclusive, never as a violation".into());
        return;
    }
    let table: Mutex<HashMap<(String, [u8; 32]), Vec<(String, Fp)>>> = Mutex::new(HashMap::new());
    // (0) a larger pool, every seed generated twice by different worker threads; the seeds
    // whose key search took longest (most generator output, most rejected candidates) are then
    // taken through the heavier contexts below. The length of a search is the number of candidates drawn (hook counter).
    let (pool512, slow512) = pool_pass::<F512>(ctx, ctx.sz(96, 1200), &table, rep);
    let (pool1024, slow1024) = pool_pass::<F1024>(ctx, ctx.sz(24, 240), &table, rep);
    rep.count("pool_seeds_generated_twice", (pool512 + pool1024) as u64);
    // the seeds with the longest key searches are where retry budgets, fallbacks and re-keying
    // logic would act: their complete single-bit neighbourhoods are generated here (the
    // separate bitflips leg covers randomly chosen base seeds)
    for s in slow512.iter().take(ctx.sz(1, 12)) {
        bitflips_v::<F512>(*s, rep);
        rep.count("bitflip_neighbourhoods_of_slowest_seeds", 1);
    }
    if ctx.thorough() {
        for s in slow1024.iter().take(6) {
            bitflips_v::<F1024>(*s, rep);
            rep.count("bitflip_neighbourhoods_of_slowest_seeds", 1);
        }
    }
    let mut s512 = seeds_for(ctx, ctx.sz(2, 30));
    s512.extend(slow512.into_iter().take(ctx.sz(4, 12)));
    let mut s1024: Vec<[u8; 32]> = seeds_for(ctx, 0).into_iter().take(1).collect();
    s1024.extend(slow1024.into_iter().take(ctx.sz(2, 8)));
    // (c) two child processes with a different environment (size, variables); they run
    // while this process does its own passes
    let exe = std::env::current_exe().expect("exe");
    let dir = std::env::temp_dir().join(format!("vf-c15-{}", std::process::id()));
    let _ = std::fs::create_dir_all(&dir);
    let mut args: Vec<String> = s512.iter().map(|s| format!("5{}", hex(s))).collect();
    args.extend(s1024.iter().map(|s| format!("A{}", hex(s))));
    let mut kids = vec![];
    // child 4 is PAUSED (SIGSTOP ... SIGCONT) for more than a minute in the middle of its key
    // generations: monotonic time jumps inside whatever it was doing (a debugger, a frozen
    // container, a suspended laptop); keys must not depend on how long anything took
    let pause_secs = ctx.sz(70, 150) as u64;
    let paused: Option<(std::process::Child, std::path::PathBuf, std::thread::JoinHandle<bool>)> = {
        let out = dir.join("child-paused.json");
        let mut cmd = std::process::Command::new(&exe);
        // Falcon-1024 seeds only, several times over: about ten seconds of key generation
        let mut pargs: Vec<String> = vec![];
        for _ in 0..3 {
            pargs.extend(s1024.iter().map(|s| format!("A{}", hex(s))));
        }
        cmd.args(["run", "C15", "child", "--seed", "1", "--out", out.to_str().unwrap(), "--"]).args(&pargs);
        cmd.env("VF_THREADS", "1");
        match cmd.spawn() {
            Ok(ch) => {
                let pid = ch.id().to_string();
                let h = std::thread::spawn(move || {
                    std::thread::sleep(std::time::Duration::from_millis(1500));
                    let stopped = std::process::Command::new("kill").args(["-STOP", &pid]).status().map(|s| s.success()).unwrap_or(false);
                    std::thread::sleep(std::time::Duration::from_secs(pause_secs));
                    let _ = std::process::Command::new("kill").args(["-CONT", &pid]).status();
                    stopped
                });
                Some((ch, out, h))
            }
            Err(_) => None,
        }
    };
    // children 2 and 3 additionally run with a restricted CPU set (one CPU; three CPUs): the
    // number of usable processors is part of the environment a key must not depend on
    let taskset = ["/usr/bin/taskset", "/bin/taskset"].iter().find(|p| std::path::Path::new(p).exists()).cloned();
    for c in 0..4 {
        let out = dir.join(format!("child-{}.json", c));
        let mut cmd = match (c, taskset) {
            (2, Some(t)) | (3, Some(t)) => {
                let mut k = std::process::Command::new(t);
                k.args(["-c", if c == 2 { "0" } else { "0-2" }]).arg(&exe);
                rep.count("children_with_restricted_cpu_set", 1);
                k
            }
            (2, None) | (3, None) => continue,
            _ => std::process::Command::new(&exe),
        };
        cmd.args(["run", "C15", "child", "--seed", "1", "--out", out.to_str().unwrap(), "--"]).args(&args);
        cmd.env("TZ", if c % 2 == 0 { "UTC" } else { "Asia/Tokyo" }).env("LANG", if c % 2 == 0 { "C" } else { "en_US.UTF-8" });
        cmd.env("VF_PADDING", "x".repeat(1 + 4097 * c)); // shifts the initial stack
        cmd.env("VF_THREADS", "1");
        match cmd.spawn() {
            Ok(ch) => kids.push((c, ch, out)),
            Err(e) => rep.inconclusive(format!("cannot spawn child: {}", e)),
        }
    }
    run_variant::<F512>(ctx, &s512, &table, rep);
    run_variant::<F1024>(ctx, &s1024, &table, rep);
    // (d) both variants from the SAME seed, back to back in one thread, against executions in
    // fresh threads: per-thread or per-process state that is keyed by the seed alone (a cache
    // shared between the parameter sets, a memo of the last key) shows up here
    let xs: Vec<[u8; 32]> = (0..ctx.sz(2, 8)).map(|i| seed32(ctx.seed, &format!("c15-cross-variant-{}", i))).collect();
    for s in &xs {
        let s = *s;
        let fresh5 = std::thread::spawn(move || fingerprint::<F512>(s)).join();
        let fresh10 = std::thread::spawn(move || fingerprint::<F1024>(s)).join();
        let inter = std::thread::spawn(move || {
            let a = fingerprint::<F512>(s);
            let b = fingerprint::<F1024>(s);
            let c = fingerprint::<F512>(s);
            let d = fingerprint::<F1024>(s);
            (a, b, c, d)
        })
        .join();
        let mut t = table.lock().unwrap();
        let mut put = |var: &str, who: &str, r: Result<Fp, String>, rep: &mut Report| {
            rep.evaluations += 1;
            match r {
                Ok(fp) => record(&mut t, var, s, who, fp),
                Err(e) => rep.violation("panic:keygen", format!("{} keygen({}) panicked in {}: {}", var, hex(&s), who, e), json!({"variant": var, "seed": hex(&s)})),
            }
        };
        if let (Ok(a), Ok(b), Ok((i1, i2, i3, i4))) = (fresh5, fresh10, inter) {
            put("falcon512", "fresh-thread", a, rep);
            put("falcon1024", "fresh-thread", b, rep);
            put("falcon512", "same-thread-before-1024-same-seed", i1, rep);
            put("falcon1024", "same-thread-right-after-512-same-seed", i2, rep);
            put("falcon512", "same-thread-right-after-1024-same-seed", i3, rep);
            put("falcon1024", "same-thread-second-time", i4, rep);
            rep.count("cross_variant_same_seed_sequences", 1);
        } else {
            rep.inconclusive("a key generation thread died".into());
        }
    }
    // (e) histories over the seeds KNOWN to take rare key-generation branches (the committed
    // regression seeds of C05/C16: their search meets a candidate whose F or G does not fit the
    // encoding and is discarded): all of them in one thread, twice over, both parameter sets in
    // both orders, against the same seeds generated alone in fresh threads. State left behind by
    // a rare branch (a fallback switched on, a flag never reset) changes what a later seed gives.
    {
        let r5: Vec<[u8; 32]> = super::c05::REGRESSION_512.iter().map(|&i| counter_seed(i)).collect();
        let r10: Vec<[u8; 32]> = super::c05::REGRESSION_1024.iter().map(|&i| counter_seed(i)).collect();
        let mut fresh: Vec<std::thread::JoinHandle<(bool, [u8; 32], Result<Fp, String>)>> = vec![];
        for s in r5.iter().cloned() {
            fresh.push(std::thread::spawn(move || (false, s, fingerprint::<F512>(s))));
        }
        for s in r10.iter().cloned() {
            fresh.push(std::thread::spawn(move || (true, s, fingerprint::<F1024>(s))));
        }
        let orders: Vec<(&str, bool)> = vec![("rare-branch history (512 seeds first)", false), ("rare-branch history (1024 seeds first)", true)];
        let mut hist = vec![];
        for (name, big_first) in orders {
            let (r5, r10) = (r5.clone(), r10.clone());
            hist.push(std::thread::spawn(move || {
                let mut out: Vec<(bool, [u8; 32], String, Result<Fp, String>)> = vec![];
                for round in 0..2 {
                    let mut run5 = |out: &mut Vec<(bool, [u8; 32], String, Result<Fp, String>)>| {
                        for s in &r5 {
                            out.push((false, *s, format!("{}, round {}", name, round), fingerprint::<F512>(*s)));
                        }
                    };
                    let mut run10 = |out: &mut Vec<(bool, [u8; 32], String, Result<Fp, String>)>| {
                        for s in &r10 {
                            out.push((true, *s, format!("{}, round {}", name, round), fingerprint::<F1024>(*s)));
                        }
                    };
                    if big_first {
                        run10(&mut out);
                        run5(&mut out);
                    } else {
                        run5(&mut out);
                        run10(&mut out);
                    }
                }
                out
            }));
        }
        let mut t = table.lock().unwrap();
        for h in fresh {
            if let Ok((big, s, Ok(fp))) = h.join() {
                record(&mut t, if big { "falcon1024" } else { "falcon512" }, s, "fresh-thread (alone)", fp);
                rep.evaluations += 1;
            }
        }
        for h in hist {
            match h.join() {
                Ok(v) => {
                    for (big, s, who, r) in v {
                        rep.evaluations += 1;
                        if let Ok(fp) = r {
                            record(&mut t, if big { "falcon1024" } else { "falcon512" }, s, &who, fp);
                        }
                    }
                    rep.count("rare_branch_histories", 1);
                }
                Err(_) => rep.inconclusive("a rare-branch history thread died".into()),
            }
        }
    }
    // (f) sign, then generate, on one thread, with signing keys whose FIRST tree leaf
    // (sigma / ||(f,g)||, the width of the last sampler call of every signature) is steered onto
    // the width key generation itself samples with (1.43300980528773): the keys are made by
    // the scripted key generator of C04 from (f,g) shrunk to a chosen squared norm (the value
    // that makes the leaf equal to that constant, and its neighbours). State that the sampler
    // keeps from its last call must not leak into the next key generation.
    {
        fn steered<V: Fv>(ctx: &Ctx, table: &Mutex<HashMap<(String, [u8; 32]), Vec<(String, Fp)>>>, seeds: &[[u8; 32]], rep: &mut Report) {
            let sigma_star = 1.43300980528773f64;
            let centre = ((V::SIGMA / sigma_star).powi(2)).round() as i64;
            let (keys, _) = crate::pool::keys::<V>(ctx.seed, "c15-leaf", 1);
            let k = match keys.first() {
                Some(k) => k,
                None => return,
            };
            let b0 = V::basis(&k.sk);
            let g0: Vec<i64> = b0[0].iter().map(|&x| x as i64).collect();
            let f0: Vec<i64> = b0[1].iter().map(|&x| -(x as i64)).collect();
            let done: Mutex<std::collections::HashSet<i64>> = Mutex::new(std::collections::HashSet::new());
            let r = par_for(5 * 4, ncpu(), |job, rep| {
                let di = job % 5;
                let attempt = job / 5;
                let target = centre + di as i64 - 2;
                if done.lock().unwrap().contains(&target) {
                    return;
                }
                // a candidate (f,g) with EXACTLY this squared norm that the generator will accept:
                // small norms only pass the Gram-Schmidt test if the spectrum |f^|^2 + |g^|^2 is
                // unusually flat, so a random start is hill-climbed (unit moves between two
                // coefficients that keep the norm) on q^2 mean(1/D) until it is below the bound
                use rand::Rng;
                let n = V::N;
                let mut rng = crate::util::rng_for(ctx.seed, &format!("c15-leaf-search-{}-{}-{}", V::NAME, di, attempt));
                let sig = (target as f64 / (2 * n) as f64).sqrt();
                let gauss = |rng: &mut rand_chacha::ChaCha20Rng| -> i64 {
                    let u1: f64 = rng.gen::<f64>().max(1e-300);
                    let u2: f64 = rng.gen();
                    ((-2.0 * u1.ln()).sqrt() * (2.0 * std::f64::consts::PI * u2).cos() * sig).round() as i64
                };
                let mut v: Vec<i64> = (0..2 * n).map(|_| gauss(&mut rng)).collect();
                let nrm = |v: &Vec<i64>| v.iter().map(|x| x * x).sum::<i64>();
                let mut guard = 0;
                while nrm(&v) != target && guard < 2_000_000 {
                    guard += 1;
                    let cur = nrm(&v);
                    let i = rng.gen_range(0..2 * n);
                    if cur > target && v[i] != 0 && cur - (2 * v[i].abs() - 1) >= target {
                        v[i] -= v[i].signum();
                    } else if cur < target && cur + 2 * v[i].abs() + 1 <= target {
                        v[i] += if v[i] != 0 { v[i].signum() } else { 1 };
                    }
                }
                if nrm(&v) != target {
                    rep.count("leaf_steering_norm_not_reached", 1);
                    return;
                }
                // spectrum at the roots exp(i pi (2k+1)/n)
                let ang = |k: usize, j: usize| std::f64::consts::PI * ((2 * k + 1) * j) as f64 / n as f64;
                let mut fr = vec![(0.0f64, 0.0f64); n];
                let mut gr = vec![(0.0f64, 0.0f64); n];
                for k in 0..n {
                    for j in 0..n {
                        let (c, s_) = (ang(k, j).cos(), ang(k, j).sin());
                        fr[k].0 += v[j] as f64 * c;
                        fr[k].1 += v[j] as f64 * s_;
                        gr[k].0 += v[n + j] as f64 * c;
                        gr[k].1 += v[n + j] as f64 * s_;
                    }
                }
                let q = 12289.0f64;
                let cost = |fr: &Vec<(f64, f64)>, gr: &Vec<(f64, f64)>| q * q * (0..n).map(|k| 1.0 / (fr[k].0 * fr[k].0 + fr[k].1 * fr[k].1 + gr[k].0 * gr[k].0 + gr[k].1 * gr[k].1)).sum::<f64>() / n as f64;
                let mut c = cost(&fr, &gr);
                let goal = 1.3689 * q - 25.0;
                for _ in 0..400_000 {
                    if c <= goal {
                        break;
                    }
                    let (a, b) = (rng.gen_range(0..2 * n), rng.gen_range(0..2 * n));
                    if a == b || v[a].abs() != v[b].abs() + 1 {
                        continue;
                    }
                    let sa = -v[a].signum();
                    let sb = if v[b] != 0 { v[b].signum() } else if rng.gen() { 1 } else { -1 };
                    let (mut f2, mut g2) = (fr.clone(), gr.clone());
                    for (idx, sg) in [(a, sa), (b, sb)] {
                        let j = idx % n;
                        for k in 0..n {
                            let (cc, ss) = (ang(k, j).cos() * sg as f64, ang(k, j).sin() * sg as f64);
                            if idx < n {
                                f2[k].0 += cc;
                                f2[k].1 += ss;
                            } else {
                                g2[k].0 += cc;
                                g2[k].1 += ss;
                            }
                        }
                    }
                    let c2 = cost(&f2, &g2);
                    if c2 < c {
                        v[a] += sa;
                        v[b] += sb;
                        fr = f2;
                        gr = g2;
                        c = c2;
                    }
                }
                if c > goal {
                    rep.count("leaf_steering_search_gave_up", 1);
                    return;
                }
                let (f, g): (Vec<i64>, Vec<i64>) = (v[..n].to_vec(), v[n..].to_vec());
                let made = super::c04::scripted_key::<V>(ctx.seed, &format!("c15-leaf-{}-{}-{}", V::NAME, di, attempt), &[(f.clone(), g.clone()), (f0.clone(), g0.clone())]);
                let (fo, go, sk, _pk) = match made {
                    Some(x) => x,
                    None => return,
                };
                if fo != f || go != g {
                    // the steered candidate was not accepted by the generator (its own checks)
                    rep.count("leaf_steered_candidate_not_accepted", 1);
                    return;
                }
                if !done.lock().unwrap().insert(target) {
                    return;
                }
                rep.count(&format!("leaf_steered_key_{}_norm_{}", V::NAME, target), 1);
                let first_leaf = V::leaves(&sk)[0][0].0;
                rep.stat_min(&format!("closest_first_leaf_to_keygen_sigma_{}", V::NAME), (first_leaf - sigma_star).abs());
                let seeds = seeds.to_vec();
                let label = format!("right after signing with a key whose first leaf is {:.7} ({}, ||(f,g)||^2 = {})", first_leaf, V::NAME, target);
                let got = std::thread::spawn(move || {
                    let mut out = vec![];
                    for s in seeds {
                        let _ = monitored(|| V::sign(b"leaf", &sk));
                        out.push((false, s, fingerprint::<F512>(s)));
                        let _ = monitored(|| V::sign(b"leaf", &sk));
                        out.push((true, s, fingerprint::<F1024>(s)));
                    }
                    out
                })
                .join();
                if let Ok(v) = got {
                    let mut t = table.lock().unwrap();
                    for (big, s, r) in v {
                        rep.evaluations += 1;
                        if let Ok(fp) = r {
                            record(&mut t, if big { "falcon1024" } else { "falcon512" }, s, &label, fp);
                        }
                    }
                    rep.count("sign_then_keygen_histories_with_leaf_steered_keys", 1);
                }
            });
            rep.merge(r);
        }
        steered::<F1024>(ctx, &table, &xs, rep);
        steered::<F512>(ctx, &table, &xs, rep);
    }
    // (g) key generation of BOTH parameter sets at the same time, next to threads that run the
    // key generator's core at tiny degrees in a tight loop (process-wide tables or caches that
    // depend on the degree are replaced constantly): every key must equal its quiet-time value
    {
        let stop = Arc::new(std::sync::atomic::AtomicBool::new(false));
        let mut churn = vec![];
        for t in 0..20usize {
            let stop = stop.clone();
            let vseed = ctx.seed;
            churn.push(std::thread::spawn(move || {
                let mut rng = crate::util::rng_for(vseed, &format!("c15-churn-{}", t));
                let mut made = 0u64;
                while !stop.load(std::sync::atomic::Ordering::Relaxed) {
                    let n = [4usize, 8, 4, 8, 16][(made as usize + t) % 5];
                    let _ = monitored(|| falcon_rust::math::ntru_gen(n, &mut rng));
                    made += 1;
                }
                made
            }));
        }
        let mut workers = vec![];
        let rounds512 = ctx.sz(10, 6); // the thorough tier has seven times as many pool seeds
        for t in 0..6usize {
            // four threads on Falcon-512 (cheap: many executions), two on Falcon-1024
            let big = t >= 4;
            let seeds = if big { s1024.clone() } else { s512.clone() };
            let rounds = if big { 1 } else { rounds512 };
            workers.push(std::thread::spawn(move || {
                let mut out = vec![];
                for round in 0..rounds {
                    for s in &seeds {
                        out.push((big, *s, format!("next to concurrent key generation at other degrees (thread {}, round {})", t, round), if big { fingerprint::<F1024>(*s) } else { fingerprint::<F512>(*s) }));
                    }
                }
                out
            }));
        }
        for w in workers {
            if let Ok(v) = w.join() {
                let mut tb = table.lock().unwrap();
                for (big, s, who, r) in v {
                    rep.evaluations += 1;
                    if let Ok(fp) = r {
                        record(&mut tb, if big { "falcon1024" } else { "falcon512" }, s, &who, fp);
                        rep.count("keys_generated_next_to_other_degrees", 1);
                    }
                }
            }
        }
        stop.store(true, std::sync::atomic::Ordering::Relaxed);
        let mut total = 0;
        for c in churn {
            total += c.join().unwrap_or(0);
        }
        rep.count("tiny_degree_key_generations_run_concurrently", total);
    }
    for (c, mut ch, out) in kids {
        let st = ch.wait();
        let text = std::fs::read_to_string(&out).unwrap_or_default();
        let v: Value = serde_json::from_str(&text).unwrap_or(Value::Null);
        match v["samples"].as_array() {
            Some(a) if st.map(|s| s.success()).unwrap_or(false) => {
                for e in a {
                    let var = if e["variant"] == "5" { "falcon512" } else { "falcon1024" };
                    let mut s = [0u8; 32];
                    s.copy_from_slice(&unhex(e["seed"].as_str().unwrap()));
                    let f: Vec<u64> = e["fp"].as_array().unwrap().iter().map(|x| x.as_str().unwrap().parse().unwrap()).collect();
                    rep.evaluations += 1;
                    if f.len() == 4 {
                        record(&mut table.lock().unwrap(), var, s, &format!("process-{}{}", c, ["", "", " (CPU set 0)", " (CPU set 0-2)"][c.min(3)]), (f[0], f[1], f[2] as usize, f[3] as usize));
                    } else {
                        rep.violation("panic:keygen", format!("{} keygen({}) failed in child process {}", var, hex(&s), c), json!({"variant": var, "seed": hex(&s)}));
                    }
                }
                rep.count("child_processes", 1);
            }
            _ => rep.inconclusive(format!("child process {} produced no output", c)),
        }
    }
    if let Some((mut ch, out, h)) = paused {
        let stopped = h.join().unwrap_or(false);
        let st = ch.wait();
        let text = std::fs::read_to_string(&out).unwrap_or_default();
        let v: Value = serde_json::from_str(&text).unwrap_or(Value::Null);
        match v["samples"].as_array() {
            Some(a) if st.map(|s| s.success()).unwrap_or(false) && stopped => {
                for e in a {
                    let mut s = [0u8; 32];
                    s.copy_from_slice(&unhex(e["seed"].as_str().unwrap()));
                    let f: Vec<u64> = e["fp"].as_array().unwrap().iter().map(|x| x.as_str().unwrap().parse().unwrap()).collect();
                    rep.evaluations += 1;
                    if f.len() == 4 {
                        record(&mut table.lock().unwrap(), "falcon1024", s, &format!("process paused for {} s in the middle of its key generations", pause_secs), (f[0], f[1], f[2] as usize, f[3] as usize));
                    }
                }
                rep.count("paused_child_processes", 1);
            }
            _ => rep.inconclusive("the paused child process produced no output (or could not be stopped)".into()),
        }
    }
    let _ = std::fs::remove_dir_all(&dir);
    // the history check: all executions of one seed agree
    let t = table.lock().unwrap();
    for ((var, seed), runs) in t.iter() {
        let first = &runs[0];
        for r in runs.iter().skip(1) {
            if r.1 != first.1 {
                rep.violation(
                    "keygen:not-deterministic",
                    format!("{} keygen({}) gave different keys in {} and {}", var, hex(seed), first.0, r.0),
                    json!({"variant": var, "seed": hex(seed), "contexts": [first.0, r.0]}),
                );
                break;
            }
        }
        rep.count("seeds_with_history", 1);
        rep.count("executions_compared", runs.len() as u64);
        rep.nontrivial(format!("{}|{}", var, hex(seed)).as_bytes());
    }
    if let Some(((var, seed), runs)) = t.iter().next() {
        rep.sample(json!({"variant": var, "seed": hex(seed), "executions": runs.iter().map(|r| r.0.clone()).collect::<Vec<_>>(), "all_identical": runs.iter().all(|r| r.1 == runs[0].1)}));
    }
    rep.require("child_processes", 2);
    rep.require("paused_child_processes", 1);
    rep.require("seeds_with_history", 5);
}

fn bitflips_v<V: Fv>(base: [u8; 32], rep: &mut Report) {
    let fps: Mutex<Vec<(usize, Result<Fp, String>)>> = Mutex::new(vec![]);
    par_for(257, ncpu(), |i, _| {
        let mut s = base;
        if i > 0 {
            let b = i - 1;
            s[b / 8] ^= 1 << (b % 8);
        }
        let r = fingerprint::<V>(s);
        fps.lock().unwrap().push((i, r));
    });
    let mut v = fps.into_inner().unwrap();
    v.sort_by_key(|x| x.0);
    let mut by_sk: HashMap<u64, usize> = HashMap::new();
    let mut by_pk: HashMap<u64, usize> = HashMap::new();
    for (i, r) in v {
        rep.evaluations += 1;
        let replay = json!({"variant": V::NAME, "seed": hex(&base), "flip": i as i64 - 1});
        match r {
            Err(e) => rep.violation("panic:keygen", format!("{} keygen panicked for seed {} with bit {} flipped: {}", V::NAME, hex(&base), i as i64 - 1, e), replay),
            Ok(fp) => {
                if let Some(j) = by_sk.insert(fp.0, i) {
                    rep.violation("keygen:seed-bit-ignored", format!("{}: seed {} with bit {} flipped gives the same secret key as with bit {} flipped (-1 = unflipped)", V::NAME, hex(&base), i as i64 - 1, j as i64 - 1), replay.clone());
                }
                if let Some(j) = by_pk.insert(fp.1, i) {
                    rep.violation("keygen:seed-bit-ignored", format!("{}: seed {} with bit {} flipped gives the same public key as with bit {} flipped (-1 = unflipped)", V::NAME, hex(&base), i as i64 - 1, j as i64 - 1), replay);
                }
                rep.nontrivial(format!("flip|{}|{}|{}", V::NAME, hex(&base[..4]), i).as_bytes());
            }
        }
    }
    rep.count("bitflip_neighbourhoods", 1);
}

pub fn bitflips(ctx: &Ctx, rep: &mut Report) {
    if !crate::pool::keygen_responds::<F512>() {
        rep.inconclusive("key generation did not return within 180 s (canary); reported as inconclusive, never as a violation".into());
        return;
    }
    for i in 0..ctx.sz(1, 4) {
        bitflips_v::<F512>(seed32(ctx.seed, &format!("c15-flip-{}", i)), rep);
    }
    if ctx.thorough() {
        bitflips_v::<F1024>(seed32(ctx.seed, "c15-flip-1024"), rep);
        bitflips_v::<F512>([0u8; 32], rep);
    }
    rep.sample(json!({"base_seed": hex(&seed32(ctx.seed, "c15-flip-0")), "neighbours": 256, "requirement": "257 pairwise distinct secret keys and public keys"}));
    rep.require("bitflip_neighbourhoods", 1);
}

pub fn replay(r: &Value) -> bool {
    let mut s = [0u8; 32];
    s.copy_from_slice(&unhex(r["seed"].as_str().unwrap()));
    let f = |s: [u8; 32]| if r["variant"] == "falcon512" { fingerprint::<F512>(s) } else { fingerprint::<F1024>(s) };
    if let Some(fl) = r["flip"].as_i64() {
        let mut rep = Report::new();
        if r["variant"] == "falcon512" { bitflips_v::<F512>(s, &mut rep) } else { bitflips_v::<F1024>(s, &mut rep) }
        let _ = fl;
        return crate::util::print_replay(&rep);
    }
    let a = f(s);
    let b = std::thread::spawn(move || if true { Some(()) } else { None }).join().map(|_| f(s));
    println!("two executions: {:?} / {:?}", a, b);
    matches!((a, b), (Ok(x), Ok(Ok(y))) if x == y)
}
