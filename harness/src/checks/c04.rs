//! C04: every generated key pair is a valid NTRU trapdoor with in-range tree leaves.

use serde_json::{json, Value};

use crate::fv::{Fv, F1024, F512};
use crate::refs::fl;
use crate::refs::sampler::SIGMA_MAX;
use crate::refs::spec::{self, Q};
use crate::util::{counter_seed, hex, monitored, ncpu, par_for, seed32, short_loc, unhex, Ctx, Report};

thread_local! {
    /// (harness seed, history index) while a call history runs on this thread
    static HISTORY: std::cell::Cell<Option<(u64, usize)>> = std::cell::Cell::new(None);
}

pub fn check_key<V: Fv>(seed: [u8; 32], gso: bool, rep: &mut Report) {
    rep.evaluations += 1;
    let replay = || match HISTORY.with(|h| h.get()) {
        None => json!({"variant": V::NAME, "seed": hex(&seed), "gso": gso}),
        Some((vs, hi)) => json!({"variant": V::NAME, "seed": hex(&seed), "gso": gso, "history": [vs, hi]}),
    };
    let (sk, pk) = match monitored(|| V::keygen(seed)) {
        Ok(k) => k,
        Err(p) => {
            rep.violation(&format!("panic:keygen@{}", short_loc(&p.location)), format!("{} keygen panicked: {}", V::NAME, p.message), replay());
            return;
        }
    };
    check_parts::<V>(&sk, &pk, &seed, gso, &replay, rep);
}

/// All oracles on one key pair, however it was produced.
pub fn check_parts<V: Fv>(sk: &V::Sk, pk: &V::Pk, seed: &[u8], gso: bool, replay: &dyn Fn() -> Value, rep: &mut Report) {
    let n = V::N;
    let b0 = V::basis(sk);
    if b0.iter().any(|p| p.len() != n) {
        rep.violation("key:wrong-degree", format!("{}: basis polynomials have lengths {:?}", V::NAME, b0.iter().map(|p| p.len()).collect::<Vec<_>>()), replay());
        return;
    }
    let g: Vec<i64> = b0[0].iter().map(|&x| x as i64).collect();
    let f: Vec<i64> = b0[1].iter().map(|&x| -(x as i64)).collect();
    let cg: Vec<i64> = b0[2].iter().map(|&x| x as i64).collect();
    let cf: Vec<i64> = b0[3].iter().map(|&x| -(x as i64)).collect();
    // f G - g F = q exactly over Z[X]/(X^n+1)
    let fg = spec::negamul_z(&f, &cg);
    let gf = spec::negamul_z(&g, &cf);
    let ok = (0..n).all(|i| fg[i] - gf[i] == if i == 0 { Q as i128 } else { 0 });
    if !ok {
        let i = (0..n).find(|&i| fg[i] - gf[i] != if i == 0 { Q as i128 } else { 0 }).unwrap();
        rep.violation("key:ntru-equation-fails", format!("{}: (fG - gF)[{}] = {} for seed {}", V::NAME, i, fg[i] - gf[i], hex(&seed[..8])), replay());
    }
    // layout of the basis against the serialised key (a sign or order slip is visible here)
    let skb = V::sk_to_bytes(&sk);
    match spec::sk_decode(&skb, n) {
        Some((f2, g2, cf2)) => {
            if f2 != f || g2 != g || cf2 != cf {
                rep.violation("key:basis-layout-differs-from-encoding", format!("{}: (f,g,F) read from the basis as [g,-f,G,-F] differ from the serialised key", V::NAME), replay());
            }
        }
        None => rep.count("sk_not_decodable_by_reference", 1), // C05's business
    }
    // public key: h f = g (mod q), f invertible
    let pkb = V::pk_to_bytes(&pk);
    let h = spec::pk_fields(&pkb[1..]);
    if h.len() != n || h.iter().any(|&x| x >= Q) {
        rep.violation("key:public-key-fields", format!("{}: public key has {} fields / a field >= q", V::NAME, h.len()), replay());
        return;
    }
    let hf = spec::negamul_mod(&h, &f);
    if hf != g.iter().map(|&x| spec::modq(x)).collect::<Vec<_>>() {
        rep.violation("key:h-times-f-is-not-g", format!("{}: h*f != g mod q", V::NAME), replay());
    }
    if spec::ring_inverse(&f).is_none() {
        rep.violation("key:f-not-invertible", format!("{}: f is not invertible modulo q", V::NAME), replay());
    }
    // leaves
    let leaves = V::leaves(&sk);
    if leaves.len() != n {
        rep.violation("tree:leaf-count", format!("{}: {} leaves", V::NAME, leaves.len()), replay());
        return;
    }
    let (lo, hi) = (V::SIGMIN * (1.0 - 1e-9), SIGMA_MAX * (1.0 + 1e-9));
    let mut logsum = 0.0;
    let mut bad: Option<(usize, f64)> = None;
    let (mut mn, mut mx) = (f64::INFINITY, 0.0f64);
    for (i, l) in leaves.iter().enumerate() {
        let v = l[0].0;
        if !(v >= lo && v <= hi) || l[0].1 != 0.0 {
            bad.get_or_insert((i, v));
        }
        mn = mn.min(v);
        mx = mx.max(v);
        logsum += 2.0 * (V::SIGMA / v).ln();
    }
    rep.stat_min(&format!("leaf_{}_min", V::NAME), mn);
    rep.stat_max(&format!("leaf_max_{}", V::NAME), mx);
    if let Some((i, v)) = bad {
        rep.violation("tree:leaf-out-of-range", format!("{}: leaf {} = {} outside [{}, {}]", V::NAME, i, v, V::SIGMIN, SIGMA_MAX), replay());
    }
    // product of all Gram-Schmidt norms = det = q^n
    let want = n as f64 * (Q as f64).ln();
    let rel = ((logsum - want) / want).abs();
    rep.stat_max("gs_product_rel_err", rel);
    if !(rel < 1e-6) {
        rep.violation("tree:gram-schmidt-product", format!("{}: sum of 2 ln(sigma/leaf) = {} but n ln q = {}", V::NAME, logsum, want), replay());
    }
    // first Gram-Schmidt vector is (g, -f) itself
    let n0: f64 = g.iter().chain(f.iter()).map(|&x| (x * x) as f64).sum::<f64>().sqrt();
    let l0 = V::SIGMA / n0;
    if ((leaves[0][0].0 - l0) / l0).abs() > 1e-9 {
        rep.violation("tree:first-leaf", format!("{}: first leaf {} but sigma/||(g,-f)|| = {}", V::NAME, leaves[0][0].0, l0), replay());
    }
    if gso {
        // independent f64 Gram-Schmidt of the 2n x 2n basis in the tree's row order
        let rows = fl::basis_rows_tree_order(&b0);
        let (_, gsn) = fl::gram_schmidt(&rows);
        let mut worst = 0.0f64;
        for i in 0..n {
            let e0 = V::SIGMA / gsn[2 * i].sqrt();
            let e1 = V::SIGMA / gsn[2 * i + 1].sqrt();
            let v = leaves[i][0].0;
            worst = worst.max(((v - e0) / e0).abs()).max(((v - e1) / e1).abs());
        }
        rep.stat_max("gso_leaf_rel_err", worst);
        rep.count("keys_with_independent_gso", 1);
        if !(worst < 1e-7) {
            rep.violation("tree:leaves-differ-from-gram-schmidt", format!("{}: leaves differ from an independent Gram-Schmidt by {:e} relative", V::NAME, worst), replay());
        }
    }
    rep.count(&format!("keys_{}", V::NAME), 1);
    rep.nontrivial(&seed);
}

/// Call histories: each history runs in a FRESH thread and mixes the two parameter sets and the
/// ways a secret key object comes into being (keygen, from_bytes), so that per-thread state
/// carried from one key to the next (a cached parameter, a memoised tree) is exercised in both
/// orders. Every key generated inside a history gets the full set of oracles.
fn histories(ctx: &Ctx, rep: &mut Report) {
    let h = ctx.sz(16, 96);
    let r = par_for(h, ncpu(), |hi, rep| run_history(ctx.seed, hi, rep));
    rep.merge(r);
    rep.require("histories_512_then_1024", 2);
    rep.require("histories_1024_then_512", 2);
}

fn run_history(vseed: u64, hi: usize, rep: &mut Report) {
    {
        let out = std::thread::scope(|s| {
            s.spawn(move || {
                let mut rep = Report::new();
                HISTORY.with(|h| h.set(Some((vseed, hi))));
                let sd = |step: usize| seed32(vseed, &format!("c04-hist-{}-{}", hi, step));
                fn decode_first<V: Fv>(seed: [u8; 32], rep: &mut Report) {
                    // a key of this variant is decoded from bytes (produced in another thread)
                    let bytes = std::thread::spawn(move || monitored(|| V::sk_to_bytes(&V::keygen(seed).0)).ok()).join().ok().flatten();
                    if let Some(b) = bytes {
                        let _ = monitored(|| V::sk_from_bytes(&b).map(|k| V::leaves(&k).len()));
                        rep.count("history_steps_decode", 1);
                    }
                }
                match hi % 6 {
                    0 => {
                        check_key::<F512>(sd(0), false, &mut rep);
                        check_key::<F1024>(sd(1), false, &mut rep);
                        rep.count("histories_512_then_1024", 1);
                    }
                    1 => {
                        check_key::<F1024>(sd(0), false, &mut rep);
                        check_key::<F512>(sd(1), false, &mut rep);
                        rep.count("histories_1024_then_512", 1);
                    }
                    2 => {
                        decode_first::<F512>(sd(0), &mut rep);
                        check_key::<F1024>(sd(1), false, &mut rep);
                        check_key::<F512>(sd(2), false, &mut rep);
                        rep.count("histories_decode512_then_1024", 1);
                    }
                    3 => {
                        decode_first::<F1024>(sd(0), &mut rep);
                        check_key::<F512>(sd(1), false, &mut rep);
                        check_key::<F1024>(sd(2), false, &mut rep);
                        rep.count("histories_decode1024_then_512", 1);
                    }
                    4 => {
                        // sign with one variant, then generate the other
                        let (sk, _) = F512::keygen(sd(0));
                        let _ = monitored(|| F512::sign(b"history", &sk));
                        check_key::<F1024>(sd(1), false, &mut rep);
                        check_key::<F1024>(sd(2), false, &mut rep);
                        rep.count("histories_sign512_then_1024", 1);
                    }
                    _ => {
                        for step in 0..4 {
                            if (hi / 6 + step) % 2 == 0 {
                                check_key::<F512>(sd(step), false, &mut rep);
                            } else {
                                check_key::<F1024>(sd(step), false, &mut rep);
                            }
                        }
                        rep.count("histories_alternating", 1);
                    }
                }
                rep
            })
            .join()
        });
        match out {
            Ok(r) => rep.merge(r),
            Err(_) => rep.inconclusive("a history thread died".into()),
        }
    }
}

/// Key candidates with a PLANTED out-of-range coefficient: `math::ntru_gen` (the core of key
/// generation, public) is driven by a scripted generator whose first samples are forced to a
/// chosen value, so that the first coefficient of the first candidate f is +-16 (Falcon-1024)
/// / +-32 (Falcon-512), just outside the secret-key field range, with everything else honest.
/// A correct generator discards or repairs such a candidate AND re-validates; whatever key it
/// finally returns gets all oracles (through the byte encoding, which is how a key reaches a
/// SecretKey object from outside).
/// A key pair from `math::ntru_gen` under the planted-candidate generator (see
/// steered_candidates), imported through the byte encoding. None if the generator did not
/// return a representable key.
pub fn planted_key<V: Fv>(vseed: u64, i: usize) -> Option<(V::Sk, V::Pk)> {
    use falcon_rust::verif_hooks as vh;
    use rand::Rng;
    let mut rng = crate::util::rng_for(vseed, "c04-plant-base");
    let mut find = |want: i16| -> [u8; 9] {
        loop {
            let b: [u8; 9] = rng.gen();
            if vh::sampler::base_sampler(b) == want {
                return b;
            }
        }
    };
    let (b3, b4) = (find(3), find(4));
    let (base, sign) = if i % 2 == 0 { (b3, 1u8) } else { (b4, 0u8) };
    let strat = crate::gen::Strategy::PlantPerCandidate { groups: 4096 / V::N as u64, base, sign, every: 2 };
    let mut srng = crate::gen::ScriptedRng::new(vseed, &format!("c04-plant-{}-{}", V::NAME, i), strat, 400_000_000);
    vh::take_keygen_candidates();
    let out = monitored(move || {
        let (f, g, cf, _cg) = falcon_rust::math::ntru_gen(V::N, &mut srng);
        (f.coefficients, g.coefficients, cf.coefficients)
    });
    vh::take_keygen_candidates();
    let (f, g, cf) = out.ok()?;
    let to64 = |v: &Vec<i16>| v.iter().map(|&x| x as i64).collect::<Vec<i64>>();
    let (w, _) = spec::sk_widths(V::N);
    let lim = (1i64 << (w - 1)) - 1;
    if to64(&f).iter().chain(to64(&g).iter()).any(|x| x.abs() > lim) || to64(&cf).iter().any(|x| x.abs() > 127) {
        return None;
    }
    let sk = monitored(|| V::sk_from_bytes(&spec::sk_encode(&to64(&f), &to64(&g), &to64(&cf)))).ok()?.ok()?;
    let pk = V::pk_from_sk(&sk);
    Some((sk, pk))
}

/// Key generation (`math::ntru_gen`) under a generator that dictates every sample of the given
/// candidates (f, g), in order; honest afterwards. Returns the polynomials of the key that comes
/// out and the key imported through its byte encoding. None if the construction is not
/// possible (coefficients too large for the sample script) or the result is not representable.
pub fn scripted_key<V: Fv>(vseed: u64, label: &str, cands: &[(Vec<i64>, Vec<i64>)]) -> Option<(Vec<i64>, Vec<i64>, V::Sk, V::Pk)> {
    use falcon_rust::verif_hooks as vh;
    use rand::Rng;
    let n = V::N;
    let mut rng = crate::util::rng_for(vseed, "c04-script-bytes");
    let mut bytes: Vec<[u8; 9]> = vec![];
    for want in 0..=5i16 {
        let mut tries = 0u64;
        loop {
            let b: [u8; 9] = rng.gen();
            if vh::sampler::base_sampler(b) == want {
                bytes.push(b);
                break;
            }
            tries += 1;
            if tries > 50_000_000 {
                return None;
            }
        }
    }
    let per = 4096 / n;
    let mut values: Vec<i16> = vec![];
    for (f, g) in cands {
        for p in [f, g] {
            for &c in p.iter() {
                let mut rest = c;
                for s_ in 0..per {
                    let left = (per - s_) as i64;
                    let part = if rest >= 0 { (rest + left - 1) / left } else { -((-rest + left - 1) / left) };
                    values.push(part as i16);
                    rest -= part;
                }
            }
        }
    }
    if values.iter().any(|v| v.abs() > 5) {
        return None;
    }
    let strat = crate::gen::Strategy::ScriptSamples { values, bytes };
    let mut srng = crate::gen::ScriptedRng::new(vseed, label, strat, 400_000_000);
    vh::take_keygen_candidates();
    let out = monitored(move || {
        let (fo, go, cfo, _cg) = falcon_rust::math::ntru_gen(n, &mut srng);
        (fo.coefficients, go.coefficients, cfo.coefficients)
    });
    vh::take_keygen_candidates();
    let (fo, go, cfo) = out.ok()?;
    let to64 = |v: &Vec<i16>| v.iter().map(|&x| x as i64).collect::<Vec<i64>>();
    let (w, _) = spec::sk_widths(n);
    let lim = (1i64 << (w - 1)) - 1;
    if to64(&fo).iter().chain(to64(&go).iter()).any(|x| x.abs() > lim) || to64(&cfo).iter().any(|x| x.abs() > 127) {
        return None;
    }
    let sk = monitored(|| V::sk_from_bytes(&spec::sk_encode(&to64(&fo), &to64(&go), &to64(&cfo)))).ok()?.ok()?;
    let pk = V::pk_from_sk(&sk);
    Some((to64(&fo), to64(&go), sk, pk))
}

/// COMPLETE planted candidates: the scripted generator dictates every sample of the first
/// candidate (f', g) and of the second one (f, g), where (f, g) belongs to a valid key and f'
/// differs from f in two coefficients so that f' VANISHES at one chosen slot of the crate's
/// NTT (f' is not invertible modulo q, in exactly one slot). A correct generator discards the
/// first candidate and returns the key of the second; the slots include the first and last few.
fn vanishing_candidates<V: Fv>(ctx: &Ctx, rep: &mut Report) {
    use falcon_rust::verif_hooks as vh;
    use rand::Rng;
    let n = V::N;
    let q = Q;
    let (keys, _bad) = crate::pool::keys::<V>(ctx.seed, "c04-vanish", 2);
    if keys.is_empty() {
        return;
    }
    let mut rng = crate::util::rng_for(ctx.seed, "c04-vanish-bytes");
    let mut bytes: Vec<[u8; 9]> = vec![];
    for want in 0..=5i16 {
        let mut tries = 0u64;
        loop {
            let b: [u8; 9] = rng.gen();
            if vh::sampler::base_sampler(b) == want {
                bytes.push(b);
                break;
            }
            tries += 1;
            if tries > 50_000_000 {
                rep.inconclusive("no base-sampler bytes found for a small z0".into());
                return;
            }
        }
    }
    // evaluation points of the crate's transform, in its slot order
    let mut xm = vec![0i16; n];
    xm[1] = 1;
    let roots: Vec<i64> = match monitored(|| vh::ntt(&xm)) {
        Ok(v) => v.iter().map(|&x| x as i64).collect(),
        Err(_) => return,
    };
    let (w, _) = spec::sk_widths(n);
    let lim = (1i64 << (w - 1)) - 1;
    let per = 4096 / n;
    let mut slots: Vec<usize> = vec![0, 1, 2, n / 2 - 1, n / 2, n - 3, n - 2, n - 1];
    for _ in 0..ctx.sz(8, 120) {
        slots.push(rng.gen_range(0..n));
    }
    let jobs: Vec<(usize, usize)> = slots.iter().enumerate().map(|(i, &s)| (i % keys.len(), s)).collect();
    let r = par_for(jobs.len(), ncpu(), |ji, rep| {
        let (ki, slot) = jobs[ji];
        let k = &keys[ki];
        let b0 = V::basis(&k.sk);
        let g: Vec<i64> = b0[0].iter().map(|&x| x as i64).collect();
        let f: Vec<i64> = b0[1].iter().map(|&x| -(x as i64)).collect();
        let r = roots[slot];
        // powers of r and the value f(r)
        let mut pw = Vec::with_capacity(n);
        let mut p = 1i64;
        for _ in 0..n {
            pw.push(p);
            p = p * r % q;
        }
        let idx: std::collections::HashMap<i64, usize> = pw.iter().enumerate().map(|(i, &v)| (v, i)).collect();
        let v = (0..n).fold(0i64, |a, i| (a + spec::modq(f[i]) * pw[i]) % q);
        // f' = f + da x^a + db x^b with f'(r) = 0, small deltas, coefficients in range
        let mut best: Option<(i64, usize, i64, usize, i64)> = None;
        for a in 0..n {
            for da in [-2i64, -1, 1, 2] {
                if (f[a] + da).abs() > lim {
                    continue;
                }
                let need = spec::modq(-v - da * pw[a]);
                for db in [-2i64, -1, 1, 2] {
                    let t = need * spec::powm(spec::modq(db), q - 2) % q;
                    if let Some(&b) = idx.get(&t) {
                        if b != a && (f[b] + db).abs() <= lim {
                            // change of the squared norm
                            let cost = (f[a] + da).pow(2) - f[a].pow(2) + (f[b] + db).pow(2) - f[b].pow(2);
                            if best.map(|x| cost < x.0).unwrap_or(true) {
                                best = Some((cost, a, da, b, db));
                            }
                        }
                    }
                }
            }
        }
        let (_, a, da, b, db) = match best {
            Some(x) => x,
            None => return,
        };
        let mut f2 = f.clone();
        f2[a] += da;
        f2[b] += db;
        // every second job: g is changed the same way, so that f' and g' share that root modulo q
        // (h f = g can then hold although f is not invertible; the resultants share the factor q)
        let mut g = g;
        let both = ji % 2 == 1;
        if both {
            let vg = (0..n).fold(0i64, |acc, i| (acc + spec::modq(g[i]) * pw[i]) % q);
            let mut bestg: Option<(i64, usize, i64, usize, i64)> = None;
            for a2 in 0..n {
                for da2 in [-2i64, -1, 1, 2] {
                    if (g[a2] + da2).abs() > lim {
                        continue;
                    }
                    let need = spec::modq(-vg - da2 * pw[a2]);
                    for db2 in [-2i64, -1, 1, 2] {
                        let t = need * spec::powm(spec::modq(db2), q - 2) % q;
                        if let Some(&b2) = idx.get(&t) {
                            if b2 != a2 && (g[b2] + db2).abs() <= lim {
                                let cost = (g[a2] + da2).pow(2) - g[a2].pow(2) + (g[b2] + db2).pow(2) - g[b2].pow(2);
                                if bestg.map(|x| cost < x.0).unwrap_or(true) {
                                    bestg = Some((cost, a2, da2, b2, db2));
                                }
                            }
                        }
                    }
                }
            }
            match bestg {
                Some((_, a2, da2, b2, db2)) => {
                    g[a2] += da2;
                    g[b2] += db2;
                    rep.count("candidates_with_f_and_g_sharing_a_root", 1);
                }
                None => return,
            }
        }
        let g_first = g.clone();
        let g: Vec<i64> = b0[0].iter().map(|&x| x as i64).collect();
        // harness-side sanity: f2 vanishes at that slot and nowhere else
        let f2i: Vec<i16> = f2.iter().map(|&x| x as i16).collect();
        let zeros: Vec<usize> = match monitored(|| vh::ntt(&f2i)) {
            Ok(t) => t.iter().enumerate().filter(|(_, &x)| x == 0).map(|(i, _)| i).collect(),
            Err(_) => return,
        };
        if zeros != vec![slot] {
            rep.count("vanishing_candidate_construction_skipped", 1);
            return;
        }
        // samples: each coefficient split over `per` samples of magnitude <= 5
        let mut values: Vec<i16> = vec![];
        let mut push_poly = |p: &Vec<i64>| {
            for &c in p.iter() {
                let mut rest = c;
                for s_ in 0..per {
                    let left = (per - s_) as i64;
                    let part = if rest >= 0 { (rest + left - 1) / left } else { -((-rest + left - 1) / left) };
                    values.push(part as i16);
                    rest -= part;
                }
            }
        };
        push_poly(&f2);
        push_poly(&g_first);
        push_poly(&f);
        push_poly(&g);
        if values.iter().any(|v| v.abs() > 5) {
            rep.count("vanishing_candidate_construction_skipped", 1);
            return;
        }
        let strat = crate::gen::Strategy::ScriptSamples { values, bytes: bytes.clone() };
        let label = format!("c04-vanish-{}-{}", V::NAME, ji);
        let mut srng = crate::gen::ScriptedRng::new(ctx.seed, &label, strat, 400_000_000);
        vh::take_keygen_candidates();
        let out = monitored(move || {
            let (fo, go, cfo, _cg) = falcon_rust::math::ntru_gen(n, &mut srng);
            (fo.coefficients, go.coefficients, cfo.coefficients)
        });
        let cands = vh::take_keygen_candidates();
        rep.evaluations += 1;
        let replay = || json!({"variant": V::NAME, "kind": "vanishing-candidate", "slot": slot, "vseed": ctx.seed, "label": label});
        match out {
            Err(p) if p.no_progress => rep.inconclusive("ntru_gen did not return within the randomness budget under a scripted candidate".into()),
            Err(p) => rep.violation(&format!("panic:ntru_gen@{}", short_loc(&p.location)), format!("{} ntru_gen panicked on a scripted candidate whose f vanishes at NTT slot {}: {}", V::NAME, slot, p.message), replay()),
            Ok((fo, go, cfo)) => {
                let to64 = |v: &Vec<i16>| v.iter().map(|&x| x as i64).collect::<Vec<i64>>();
                if to64(&fo).iter().chain(to64(&go).iter()).any(|x| x.abs() > lim) || to64(&cfo).iter().any(|x| x.abs() > 127) {
                    rep.count("planted_runs_with_unrepresentable_result", 1);
                    return;
                }
                let bytes_sk = spec::sk_encode(&to64(&fo), &to64(&go), &to64(&cfo));
                match monitored(|| V::sk_from_bytes(&bytes_sk)) {
                    Ok(Ok(sk)) => {
                        let pk = V::pk_from_sk(&sk);
                        let rp = || json!({"variant": V::NAME, "generated_sk": hex(&bytes_sk), "kind": "vanishing-candidate", "slot": slot});
                        check_parts::<V>(&sk, &pk, &bytes_sk[1..33], false, &rp, rep);
                    }
                    Ok(Err(_)) => {
                        // a key whose f is not invertible cannot be imported (G is recomputed by a
                        // division by f): the generator returned an unusable key
                        if spec::ring_inverse(&to64(&fo)).is_none() {
                            rep.violation("key:f-not-invertible", format!("{}: ntru_gen returned a key whose f vanishes at NTT slot {} (not invertible modulo q)", V::NAME, slot), replay());
                        } else {
                            rep.count("planted_runs_with_undecodable_result", 1);
                        }
                    }
                    Err(p) => rep.violation(&format!("panic:sk_from_bytes@{}", short_loc(&p.location)), p.message.clone(), replay()),
                }
                rep.count("vanishing_candidate_runs", 1);
                if to64(&fo) == f {
                    rep.count("vanishing_candidate_discarded_second_candidate_used", 1);
                }
                if slot < 3 || slot >= n - 3 {
                    rep.count("vanishing_candidates_at_boundary_slots", 1);
                }
                let _ = cands;
            }
        }
        rep.nontrivial(format!("vanish|{}|{}", V::NAME, slot).as_bytes());
    });
    rep.merge(r);
}

fn steered_candidates<V: Fv>(ctx: &Ctx, runs: usize, rep: &mut Report) {
    use falcon_rust::verif_hooks as vh;
    use rand::Rng;
    // base-sampler bytes for z0 = 3 and z0 = 4 (found with the hook wrapper)
    let mut rng = crate::util::rng_for(ctx.seed, "c04-plant-base");
    let mut find = |want: i16| -> [u8; 9] {
        loop {
            let b: [u8; 9] = rng.gen();
            if vh::sampler::base_sampler(b) == want {
                return b;
            }
        }
    };
    let (b3, b4) = (find(3), find(4));
    let per_coef = 4096 / V::N as u64;
    let r = par_for(runs, ncpu(), |i, rep| {
        // sign byte: low bit 1 -> z = 1 + z0 = 4; low bit 0 -> z = -z0 = -4
        let (base, sign) = if i % 2 == 0 { (b3, 1u8) } else { (b4, 0u8) };
        // every second candidate carries the planted coefficient (the first one does)
        let strat = crate::gen::Strategy::PlantPerCandidate { groups: per_coef, base, sign, every: 2 };
        let label = format!("c04-plant-{}-{}", V::NAME, i);
        let replay = || json!({"variant": V::NAME, "kind": "planted-candidate", "vseed": ctx.seed, "label": label, "strategy": format!("{:?}", strat)});
        let mut srng = crate::gen::ScriptedRng::new(ctx.seed, &label, strat.clone(), 400_000_000);
        vh::take_keygen_candidates();
        let out = monitored(move || {
            let (f, g, cf, cg) = falcon_rust::math::ntru_gen(V::N, &mut srng);
            (f.coefficients, g.coefficients, cf.coefficients, cg.coefficients, srng.cand)
        });
        vh::take_keygen_candidates();
        rep.evaluations += 1;
        match out {
            Err(p) if p.no_progress => rep.inconclusive("ntru_gen did not return within the randomness budget under a planted candidate".into()),
            Err(p) => rep.violation(&format!("panic:ntru_gen@{}", short_loc(&p.location)), format!("{} ntru_gen panicked with a planted out-of-range coefficient: {}", V::NAME, p.message), replay()),
            Ok((f, g, cf, _cg, cands)) => {
                let to64 = |v: &Vec<i16>| v.iter().map(|&x| x as i64).collect::<Vec<i64>>();
                let (w, _) = spec::sk_widths(V::N);
                let lim = (1i64 << (w - 1)) - 1;
                if to64(&f).iter().chain(to64(&g).iter()).any(|x| x.abs() > lim) || to64(&cf).iter().any(|x| x.abs() > 127) {
                    // not representable: C05's business, nothing to examine through the encoding
                    rep.count("planted_runs_with_unrepresentable_result", 1);
                    return;
                }
                let bytes = spec::sk_encode(&to64(&f), &to64(&g), &to64(&cf));
                match monitored(|| V::sk_from_bytes(&bytes)) {
                    Ok(Ok(sk)) => {
                        let pk = V::pk_from_sk(&sk);
                        let rp = || json!({"variant": V::NAME, "generated_sk": hex(&bytes), "kind": "planted-candidate"});
                        check_parts::<V>(&sk, &pk, &bytes[1..33], false, &rp, rep);
                        rep.count("planted_candidate_runs", 1);
                        rep.count("planted_candidates_drawn", (cands + 1) / 2);
                        if cands % 2 == 1 {
                            // the accepted candidate was one of the planted ones: it must have
                            // been repaired (and, in a correct generator, re-validated)
                            rep.count("planted_runs_ending_on_a_planted_candidate", 1);
                        }
                        let first = f[0] as i64;
                        if first.abs() > lim {
                            rep.count("planted_coefficient_survived", 1);
                        }
                    }
                    Ok(Err(_)) => rep.count("planted_runs_with_undecodable_result", 1),
                    Err(p) => rep.violation(&format!("panic:sk_from_bytes@{}", short_loc(&p.location)), p.message.clone(), replay()),
                }
            }
        }
        rep.nontrivial(format!("plant|{}|{}", V::NAME, i).as_bytes());
    });
    rep.merge(r);
}

pub fn keys(ctx: &Ctx, rep: &mut Report) {
    if !crate::pool::keygen_responds::<F512>() {
        rep.inconclusive("key generation did not return within 180 s (canary); reported as inconclusive, never as a violation".into());
        return;
    }
    let n512 = ctx.sz(600, 8000);
    let n1024 = ctx.sz(120, 1600);
    let gso512 = ctx.sz(2, 8);
    let gso1024 = ctx.sz(1, 3);
    let r = par_for(n1024, ncpu(), |i, rep| {
        let seed = if i % 4 == 3 { counter_seed(300_000 + ctx.seed * 10_000 + i as u64) } else { seed32(ctx.seed, &format!("c04-1024-{}", i)) };
        check_key::<F1024>(seed, i < gso1024, rep);
    });
    rep.merge(r);
    let r = par_for(n512 + 7, ncpu(), |i, rep| {
        let seed = if i >= n512 {
            // the committed regression seeds of C05 (keys at the edge of the encodable range)
            let all: Vec<u64> = super::c05::REGRESSION_512.iter().chain(super::c05::REGRESSION_1024.iter()).cloned().collect();
            counter_seed(all[i - n512])
        } else if i % 4 == 3 {
            counter_seed(400_000 + ctx.seed * 10_000 + i as u64)
        } else {
            seed32(ctx.seed, &format!("c04-512-{}", i))
        };
        check_key::<F512>(seed, i < gso512, rep);
        if i == 0 {
            rep.sample(json!({"variant": "falcon512", "seed": hex(&seed), "oracles": ["fG-gF=q over Z (i128)", "h f = g mod q", "f invertible", "basis layout vs encoding", "n leaves in [sigma_min, 1.8205]", "sum 2 ln(sigma/leaf) = n ln q", "first leaf = sigma/||(g,-f)||", "independent Gram-Schmidt (this key)"]}));
        }
    });
    rep.merge(r);
    histories(ctx, rep);
    vanishing_candidates::<F512>(ctx, rep);
    vanishing_candidates::<F1024>(ctx, rep);
    rep.require("vanishing_candidate_runs", 16);
    rep.require("vanishing_candidates_at_boundary_slots", 8);
    steered_candidates::<F1024>(ctx, ctx.sz(64, 1200), rep);
    steered_candidates::<F512>(ctx, ctx.sz(32, 600), rep);
    rep.require("planted_candidate_runs", 40);
    // SecretKey::generate(): the seed comes from the thread-local OS-seeded generator
    let r = par_for(ctx.sz(24, 400), ncpu(), |i, rep| {
        fn one<V: Fv>(rep: &mut Report) {
            rep.evaluations += 1;
            match monitored(|| {
                let sk = V::generate();
                let pk = V::pk_from_sk(&sk);
                (sk, pk)
            }) {
                Ok((sk, pk)) => {
                    let skb = V::sk_to_bytes(&sk);
                    let replay = || json!({"variant": V::NAME, "generated_sk": hex(&skb)});
                    check_parts::<V>(&sk, &pk, &skb[..32], false, &replay, rep);
                    rep.count("keys_from_generate", 1);
                }
                Err(p) => rep.violation(&format!("panic:generate@{}", short_loc(&p.location)), format!("{} SecretKey::generate() panicked: {}", V::NAME, p.message), json!({"variant": V::NAME})),
            }
        }
        if i % 4 == 0 {
            one::<F1024>(rep);
        } else {
            one::<F512>(rep);
        }
    });
    rep.merge(r);
    rep.require("keys_from_generate", 10);
    rep.require("keys_falcon512", 50);
    rep.require("keys_falcon1024", 10);
    rep.require("keys_with_independent_gso", 2);
}

pub fn replay(r: &Value) -> bool {
    let mut rep = Report::new();
    let mut seed = [0u8; 32];
    seed.copy_from_slice(&unhex(r["seed"].as_str().unwrap()));
    let gso = r["gso"].as_bool().unwrap_or(false);
    if let Some(skh) = r["generated_sk"].as_str() {
        // a key from SecretKey::generate(): its seed is not known; the recorded key is examined
        let b = unhex(skh);
        fn go<V: Fv>(b: &[u8], rep: &mut Report) {
            if let Ok(sk) = V::sk_from_bytes(b) {
                let pk = V::pk_from_sk(&sk);
                let replay = || json!({"generated_sk": hex(b)});
                check_parts::<V>(&sk, &pk, &b[..32], false, &replay, rep);
            }
        }
        if r["variant"] == "falcon512" {
            go::<F512>(&b, &mut rep);
        } else {
            go::<F1024>(&b, &mut rep);
        }
        return crate::util::print_replay(&rep);
    }
    if let Some(h) = r["history"].as_array() {
        // found inside a call history: the whole history is run again in a fresh thread
        run_history(h[0].as_u64().unwrap_or(0), h[1].as_u64().unwrap_or(0) as usize, &mut rep);
        println!("history {:?} counters {:?}", h, rep.counters);
        return crate::util::print_replay(&rep);
    }
    match r["variant"].as_str().unwrap_or("") {
        "falcon512" => check_key::<F512>(seed, gso, &mut rep),
        _ => check_key::<F1024>(seed, gso, &mut rep),
    }
    println!("stats {:?}", rep.stats);
    crate::util::print_replay(&rep)
}
