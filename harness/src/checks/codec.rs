//! Shared by C02/C03/C07: structured hostile compressed strings and the codec oracles.

use rand::Rng;
use rand_chacha::ChaCha20Rng;
use serde_json::json;

use crate::gen::{emit_coefs, filler, pack, Coef};
use crate::refs::spec;
use crate::util::{hex, monitored, short_loc, Report};
use falcon_rust::verif_hooks as vh;

pub struct Case {
    /// coverage cell: role / end position relative to the buffer end / probe shape / tail
    pub cell: String,
    pub x: Vec<u8>,
}

pub const HIGHS: [usize; 18] = [0, 1, 2, 7, 93, 94, 95, 96, 127, 128, 255, 256, 257, 300, 390, 511, 512, 640];

/// Cursor sweep at size (n, l): a probe coefficient in the last / second-to-last / middle
/// role is made to end at every bit position around the end of the buffer, with a range of
/// unary lengths, negative zero, and tails (zero, single one at various offsets, all ones).
pub fn cursor_sweep(n: usize, l: usize, rng: &mut ChaCha20Rng, dense: bool) -> Vec<Case> {
    let total = 8 * l as i64;
    let mut out = vec![];
    let roles: &[(&str, usize)] = &[("last", n - 1), ("second-last", n - 2), ("third-last", n.saturating_sub(3)), ("middle", n / 2)];
    for (role, idx) in roles {
        if *idx >= n {
            continue;
        }
        let after = n - 1 - idx; // coefficients after the probe
        let e_range: Vec<i64> = if *role == "middle" {
            // only "runs into the end" shapes make sense in the middle
            vec![total - 9, total - 1, total, total + 8]
        } else {
            (total - 26..=total + 10).collect()
        };
        for &e in &e_range {
            for &high in HIGHS.iter() {
                let shapes: &[(bool, u8)] = if dense || high <= 2 || high == 94 || high == 95 {
                    &[(false, 0), (true, 0), (false, 1), (true, 127), (false, 85)]
                } else {
                    &[(true, 0), (false, 127)]
                };
                for &(neg, low) in shapes {
                    let probe = Coef { neg, low, high };
                    let start = e - probe.bits() as i64;
                    if start < 0 {
                        continue;
                    }
                    let pre = match filler(*idx, start as usize, rng) {
                        Some(p) => p,
                        None => continue,
                    };
                    let mut coefs = pre;
                    coefs.push(probe);
                    // coefficients after the probe: minimal encodings (value 1..=127)
                    for _ in 0..after {
                        coefs.push(Coef { neg: rng.gen(), low: rng.gen_range(1..128), high: 0 });
                    }
                    let bits = emit_coefs(&coefs);
                    let tails: &[&str] = if dense { &["zero", "one-first", "one-last", "ones"] } else { &["zero", "one-last"] };
                    for tail in tails {
                        let mut b = bits.clone();
                        let used = b.len();
                        if (used as i64) < total {
                            let pad = total as usize - used;
                            match *tail {
                                "zero" => {}
                                "one-first" => b.push(true),
                                "one-last" => {
                                    b.resize(total as usize, false);
                                    let k = total as usize - 1;
                                    b[k] = true;
                                }
                                _ => b.resize(used + pad, true),
                            }
                        } else if *tail != "zero" {
                            continue;
                        }
                        out.push(Case {
                            cell: format!("{}|e{:+}|h{}|n{}l{}|{}", role, e - total, high, neg as u8, low, tail),
                            x: pack(&b, l),
                        });
                    }
                }
            }
        }
        // unary run to the very end of the buffer without terminator
        for back in [9i64, 10, 16, 17, 30, 100, 104, 200] {
            let start = total - back;
            if let Some(pre) = filler(*idx, start.max(0) as usize, rng) {
                let mut b = emit_coefs(&pre);
                b.push(rng.gen());
                for _ in 0..7 {
                    b.push(rng.gen());
                }
                // zeros to the end
                out.push(Case {
                    cell: format!("{}|run-to-end|back{}", role, back),
                    x: pack(&b, l),
                });
            }
        }
    }
    // negative zero at first / middle / penultimate / last position of an otherwise valid string
    for pos in [0usize, n / 2, n - 2, n - 1] {
        let mut coefs: Vec<Coef> = (0..n).map(|_| Coef { neg: rng.gen(), low: rng.gen_range(1..128), high: rng.gen_range(0..2) }).collect();
        coefs[pos] = Coef { neg: true, low: 0, high: 0 };
        out.push(Case { cell: format!("negzero|pos{}", pos), x: pack(&emit_coefs(&coefs), l) });
        coefs[pos] = Coef { neg: false, low: 0, high: 0 };
        out.push(Case { cell: format!("poszero|pos{}", pos), x: pack(&emit_coefs(&coefs), l) });
    }
    // several negative zeros in one string: pairs, triples, quadruples at spread positions, all
    // but the last, and every coefficient
    for set in [vec![0usize, 1], vec![0, n - 2], vec![n / 3, n / 2], vec![1, n - 1], vec![0, 1, 2], vec![0, n / 2, n - 2], vec![0, 1, 2, 3], vec![2, 5, n / 2, n - 2], (0..n - 1).collect::<Vec<_>>(), (0..n).collect::<Vec<_>>(), (0..n).filter(|i| i % 2 == 0).collect::<Vec<_>>()] {
        if set.iter().any(|&p| p >= n) {
            continue;
        }
        let mut coefs: Vec<Coef> = (0..n).map(|_| Coef { neg: rng.gen(), low: rng.gen_range(1..128), high: 0 }).collect();
        for &p_ in &set {
            coefs[p_] = Coef { neg: true, low: 0, high: 0 };
        }
        let mut dedup = set.clone();
        dedup.dedup();
        out.push(Case { cell: format!("negzero-x{}|first{}", dedup.len(), set[0]), x: pack(&emit_coefs(&coefs), l) });
    }
    // exactly fitting / one bit too long valid-looking strings
    for d in -10i64..=10 {
        let want = total + d;
        if let Some(c) = filler(n, want as usize, rng) {
            out.push(Case { cell: format!("exact-fit|d{:+}", d), x: pack(&emit_coefs(&c), l) });
        }
    }
    out
}

/// Random honest-looking vectors (Gaussian-ish magnitudes like real signatures).
pub fn honest_like(n: usize, rng: &mut ChaCha20Rng, scale: f64) -> Vec<i64> {
    (0..n)
        .map(|_| {
            // sum of uniforms ~ bell shape
            let u: f64 = (0..6).map(|_| rng.gen::<f64>() - 0.5).sum::<f64>();
            (u * scale * 1.414).round() as i64
        })
        .collect()
}

// ---------------------------------------------------------------------------
// oracles

/// C07 oracle for one decompression. Returns true if the string was accepted.
pub fn check_decompress(x: &[u8], n: usize, rep: &mut Report) -> bool {
    rep.evaluations += 1;
    let xx = x.to_vec();
    let r = monitored(move || vh::decompress(&xx, n));
    let rf = spec::decompress(x, n);
    let replay = || json!({"kind": "decompress", "x": hex(x), "n": n});
    match r {
        Err(p) => {
            rep.violation(&format!("panic:decompress@{}", short_loc(&p.location)), format!("decompress(len {}, n={}) panicked: {}", x.len(), n, p.message), replay());
            false
        }
        Ok(Some(v)) => {
            rep.count("dec_accepted", 1);
            let same = v.len() == n && rf.as_ref().map(|w| w.iter().zip(v.iter()).all(|(a, b)| *a == *b as i64)).unwrap_or(false);
            if !same {
                let sig = if rf.is_none() { "decompress:accepts-invalid" } else { "decompress:wrong-vector" };
                rep.violation(sig, format!("decompress accepted x (len {}, n={}) as {:?}.. but the reference says {:?}..", x.len(), n, &v[v.len().saturating_sub(3)..], rf.as_ref().map(|w| w[w.len().saturating_sub(3)..].to_vec())), replay());
            } else {
                let vv = v.clone();
                let l = x.len();
                match monitored(move || vh::compress(&vv, l)) {
                    Err(p) => rep.violation(&format!("panic:compress@{}", short_loc(&p.location)), p.message.clone(), replay()),
                    Ok(rc) => {
                        if rc.as_deref() != Some(x) {
                            rep.violation("decompress:non-canonical", format!("accepted string (len {}, n={}) does not re-compress to itself", l, n), replay());
                        }
                    }
                }
            }
            true
        }
        Ok(None) => {
            rep.count("dec_rejected", 1);
            if let Some(w) = rf {
                if w.iter().all(|c| c.abs() < 12160) {
                    rep.violation("decompress:rejects-valid", format!("decompress rejected a valid encoding (len {}, n={}) of {:?}..", x.len(), n, &w[w.len().saturating_sub(3)..]), replay());
                } else {
                    rep.count("dec_rejected_out_of_domain", 1);
                }
            }
            false
        }
    }
}

/// C07 oracle for one compression.
pub fn check_compress(v: &[i64], l: usize, rep: &mut Report) {
    rep.evaluations += 1;
    let vi: Vec<i16> = v.iter().map(|&x| x as i16).collect();
    let vi2 = vi.clone();
    let a = monitored(move || vh::compress(&vi2, l));
    let b = spec::compress(v, l);
    // the same vector at other memory placements (slices starting 2, 4, 6 bytes into an
    // allocation): the result may not depend on where the input lives
    if v.len() <= 1100 {
        for off in 1..4usize {
            let mut buf = vec![0i16; off];
            buf.extend_from_slice(&vi);
            let got = monitored(move || vh::compress(&buf[off..], l));
            match (&got, &a) {
                (Ok(x), Ok(y)) if x == y => {}
                (Err(p), Ok(_)) => {
                    rep.violation(&format!("panic:compress@{}", short_loc(&p.location)), format!("compress(n={}, L={}) panicked when the input slice starts {} bytes into its allocation (it does not for an aligned vector): {}", v.len(), l, 2 * off, p.message), json!({"kind": "compress", "v": v, "l": l}));
                    break;
                }
                (Ok(x), Ok(y)) => {
                    rep.violation("compress:depends-on-input-placement", format!("compress(n={}, L={}) gives {:?} for a slice starting {} bytes into its allocation and {:?} for an aligned vector", v.len(), l, x.as_ref().map(|z| z.len()), 2 * off, y.as_ref().map(|z| z.len())), json!({"kind": "compress", "v": v, "l": l}));
                    break;
                }
                _ => {}
            }
        }
    }
    let replay = || json!({"kind": "compress", "v": v, "l": l});
    match a {
        Err(p) => rep.violation(&format!("panic:compress@{}", short_loc(&p.location)), format!("compress(n={}, L={}) panicked: {}", v.len(), l, p.message), replay()),
        Ok(a) => {
            if a != b {
                let sig = match (&a, &b) {
                    (Some(_), None) => "compress:fits-but-should-not",
                    (None, Some(_)) => "compress:fails-but-fits",
                    _ => "compress:wrong-bytes",
                };
                rep.violation(sig, format!("compress(n={}, L={}, bits={}) = {:?} but reference = {:?}", v.len(), l, spec::compressed_bits(v), a.as_ref().map(|x| hex(&x[..x.len().min(8)])), b.as_ref().map(|x| hex(&x[..x.len().min(8)]))), replay());
            } else if let Some(x) = a {
                rep.count("comp_some", 1);
                let n = v.len();
                let xx = x.clone();
                match monitored(move || vh::decompress(&xx, n)) {
                    Err(p) => rep.violation(&format!("panic:decompress@{}", short_loc(&p.location)), p.message.clone(), json!({"kind": "decompress", "x": hex(&x), "n": n})),
                    Ok(d) => {
                        if d.as_ref() != Some(&vi) {
                            rep.violation("compress:roundtrip", format!("decompress(compress(v)) != v for n={}, L={}", n, l), replay());
                        }
                    }
                }
            } else {
                rep.count("comp_none", 1);
            }
        }
    }
}

pub fn replay(r: &serde_json::Value) -> bool {
    let mut rep = Report::new();
    match r["kind"].as_str().unwrap_or("") {
        "decompress" => {
            let x = crate::util::unhex(r["x"].as_str().unwrap());
            let n = r["n"].as_u64().unwrap() as usize;
            let acc = check_decompress(&x, n, &mut rep);
            println!("decompress(x[{}], n={}) accepted={} reference={:?}", x.len(), n, acc, spec::decompress(&x, n).map(|v| v.len()));
        }
        "compress" => {
            let v: Vec<i64> = r["v"].as_array().unwrap().iter().map(|x| x.as_i64().unwrap()).collect();
            let l = r["l"].as_u64().unwrap() as usize;
            check_compress(&v, l, &mut rep);
        }
        _ => return false,
    }
    crate::util::print_replay(&rep)
}
