//! C02: verify accepts exactly what Algorithm 16 accepts (differential monitor against the
//! reference verifier, cross-checked by PQClean where PQClean can parse the input).

use rand::Rng;
use rand_chacha::ChaCha20Rng;
use serde_json::{json, Value};

use super::bytesgen::synth_pk;
use super::codec::{cursor_sweep, honest_like};
use crate::fv::{reframe_to_pq, Fv, F1024, F512};
use crate::gen::{craft_exact, rand_bytes};
use crate::pool;
use crate::refs::spec::{self, VerifyTrace};
use crate::util::{hex, monitored, ncpu, par_for, rng_for, short_loc, unhex, Ctx, Report};

/// One triple through the real verifier and the reference. Returns the reference verdict
/// (None if the triple is outside the quantifier: a decoder rejected the bytes).
thread_local! {
    /// the triple verified just before on this thread (variant, msg, sig, pk): findings that
    /// depend on the call sequence need it to replay
    static PREVIOUS: std::cell::RefCell<Option<(String, Vec<u8>, Vec<u8>, Vec<u8>)>> = std::cell::RefCell::new(None);
}

pub fn check_triple<V: Fv>(class: &str, msg: &[u8], sigb: &[u8], pkb: &[u8], rep: &mut Report) -> Option<(bool, VerifyTrace)> {
    rep.evaluations += 1;
    // (try_with: this function is also called while a thread is being torn down, when the
    // harness' own thread-local may already be gone)
    let prev = PREVIOUS.try_with(|p| p.borrow_mut().replace((V::NAME.to_string(), if msg.len() <= 4096 { msg.to_vec() } else { vec![] }, sigb.to_vec(), pkb.to_vec()))).unwrap_or(None);
    let replay = || {
        let mut j = json!({"variant": V::NAME, "class": class, "msg": hex(msg), "sig": hex(sigb), "pk": hex(pkb)});
        if let Some((v, m, s, p)) = &prev {
            j["verified_just_before"] = json!({"variant": v, "msg": hex(m), "sig": hex(s), "pk": hex(p)});
        }
        j
    };
    let decoded = monitored(|| (V::sig_from_bytes(sigb), V::pk_from_bytes(pkb)));
    let (sig, pk) = match decoded {
        Err(p) => {
            rep.violation(&format!("panic:from_bytes@{}", short_loc(&p.location)), p.message.clone(), replay());
            return None;
        }
        Ok((Ok(s), Ok(p))) => (s, p),
        Ok(_) => {
            rep.count("outside_domain_not_decodable", 1);
            return None;
        }
    };
    let got = monitored(|| V::verify(msg, &sig, &pk));
    // reference: h taken modulo q (fields of an accepted public key)
    let h: Vec<i64> = spec::pk_fields(&pkb[1..]).iter().map(|&x| x % spec::Q).collect();
    let (want, trace) = spec::verify_traced(msg, &sigb[1..41], &sigb[41..], &h);
    match got {
        Err(p) => rep.violation(&format!("panic:verify@{}", short_loc(&p.location)), format!("verify panicked ({}): {}", class, p.message), replay()),
        Ok(g) => {
            if g != want {
                let sig_name = match (&trace, g) {
                    (VerifyTrace::BadEncoding, true) => "verify:accepts-malformed-encoding".to_string(),
                    (VerifyTrace::Norm(nrm), true) => {
                        let d = nrm - V::BOUND;
                        if d <= 8 {
                            format!("verify:accepts-norm-bound{:+}", d)
                        } else {
                            "verify:accepts-norm-above-bound".to_string()
                        }
                    }
                    (VerifyTrace::Norm(nrm), false) => {
                        let d = nrm - V::BOUND;
                        if d >= -8 {
                            format!("verify:rejects-norm-bound{:+}", d)
                        } else {
                            "verify:rejects-valid".to_string()
                        }
                    }
                    (VerifyTrace::BadEncoding, false) => unreachable!(),
                };
                rep.violation(&sig_name, format!("{} verify = {} but Algorithm 16 says {} ({:?}), class {}", V::NAME, g, want, trace, class), replay());
            }
            rep.count(if want { "ref_accept" } else { "ref_reject" }, 1);
            if let VerifyTrace::BadEncoding = trace {
                rep.count("ref_bad_encoding", 1);
            }
        }
    }
    // second oracle on the subset PQClean can parse; a conflict between the two oracles
    // makes the run inconclusive (never a violation of the code under test)
    #[cfg(feature = "pq")]
    {
        let small = match spec::decompress(&sigb[41..], V::N) {
            Some(v) => v.iter().all(|x| x.abs() <= 2047),
            None => true,
        };
        if small {
            if let Some(p) = V::pq_verify(&reframe_to_pq(sigb, V::LOGN), msg, pkb) {
                rep.count("pqclean_crosschecked", 1);
                if p != want {
                    rep.inconclusive(format!("oracle conflict: reference says {} ({:?}) but PQClean says {} on class {}", want, trace, p, class));
                }
            }
        }
    }
    Some((want, trace))
}

fn build_sig<V: Fv>(salt: &[u8], body: &[u8]) -> Vec<u8> {
    let mut b = vec![0x50 | V::LOGN];
    b.extend_from_slice(salt);
    b.extend_from_slice(body);
    b
}

/// s2 with one coefficient moved by +-q (same residues modulo q, hence the same s1).
fn alias_variants(s2: &[i64], budget: usize, rng: &mut ChaCha20Rng, tries: usize) -> Vec<Vec<u8>> {
    let mut out = vec![];
    for _ in 0..tries {
        let i = rng.gen_range(0..s2.len());
        for delta in [spec::Q, -spec::Q] {
            let mut v = s2.to_vec();
            v[i] += delta;
            if v[i].abs() >= 12160 {
                continue;
            }
            if let Some(x) = spec::compress(&v, budget) {
                out.push(x);
            }
        }
    }
    out
}

fn differential_v<V: Fv>(ctx: &Ctx, rep: &mut Report) {
    let nkeys = ctx.sz(2, 60);
    let (keys, bad) = pool::keys::<V>(ctx.seed, "c02", nkeys);
    for (s, p) in bad {
        rep.inconclusive(format!("keygen panicked for seed {}: {}", hex(&s), p.message));
    }
    if let Some(k0) = keys.first() {
        if !crate::signer::canary::<V>(&k0.sk) {
            rep.inconclusive("sign does not terminate or panics on a fresh key (reported by C01); this leg needs working signatures".into());
            return;
        }
    }
    let per_key = ctx.sz(24, 300);
    let r = par_for(keys.len() * per_key, ncpu(), |job, rep| {
        let k = &keys[job % keys.len()];
        let mut rng = rng_for(ctx.seed, &format!("c02-diff-{}-{}", V::NAME, job));
        let pkb = V::pk_to_bytes(&k.pk);
        let (_, msg) = crate::gen::message(job / keys.len(), &mut rng, 20_000);
        let sigb = match monitored(|| V::sig_to_bytes(&V::sign(&msg, &k.sk))) {
            Ok(b) => b,
            Err(_) => return, // sign failures are C01's business
        };
        // (1) honest
        let r0 = check_triple::<V>("honest", &msg, &sigb, &pkb, rep);
        if let Some((true, _)) = r0 {
            rep.nontrivial(format!("honest|{}|{}", V::NAME, job).as_bytes());
        }
        if job == 0 {
            rep.sample(json!({"variant": V::NAME, "class": "honest", "msg_len": msg.len(), "sig_head": hex(&sigb[..12]), "reference": format!("{:?}", r0)}));
        }
        // (2) mutations: bit flips in salt / s / message / pk
        for m in 0..8 {
            let mut s2 = sigb.clone();
            let mut m2 = msg.clone();
            let mut p2 = pkb.clone();
            let cls = match m % 4 {
                0 => {
                    let i = rng.gen_range(8..41 * 8);
                    s2[i / 8] ^= 128 >> (i % 8);
                    "flip-salt"
                }
                1 => {
                    let i = rng.gen_range(41 * 8..s2.len() * 8);
                    s2[i / 8] ^= 128 >> (i % 8);
                    "flip-s"
                }
                2 => {
                    if m2.is_empty() {
                        m2.push(0);
                    } else {
                        let i = rng.gen_range(0..m2.len() * 8);
                        m2[i / 8] ^= 128 >> (i % 8);
                    }
                    "flip-msg"
                }
                _ => {
                    let i = rng.gen_range(8..p2.len() * 8);
                    p2[i / 8] ^= 128 >> (i % 8);
                    "flip-pk"
                }
            };
            check_triple::<V>(cls, &m2, &s2, &p2, rep);
            rep.nontrivial(format!("{}|{}|{}|{}", cls, V::NAME, job, m).as_bytes());
        }
        // swapped message
        check_triple::<V>("other-msg", b"another message", &sigb, &pkb, rep);
        // (3) same residues, different integers: one coefficient moved by +-q
        if let Some(v) = spec::decompress(&sigb[41..], V::N) {
            for body in alias_variants(&v, V::SIG_LEN - 41, &mut rng, 6) {
                let sb = build_sig::<V>(&sigb[1..41], &body);
                check_triple::<V>("alias-plus-minus-q", &msg, &sb, &pkb, rep);
                rep.count("alias_cases", 1);
                rep.nontrivial(format!("alias|{}|{}|{}", V::NAME, job, hex(&body[..4])).as_bytes());
            }
        }
    });
    rep.merge(r);
    // (4) malformed encodings and (5) special public keys
    let mut rng0 = rng_for(ctx.seed, &format!("c02-pks-{}", V::NAME));
    let mut pks: Vec<(String, Vec<u8>)> = vec![];
    if let Some(k) = keys.first() {
        pks.push(("honest".into(), V::pk_to_bytes(&k.pk)));
    }
    pks.push(("zero".into(), spec::pk_encode(&vec![0i64; V::N])));
    pks.push(("all-q-1".into(), spec::pk_encode(&vec![spec::Q - 1; V::N])));
    let mut mono = vec![0i64; V::N];
    mono[1] = 1;
    pks.push(("monomial-x".into(), spec::pk_encode(&mono)));
    pks.push(("random".into(), synth_pk::<V>(&mut rng0)));
    let rounds = ctx.sz(1, 12);
    let r = par_for(pks.len() * rounds, ncpu(), |job, rep| {
        let (pkname, pkb) = &pks[job % pks.len()];
        let mut rng = rng_for(ctx.seed, &format!("c02-mal-{}-{}", V::NAME, job));
        let mut cases = cursor_sweep(V::N, V::SIG_LEN - 41, &mut rng, false);
        // thin the sweep in the quick tier: verify + reference cost ~1 ms each
        let keep = ctx.sz(1500, 8000);
        while cases.len() > keep {
            let i = rng.gen_range(0..cases.len());
            cases.swap_remove(i);
        }
        for c in cases {
            let sb = build_sig::<V>(&rand_bytes(&mut rng, 40), &c.x);
            let msg = rand_bytes(&mut rng, 5);
            check_triple::<V>(&c.cell, &msg, &sb, pkb, rep);
            rep.nontrivial(format!("mal|{}|{}|{}", V::NAME, pkname, c.cell).as_bytes());
        }
        // small honest-like s2 under special keys: with the zero key s1 = c (large), with a
        // tiny s2 the norm is dominated by s1
        for scale in [0.0, 1.0, 30.0, 165.0] {
            let v = honest_like(V::N, &mut rng, scale);
            if let Some(body) = spec::compress(&v, V::SIG_LEN - 41) {
                let sb = build_sig::<V>(&rand_bytes(&mut rng, 40), &body);
                check_triple::<V>(&format!("special-pk-{}", pkname), b"msg", &sb, pkb, rep);
            }
        }
    });
    rep.merge(r);
}

pub fn differential(ctx: &Ctx, rep: &mut Report) {
    differential_v::<F512>(ctx, rep);
    differential_v::<F1024>(ctx, rep);
    rep.require("ref_accept", 20);
    rep.require("ref_reject", 1000);
    rep.require("ref_bad_encoding", 500);
    rep.require("alias_cases", 20);
}

fn boundary_v<V: Fv>(ctx: &Ctx, rep: &mut Report) {
    let q = spec::Q;
    let deltas: Vec<i64> = vec![-3, -2, -1, 0, 1, 2, 3, -q, q, -1000, 1000];
    let reps = ctx.sz(6, 300);
    let jobs = deltas.len() * 5 * reps;
    let r = par_for(jobs, ncpu(), |job, rep| {
        let d = deltas[job % deltas.len()];
        // styles 0..3, and 200 = lopsided (s2 alone carries more than half of the bound)
        let style = match (job / deltas.len()) % 5 {
            4 => 200,
            x => x as u32,
        };
        let mut rng = rng_for(ctx.seed, &format!("c02-bound-{}-{}", V::NAME, job));
        let c = match craft_exact(V::N, V::BOUND + d, style, &mut rng) {
            Some(c) => c,
            None => {
                rep.count("craft_failed", 1);
                return;
            }
        };
        let body = match spec::compress(&c.s2, V::SIG_LEN - 41) {
            Some(b) => b,
            None => {
                rep.count("craft_does_not_fit", 1);
                return;
            }
        };
        let sb = build_sig::<V>(&c.salt, &body);
        let pkb = spec::pk_encode(&c.h);
        let r = check_triple::<V>(&format!("exact-norm-bound{:+}-style{}", d, style), &c.msg, &sb, &pkb, rep);
        // the same triple with the unary part of one coefficient lengthened by 95 / 256 / 512
        // zero bits (values beyond 16 bits): the reference sees a huge coefficient
        if d <= 0 {
            for (pos, extra) in [(V::N - 1, 512usize), (V::N - 1, 256), (V::N - 1, 95), (V::N / 2, 95), (0, 512)] {
                let mut v = c.s2.clone();
                let sgn = if v[pos] < 0 { -1 } else { 1 };
                v[pos] = sgn * (v[pos].abs() + ((extra as i64) << 7));
                if let Some(body2) = spec::compress(&v, V::SIG_LEN - 41) {
                    let sb2 = build_sig::<V>(&c.salt, &body2);
                    check_triple::<V>(&format!("long-unary-pos{}-plus{}", pos, extra), &c.msg, &sb2, &pkb, rep);
                    rep.count("long_unary_cases", 1);
                    rep.nontrivial(format!("longunary|{}|{}|{}|{}", V::NAME, job, pos, extra).as_bytes());
                }
            }
        }
        match r {
            Some((want, VerifyTrace::Norm(nrm))) => {
                if nrm != V::BOUND + d || want != (d <= 0) {
                    rep.inconclusive(format!("crafted triple has reference norm {} instead of bound{:+}", nrm, d));
                }
                rep.count(&format!("at_bound{:+}", d), 1);
                rep.nontrivial(format!("bound|{}|{}|{}|{}", V::NAME, d, style, hex(&c.salt[..6])).as_bytes());
                if (d == 0 || d == 1) && job < 2 * deltas.len() {
                    let edge = c.s1.iter().filter(|x| x.abs() >= 6143).count();
                    rep.sample(json!({"variant": V::NAME, "norm": nrm, "bound_delta": d, "style": style, "s1_coeffs_at_edge_of_centred_range": edge, "reference_accepts": want}));
                }
                if c.s1.iter().any(|x| x.abs() >= 6143) {
                    rep.count("with_s1_at_range_edge", 1);
                }
                let n2: i64 = c.s2.iter().map(|x| x * x).sum();
                if 2 * n2 > V::BOUND {
                    rep.count("with_s2_carrying_more_than_half_the_bound", 1);
                }
            }
            _ => rep.inconclusive("crafted triple was not decodable".into()),
        }
    });
    rep.merge(r);
}

/// Lenient decoding made observable through verify: triples well inside the bound whose
/// encoding is then made malformed in ways that leave the decoded vector (almost) unchanged:
/// a padding bit set, a negative zero, the final stop bit dropped near the buffer end.
fn lenient_v<V: Fv>(ctx: &Ctx, rep: &mut Report) {
    let reps = ctx.sz(4, 200);
    let r = par_for(13 * reps, ncpu(), |job, rep| {
        let t = (job % 13) as u32; // spare bits at the end of the body (0 = the encoding fills it exactly)
        let mut rng = rng_for(ctx.seed, &format!("c02-lenient-{}-{}", V::NAME, job));
        let c = match craft_exact(V::N, V::BOUND - 3_000_000 - (job as i64), 100 + t, &mut rng) {
            Some(c) => c,
            None => {
                rep.count("craft_failed", 1);
                return;
            }
        };
        let l = V::SIG_LEN - 41;
        let body = match spec::compress(&c.s2, l) {
            Some(b) => b,
            None => return,
        };
        let used = spec::compressed_bits(&c.s2);
        if used != 8 * l - t as usize {
            rep.inconclusive(format!("tight craft uses {} bits, wanted {}", used, 8 * l - t as usize));
            return;
        }
        let pkb = spec::pk_encode(&c.h);
        let base = check_triple::<V>("lenient-base", &c.msg, &build_sig::<V>(&c.salt, &body), &pkb, rep);
        if !matches!(base, Some((true, _))) {
            rep.inconclusive("lenient base triple is not accepted by the reference".into());
            return;
        }
        if t == 0 {
            // exact fit: nothing to malform behind the encoding; the accepting side is the test
            rep.count("exact_fit_accepted_triples", 1);
            rep.nontrivial(format!("exactfit|{}|{}", V::NAME, job).as_bytes());
            // the last coefficient short (9 bits) and long (more unary bits) both occur across jobs
            return;
        }
        let flip = |b: &[u8], bit: usize| {
            let mut x = b.to_vec();
            x[bit / 8] ^= 128 >> (bit % 8);
            x
        };
        let mut variants: Vec<(String, Vec<u8>)> = vec![];
        // padding bits: first after the encoding, last of the buffer
        variants.push(("padding-first".into(), flip(&body, used)));
        variants.push(("padding-last".into(), flip(&body, 8 * l - 1)));
        // final stop bit dropped: the unary run of the last coefficient reaches the buffer end
        variants.push(("drop-last-stop-bit".into(), flip(&body, used - 1)));
        // negative zero: set the sign bit of a coefficient that is zero (the first zero, and the
        // last coefficient when it is zero: the decoder treats the last one separately)
        let mut off = 0;
        let mut first_done = false;
        for (i, v) in c.s2.iter().enumerate() {
            if *v == 0 && (!first_done || i == c.s2.len() - 1) {
                variants.push((format!("negative-zero-{}-at-{}", if i == c.s2.len() - 1 { "last" } else { "inner" }, i), flip(&body, off)));
                first_done = true;
            }
            off += 9 + (v.unsigned_abs() >> 7) as usize;
        }
        // two negative zeros at once (a parity-style flag would cancel them)
        {
            let zs: Vec<usize> = {
                let mut off = 0;
                let mut v = vec![];
                for x in c.s2.iter() {
                    if *x == 0 {
                        v.push(off);
                    }
                    off += 9 + (x.unsigned_abs() >> 7) as usize;
                }
                v
            };
            if zs.len() >= 2 {
                variants.push(("negative-zero-pair".into(), flip(&flip(&body, zs[0]), zs[1])));
            }
            if zs.len() >= 4 {
                let mut b4 = body.clone();
                for &o in zs.iter().take(4) {
                    b4 = flip(&b4, o);
                }
                variants.push(("negative-zero-quadruple".into(), b4));
            }
        }
        for (name, b2) in variants {
            let out = check_triple::<V>(&format!("lenient-{}-t{}", name.split("-at-").next().unwrap(), t), &c.msg, &build_sig::<V>(&c.salt, &b2), &pkb, rep);
            if let Some((false, VerifyTrace::BadEncoding)) = out {
                rep.count("lenient_malformed_cases", 1);
                rep.nontrivial(format!("lenient|{}|{}|{}", V::NAME, job, name).as_bytes());
            } else {
                rep.inconclusive(format!("malformation {} did not produce a malformed encoding: {:?}", name, out));
            }
        }
        if job == 0 {
            rep.sample(json!({"variant": V::NAME, "class": "lenient", "spare_bits": t, "norm": c.norm, "malformations": ["padding-first", "padding-last", "drop-last-stop-bit", "negative-zero"]}));
        }
    });
    rep.merge(r);
}

/// Both variants interleaved in ONE thread, every public key object used several times with
/// different signatures, keys revisited (A, B, A): state kept by verify between calls (a cached
/// transform of "the" public key, a scratch buffer sized by an earlier call) shows up here.
fn interleaved(ctx: &Ctx, rep: &mut Report) {
    let mut rng = rng_for(ctx.seed, "c02-interleaved");
    let m = ctx.sz(10, 80);
    let mut t5 = vec![];
    let mut t10 = vec![];
    for i in 0..m {
        let d = [0i64, 1, -1, -1000, 2][i % 5];
        if let Some(c) = craft_exact(512, F512::BOUND + d, (i % 4) as u32, &mut rng) {
            t5.push(c);
        }
        if let Some(c) = craft_exact(1024, F1024::BOUND + d, (i % 4) as u32, &mut rng) {
            t10.push(c);
        }
    }
    let enc = |c: &crate::gen::Crafted, l: usize, hdr: u8| -> Option<(Vec<u8>, Vec<u8>)> {
        let body = spec::compress(&c.s2, l)?;
        let mut sb = vec![hdr];
        sb.extend_from_slice(&c.salt);
        sb.extend_from_slice(&body);
        Some((sb, spec::pk_encode(&c.h)))
    };
    for round in 0..3 {
        for i in 0..t5.len().min(t10.len()) {
            // A(512) B(1024) A(512) with another message (must be rejected) B(1024) again
            if let (Some((s5, p5)), Some((s10, p10))) = (enc(&t5[i], 625, 0x59), enc(&t10[i], 1239, 0x5a)) {
                check_triple::<F512>("interleaved", &t5[i].msg, &s5, &p5, rep);
                check_triple::<F1024>("interleaved", &t10[i].msg, &s10, &p10, rep);
                check_triple::<F512>("interleaved-other-msg", b"other", &s5, &p5, rep);
                // signature of triple i under the public key of triple i+1 (and back)
                let j = (i + 1) % t5.len().min(t10.len());
                if let Some((_, p5b)) = enc(&t5[j], 625, 0x59) {
                    check_triple::<F512>("interleaved-other-pk", &t5[i].msg, &s5, &p5b, rep);
                }
                check_triple::<F1024>("interleaved", &t10[i].msg, &s10, &p10, rep);
                check_triple::<F512>("interleaved", &t5[i].msg, &s5, &p5, rep);
                rep.count("interleaved_sequences", 1);
                rep.nontrivial(format!("interleaved|{}|{}", round, i).as_bytes());
            }
        }
    }
    rep.require("interleaved_sequences", 10);
}

/// Enormous true norms that are small modulo 2^31 / 2^32, in several mass layouts (see
/// gen::overflow_layouts): the reference rejects all of them.
fn overflow_v<V: Fv>(ctx: &Ctx, rep: &mut Report) {
    let reps = ctx.sz(6, 80);
    let r = par_for(reps, ncpu(), |job, rep| {
        let mut rng = rng_for(ctx.seed, &format!("c02-overflow-{}-{}", V::NAME, job));
        for (name, c) in crate::gen::overflow_layouts(V::N, V::BOUND, &mut rng) {
            let body = match spec::compress(&c.s2, V::SIG_LEN - 41) {
                Some(b) => b,
                None => continue,
            };
            let sb = build_sig::<V>(&c.salt, &body);
            let pkb = spec::pk_encode(&c.h);
            let out = check_triple::<V>(&format!("overflow-{}", name), &c.msg, &sb, &pkb, rep);
            match out {
                Some((false, VerifyTrace::Norm(nrm))) if nrm == c.norm => {
                    rep.count("overflow_layout_triples", 1);
                    rep.count(&format!("overflow_{}", name.split("-mod-").next().unwrap()), 1);
                    rep.nontrivial(format!("overflow|{}|{}|{}", V::NAME, job, name).as_bytes());
                    if job == 0 {
                        rep.sample(json!({"variant": V::NAME, "layout": name, "true_norm": nrm, "norm_mod_2^32": nrm % (1i64 << 32), "bound": V::BOUND}));
                    }
                }
                other => rep.inconclusive(format!("overflow layout {} did not give the intended reference verdict: {:?}", name, other)),
            }
        }
    });
    rep.merge(r);
}

/// Call sequences over RELATED keys of the two parameter sets: for an accepted Falcon-512
/// triple A with public polynomial h, the Falcon-1024 keys h || 0^512 (zero extension), h || h
/// and h(x^2) (and, the other way round, the first half of a Falcon-1024 key as a Falcon-512
/// key), used right before and right after A on one thread. State kept between calls that
/// compares keys loosely (prefix, trailing zeros ignored, length not part of the comparison)
/// confuses them. Returns sequences of (is_1024, class, msg, sig bytes, pk bytes).
pub fn related_variant_sequences(seed: u64, count: usize) -> Vec<Vec<(bool, String, Vec<u8>, Vec<u8>, Vec<u8>)>> {
    let mut rng = rng_for(seed, "related-variant-sequences");
    let mut out = vec![];
    let sig_of = |c: &crate::gen::Crafted, l: usize, hdr: u8| -> Option<Vec<u8>> {
        let body = spec::compress(&c.s2, l)?;
        let mut sb = vec![hdr];
        sb.extend_from_slice(&c.salt);
        sb.extend_from_slice(&body);
        Some(sb)
    };
    for i in 0..count {
        let (a, b) = match (craft_exact(512, F512::BOUND - 1000, (i % 4) as u32, &mut rng), craft_exact(1024, F1024::BOUND - 1000, (i % 4) as u32, &mut rng)) {
            (Some(a), Some(b)) => (a, b),
            _ => continue,
        };
        let (sa, sb) = match (sig_of(&a, 625, 0x59), sig_of(&b, 1239, 0x5a)) {
            (Some(x), Some(y)) => (x, y),
            _ => continue,
        };
        let (pa, pb) = (spec::pk_encode(&a.h), spec::pk_encode(&b.h));
        let ta = (false, "related-512-valid".to_string(), a.msg.clone(), sa.clone(), pa.clone());
        let tb = (true, "related-1024-valid".to_string(), b.msg.clone(), sb.clone(), pb.clone());
        // Falcon-1024 keys derived from A's key, used with B's (decodable) signature
        let mut ext0 = a.h.clone();
        ext0.extend(vec![0i64; 512]);
        let mut dup = a.h.clone();
        dup.extend(a.h.iter().cloned());
        let up2: Vec<i64> = (0..1024).map(|k| if k % 2 == 0 { a.h[k / 2] } else { 0 }).collect();
        for (name, h) in [("zero-extended", ext0), ("doubled", dup), ("h(x^2)", up2)] {
            let t = (true, format!("related-1024-key-{}", name), b.msg.clone(), sb.clone(), spec::pk_encode(&h));
            out.push(vec![ta.clone(), t.clone(), ta.clone()]);
            out.push(vec![t.clone(), ta.clone(), t.clone(), tb.clone()]);
        }
        // Falcon-512 keys derived from B's key, used with A's signature
        let trunc: Vec<i64> = b.h[..512].to_vec();
        let even: Vec<i64> = (0..512).map(|k| b.h[2 * k]).collect();
        for (name, h) in [("first-half", trunc), ("even-coefficients", even)] {
            let t = (false, format!("related-512-key-{}", name), a.msg.clone(), sa.clone(), spec::pk_encode(&h));
            out.push(vec![tb.clone(), t.clone(), tb.clone()]);
            out.push(vec![t.clone(), tb.clone(), t.clone(), ta.clone()]);
        }
    }
    out
}

fn related_variants(ctx: &Ctx, rep: &mut Report) {
    for seq in related_variant_sequences(ctx.seed, ctx.sz(6, 60)) {
        // every sequence in a FRESH thread: state left by the previous sequence (which used
        // the same keys) would mask the first step
        let seq_ref = &seq;
        let out = std::thread::scope(|s| {
            s.spawn(move || {
                let mut rep = Report::new();
                for (is1024, class, msg, sig, pk) in seq_ref {
                    if *is1024 {
                        check_triple::<F1024>(class, msg, sig, pk, &mut rep);
                    } else {
                        check_triple::<F512>(class, msg, sig, pk, &mut rep);
                    }
                }
                rep
            })
            .join()
        });
        match out {
            Ok(r) => rep.merge(r),
            Err(_) => rep.inconclusive("a sequence thread died".into()),
        }
        rep.count("related_variant_sequences", 1);
        rep.nontrivial(format!("related|{}", crate::util::hash64(&seq[1].4)).as_bytes());
    }
    rep.require("related_variant_sequences", 20);
}

/// x^{-j} * d in Z_q[X]/(X^n+1), times eps.
fn div_monomial(d: &[i64], j: usize, eps: i64) -> Vec<i64> {
    let n = d.len();
    let mut h = vec![0i64; n];
    for m in 0..n {
        // x^m * x^{-j}
        if m >= j {
            h[m - j] = spec::modq(eps * d[m]);
        } else {
            h[n + m - j] = spec::modq(-eps * d[m]);
        }
    }
    h
}

/// Fingerprint-colliding pairs in call sequences (see collide.rs):
///  (i)  two DIFFERENT public keys whose encodings (or coefficient lists) share a cheap
///       fingerprint, each with a valid signature on the same message: A, B, A, and A's
///       signature under B's key;
///  (ii) two DIFFERENT messages whose (salt || message) strings share a fingerprint: a valid
///       triple for the first, then the second message with the same signature and key
///       (Algorithm 16 rejects), then the first again.
/// All triples are crafted (s2 = +-x^j, s1 tiny, h = (c - s1)/s2), so tens of thousands of
/// candidates cost nothing; the reference verifier decides every verdict.
fn collisions_v<V: Fv>(ctx: &Ctx, rep: &mut Report) {
    let n = V::N;
    let mut rng = rng_for(ctx.seed, &format!("c02-collide-{}", V::NAME));
    let salt = rand_bytes(&mut rng, 40);
    let msg = b"fingerprint collisions".to_vec();
    let mut rm = salt.clone();
    rm.extend_from_slice(&msg);
    let c = spec::hash_to_point(&rm, n);
    // (i) candidate public keys: parameters only are stored
    let ncand = ctx.sz(240_000, 1_500_000);
    let params: Vec<(usize, i64, u64)> = (0..ncand).map(|_| (rng.gen_range(0..n), if rng.gen() { 1 } else { -1 }, rng.gen())).collect();
    let make = |p: &(usize, i64, u64)| -> (Vec<i64>, Vec<i64>, Vec<i64>) {
        let mut r = rng_for(p.2, "c02-collide-s1");
        let mut s1 = vec![0i64; n];
        for _ in 0..4 {
            s1[r.gen_range(0..n)] = r.gen_range(-2..=2);
        }
        let d: Vec<i64> = (0..n).map(|i| spec::modq(c[i] - s1[i])).collect();
        let mut s2 = vec![0i64; n];
        s2[p.0] = p.1;
        (s1, s2, div_monomial(&d, p.0, p.1))
    };
    let coef_names: [&'static str; 6] = ["coef-sum-u32", "coef-sum-u16", "coef-xor", "coef-sum-mod-q", "coef-first", "coef-first-last"];
    // fingerprints are computed in parallel chunks, collisions found on the merged table
    let chunks = 64;
    let tables: std::sync::Mutex<Vec<(usize, [u64; 13], [u64; 6])>> = std::sync::Mutex::new(Vec::with_capacity(ncand));
    par_for(chunks, ncpu(), |ch, _| {
        let mut local = vec![];
        for i in (ch..ncand).step_by(chunks) {
            let (_, _, h) = make(&params[i]);
            let pkb = spec::pk_encode(&h);
            let sum: u64 = h.iter().map(|&x| x as u64).sum();
            let cf = [sum & 0xffff_ffff, sum & 0xffff, h.iter().fold(0u64, |a, &x| a ^ x as u64), sum % spec::Q as u64, h[0] as u64, ((h[0] as u64) << 16) | h[n - 1] as u64];
            local.push((i, crate::collide::fingerprints(&pkb), cf));
        }
        tables.lock().unwrap().extend(local);
    });
    let mut table = tables.into_inner().unwrap();
    table.sort_by_key(|x| x.0);
    let mut found: Vec<(String, usize, usize)> = vec![];
    for k in 0..13 + 6 {
        let name = if k < 13 { format!("pk-bytes-{}", crate::collide::NAMES[k]) } else { format!("pk-{}", coef_names[k - 13]) };
        let mut seen: std::collections::HashMap<u64, usize> = std::collections::HashMap::new();
        let mut cnt = 0;
        for (i, fb, fc) in table.iter() {
            let v = if k < 13 { fb[k] } else { fc[k - 13] };
            if let Some(&j) = seen.get(&v) {
                // different shifts: with the same s2 the two keys differ by a few units only and
                // a stale key would give the same verdict (nothing to observe)
                if params[j].0 != params[*i].0 {
                    found.push((name.clone(), j, *i));
                    cnt += 1;
                    if cnt >= 3 {
                        break;
                    }
                }
            } else {
                seen.insert(v, *i);
            }
        }
    }
    drop(table);
    for (name, a, b) in found {
        let (_, s2a, ha) = make(&params[a]);
        let (_, s2b, hb) = make(&params[b]);
        if ha == hb {
            continue;
        }
        let l = V::SIG_LEN - 41;
        let (sa, sb) = (build_sig::<V>(&salt, &spec::compress(&s2a, l).unwrap()), build_sig::<V>(&salt, &spec::compress(&s2b, l).unwrap()));
        let (pa, pb) = (spec::pk_encode(&ha), spec::pk_encode(&hb));
        let cls = format!("collide-{}", name);
        let o1 = check_triple::<V>(&cls, &msg, &sa, &pa, rep);
        let o2 = check_triple::<V>(&cls, &msg, &sb, &pb, rep);
        check_triple::<V>(&cls, &msg, &sa, &pa, rep);
        check_triple::<V>(&format!("{}-cross", cls), &msg, &sa, &pb, rep);
        check_triple::<V>(&cls, &msg, &sb, &pb, rep);
        if !matches!((o1, o2), (Some((true, _)), Some((true, _)))) {
            rep.inconclusive(format!("collision triple construction not accepted by the reference ({})", name));
        }
        rep.count("pk_fingerprint_colliding_pairs", 1);
        rep.count(&format!("collide_{}", name), 1);
        rep.nontrivial(format!("{}|{}|{}|{}", V::NAME, name, a, b).as_bytes());
    }
    // (ii) colliding messages under one salt
    let nm = ctx.sz(600_000, 3_000_000);
    let strings: Vec<Vec<u8>> = (0..nm)
        .map(|_| {
            let m: [u8; 8] = rng.gen();
            let mut v = salt.clone();
            v.extend_from_slice(&m);
            v
        })
        .collect();
    for (name, a, b) in crate::collide::pairs(&strings, 2) {
        if name == "first8" {
            continue; // the salt: every pair agrees there
        }
        let (ma, mb) = (&strings[a][40..], &strings[b][40..]);
        let ca = spec::hash_to_point(&strings[a], n);
        let j = rng.gen_range(0..n);
        let mut s1 = vec![0i64; n];
        s1[rng.gen_range(0..n)] = 1;
        let d: Vec<i64> = (0..n).map(|i| spec::modq(ca[i] - s1[i])).collect();
        let mut s2 = vec![0i64; n];
        s2[j] = 1;
        let h = div_monomial(&d, j, 1);
        let sg = build_sig::<V>(&salt, &spec::compress(&s2, V::SIG_LEN - 41).unwrap());
        let pk = spec::pk_encode(&h);
        let cls = format!("collide-msg-{}", name);
        let o1 = check_triple::<V>(&cls, ma, &sg, &pk, rep);
        let o2 = check_triple::<V>(&format!("{}-other-message", cls), mb, &sg, &pk, rep);
        check_triple::<V>(&cls, ma, &sg, &pk, rep);
        let (v1, v2) = (o1.map(|x| x.0), o2.map(|x| x.0));
        if (v1, v2) != (Some(true), Some(false)) {
            rep.inconclusive(format!("message collision construction: reference verdicts {:?} / {:?}", v1, v2));
        }
        rep.count("message_fingerprint_colliding_pairs", 1);
        rep.nontrivial(format!("{}|msg|{}|{}|{}", V::NAME, name, a, b).as_bytes());
    }
}

/// Boundary operands in the NTT domain, all three at the same index: valid triples with
/// s2 = b (a constant, NTT = b everywhere), s1 = a (constant), h = (c - a)/b, for salts searched
/// so that NTT(c) holds a + b*v at some index; then NTT(h) = v there, for every v in a set of
/// boundary residues. verify's pointwise arithmetic sees (c^, s2^, h^) = (a + b v, b, v).
/// Crafted valid triples whose TRANSFORM-domain operands sit on boundary values in one slot:
/// s2 = b (constant), h = (c - a)/b, so that s2^ = b, h^ takes the value v in the slot where the
/// hashed message's transform equals a + b v. Returns (class, message, signature, public key,
/// needed c^ value, a, b, v).
pub fn ntt_boundary_triples<V: Fv>(seed: u64, max_salts: usize) -> Vec<(String, Vec<u8>, Vec<u8>, Vec<u8>, i64, i64, i64, i64)> {
    let n = V::N;
    let q = spec::Q;
    let psi = spec::find_psi(n);
    let vals = [0i64, 1, 2, q - 1, q - 2, (q - 1) / 2, (q + 1) / 2];
    let mut targets: Vec<(i64, i64, i64, i64)> = vec![]; // (a, b, v, needed c^)
    for a in [0i64, 1, -1, 2, -2] {
        for b in [1i64, -1, 2, -2] {
            for v in vals {
                targets.push((a, b, v, spec::modq(a + b * v)));
            }
        }
    }
    let msg = b"ntt boundary".to_vec();
    let mut todo: Vec<bool> = vec![true; targets.len()];
    let mut rng = rng_for(seed, &format!("c02-nttb-{}", V::NAME));
    let mut out = vec![];
    for _ in 0..max_salts {
        if !todo.iter().any(|&t| t) {
            break;
        }
        let salt = rand_bytes(&mut rng, 40);
        let mut rm = salt.clone();
        rm.extend_from_slice(&msg);
        let c = spec::hash_to_point(&rm, n);
        let chat = spec::dft_q(&c, psi);
        let present: std::collections::HashSet<i64> = chat.iter().cloned().collect();
        for (ti, &(a, b, v, need)) in targets.iter().enumerate() {
            if !todo[ti] || !present.contains(&need) {
                continue;
            }
            todo[ti] = false;
            let binv = spec::powm(spec::modq(b), q - 2);
            let h: Vec<i64> = (0..n).map(|i| spec::modq((c[i] - if i == 0 { a } else { 0 }) * binv)).collect();
            let mut s2 = vec![0i64; n];
            s2[0] = b;
            let sg = build_sig::<V>(&salt, &spec::compress(&s2, V::SIG_LEN - 41).unwrap());
            out.push((format!("ntt-boundary-c{}-s{}-h{}", need, spec::modq(b), v), msg.clone(), sg, spec::pk_encode(&h), need, a, b, v));
        }
    }
    out
}

fn ntt_boundary_v<V: Fv>(ctx: &Ctx, rep: &mut Report) {
    let q = spec::Q;
    for (class, msg, sg, pkb, need, a, b, v) in ntt_boundary_triples::<V>(ctx.seed, ctx.sz(120, 600)) {
        let out = check_triple::<V>(&class, &msg, &sg, &pkb, rep);
        if !matches!(out, Some((true, _))) {
            rep.inconclusive(format!("NTT boundary construction not accepted by the reference (a={}, b={}, v={})", a, b, v));
        }
        rep.count("ntt_boundary_triples", 1);
        if need == 0 || need == q - 1 {
            rep.count("ntt_boundary_triples_with_extreme_challenge", 1);
        }
        rep.nontrivial(format!("{}|nttb|{}|{}|{}", V::NAME, a, b, v).as_bytes());
    }
}

/// verify as the FIRST crate operation of a fresh process, by several threads at once (see
/// cold.rs), on crafted triples with a known verdict.
pub fn cold_start(ctx: &Ctx, rep: &mut Report) {
    let mut rng = rng_for(ctx.seed, "c02-cold");
    let mut triples: Vec<Vec<String>> = vec![];
    for i in 0..16 {
        let (n, bound, l, hdr) = if i % 2 == 0 { (512usize, F512::BOUND, 625usize, 0x59u8) } else { (1024, F1024::BOUND, 1239, 0x5a) };
        let d = [0i64, 1, -1, 12289][i / 2 % 4];
        if let Some(c) = craft_exact(n, bound + d, (i % 4) as u32, &mut rng) {
            if let Some(body) = spec::compress(&c.s2, l) {
                let mut sb = vec![hdr];
                sb.extend_from_slice(&c.salt);
                sb.extend_from_slice(&body);
                triples.push(vec![n.to_string(), hex(&c.msg), hex(&sb), hex(&spec::pk_encode(&c.h)), (c.norm <= bound).to_string()]);
            }
        }
    }
    if triples.is_empty() {
        rep.inconclusive("no crafted triples".into());
        return;
    }
    let t = &triples;
    super::cold::parent(ctx, "C02", &["verify"], &[1], ctx.sz(1000, 8000), &|i| t[i % t.len()].clone(), rep);
    rep.require("cold_start_processes", 60);
}

pub fn boundary(ctx: &Ctx, rep: &mut Report) {
    collisions_v::<F512>(ctx, rep);
    collisions_v::<F1024>(ctx, rep);
    rep.require("pk_fingerprint_colliding_pairs", 20);
    rep.require("message_fingerprint_colliding_pairs", 10);
    ntt_boundary_v::<F512>(ctx, rep);
    ntt_boundary_v::<F1024>(ctx, rep);
    rep.require("ntt_boundary_triples", 200);
    overflow_v::<F512>(ctx, rep);
    overflow_v::<F1024>(ctx, rep);
    rep.require("overflow_layout_triples", 20);
    rep.require("overflow_two-step-block", 2);
    // valid triples on (salt, message) pairs whose hash stream is EXTREME (many rejected chunks
    // early, a threshold chunk late in the stream; found with the reference SHAKE, see C14): with
    // s2 = 1 and h = c - s1 the triple is valid exactly if verify hashes to the same point c
    {
        let (xs, tails) = super::c14::extreme_inputs_ex(ctx.seed ^ 0x202, ctx.sz(12_000_000, 200_000_000), ctx.sz(400, 6000));
        for (kind, list) in [("extreme-hash", xs.iter().take(ctx.sz(300, 4000)).collect::<Vec<_>>()), ("late-threshold-hash", tails.iter().take(ctx.sz(150, 2000)).collect::<Vec<_>>())] {
            for (i, (_, s)) in list.iter().enumerate() {
                let (salt, msg) = (&s[..40], &s[40..]);
                for n in [512usize, 1024] {
                    if n == 1024 && i % 4 != 0 {
                        continue;
                    }
                    let c = spec::hash_to_point(s, n);
                    let mut s1 = vec![0i64; n];
                    s1[i % n] = 3;
                    s1[(i * 7 + 1) % n] = -2;
                    let h: Vec<i64> = (0..n).map(|t| spec::modq(c[t] - s1[t])).collect();
                    let mut s2 = vec![0i64; n];
                    s2[0] = 1;
                    let pkb = spec::pk_encode(&h);
                    if n == 512 {
                        let sg = build_sig::<F512>(salt, &spec::compress(&s2, 625).unwrap());
                        check_triple::<F512>(kind, msg, &sg, &pkb, rep);
                    } else {
                        let sg = build_sig::<F1024>(salt, &spec::compress(&s2, 1239).unwrap());
                        check_triple::<F1024>(kind, msg, &sg, &pkb, rep);
                    }
                    rep.count("valid_triples_on_extreme_hash_inputs", 1);
                }
                rep.nontrivial(s);
            }
        }
        rep.require("valid_triples_on_extreme_hash_inputs", 200);
    }
    // VOLUME: one valid and one invalid triple verified again and again on all cores: verify is
    // a function of its arguments (internal randomness such as blinding must never change it)
    {
        let mut rng = rng_for(ctx.seed, "c02-volume");
        for (n, bound, l, hdr) in [(512usize, F512::BOUND, 625usize, 0x59u8), (1024, F1024::BOUND, 1239, 0x5a)] {
            for d in [0i64, 1] {
                let c = match craft_exact(n, bound + d, 0, &mut rng) {
                    Some(c) => c,
                    None => continue,
                };
                let body = match spec::compress(&c.s2, l) {
                    Some(b) => b,
                    None => continue,
                };
                let mut sb = vec![hdr];
                sb.extend_from_slice(&c.salt);
                sb.extend_from_slice(&body);
                let pkb = spec::pk_encode(&c.h);
                let want = d == 0;
                let reps = ctx.sz(120_000, 3_000_000);
                let r = par_for(64, ncpu(), |ci, rep| {
                    fn go<V: Fv>(msg: &[u8], sb: &[u8], pkb: &[u8], want: bool, count: usize, ci: usize, rep: &mut Report) {
                        let (sig, pk) = match (V::sig_from_bytes(sb), V::pk_from_bytes(pkb)) {
                            (Ok(s), Ok(p)) => (s, p),
                            _ => return,
                        };
                        for it in 0..count {
                            let got = monitored(|| V::verify(msg, &sig, &pk));
                            if got.as_ref().ok() != Some(&want) {
                                rep.violation("verify:not-a-function-of-its-arguments", format!("{}: repetition {} of chunk {} of one fixed triple gave {:?}, Algorithm 16 says {}", V::NAME, it, ci, got.ok(), want), json!({"variant": V::NAME, "class": "volume", "msg": hex(msg), "sig": hex(sb), "pk": hex(pkb)}));
                                break;
                            }
                        }
                        rep.count("repeated_verifications_of_one_triple", count as u64);
                        rep.evaluations += count as u64;
                    }
                    if n == 512 {
                        go::<F512>(&c.msg, &sb, &pkb, want, reps / 64, ci, rep);
                    } else {
                        go::<F1024>(&c.msg, &sb, &pkb, want, reps / 64, ci, rep);
                    }
                });
                rep.merge(r);
            }
        }
    }
    // EXACT-FIT signatures with a quiet tail: s2 fills its buffer to the very last bit (no
    // padding) and its last coefficients are all below 128 (nine bits each); the unary mass sits
    // in front (coefficients in [128, 255]); norm well inside the bound: Algorithm 16 accepts
    {
        let mut rng = rng_for(ctx.seed, "c02-exact-fit-tail");
        for rep_i in 0..ctx.sz(12, 200) {
            for (n, l) in [(512usize, 625usize), (1024, 1239)] {
                let extra = 8 * l - 9 * n; // coefficients that need one more bit
                let tail = [8usize, 9, 16, 40][rep_i % 4];
                let mut s2: Vec<i64> = (0..n).map(|_| rng.gen_range(-100i64..=100)).collect();
                // `extra` positions among the first n - tail get a magnitude in [128, 255]
                let mut idx: Vec<usize> = (0..n - tail).collect();
                for k in (1..idx.len()).rev() {
                    let j = rng.gen_range(0..=k);
                    idx.swap(k, j);
                }
                for &i in idx.iter().take(extra) {
                    s2[i] = rng.gen_range(128i64..=255) * if rng.gen() { 1 } else { -1 };
                }
                if spec::compressed_bits(&s2) != 8 * l {
                    continue;
                }
                let s1: Vec<i64> = (0..n).map(|_| rng.gen_range(-3i64..=3)).collect();
                if let Some(c) = crate::gen::craft_from(n, s1, s2, &mut rng) {
                    let body = spec::compress(&c.s2, l).unwrap();
                    let pkb = spec::pk_encode(&c.h);
                    let out = if n == 512 { check_triple::<F512>("exact-fit-quiet-tail", &c.msg, &build_sig::<F512>(&c.salt, &body), &pkb, rep) } else { check_triple::<F1024>("exact-fit-quiet-tail", &c.msg, &build_sig::<F1024>(&c.salt, &body), &pkb, rep) };
                    if matches!(out, Some((true, _))) {
                        rep.count("exact_fit_quiet_tail_triples", 1);
                    }
                }
            }
        }
        rep.require("exact_fit_quiet_tail_triples", 8);
    }
    // ONE TALL coefficient in s2 (everything else zero, s1 = 0): magnitudes around the square roots
    // of both acceptance bounds (5833.9 and 8382.4) at several positions, both signs: accepted by
    // Algorithm 16 iff k^2 <= the variant's own bound
    {
        let mut rng = rng_for(ctx.seed, "c02-spike");
        for (n, l) in [(512usize, 625usize), (1024, 1239)] {
            for k in [5000i64, 5833, 5834, 5835, 6000, 7000, 8000, 8382, 8383, 8384, 9000, 12000] {
                for (pi, pos) in [0usize, 1, n / 2, n - 1].iter().enumerate() {
                    let mut s2 = vec![0i64; n];
                    s2[*pos] = if pi % 2 == 0 { k } else { -k };
                    if let Some(c) = crate::gen::craft_from(n, vec![0i64; n], s2, &mut rng) {
                        if let Some(body) = spec::compress(&c.s2, l) {
                            let pkb = spec::pk_encode(&c.h);
                            if n == 512 {
                                check_triple::<F512>(&format!("single-tall-coefficient-{}", k), &c.msg, &build_sig::<F512>(&c.salt, &body), &pkb, rep);
                            } else {
                                check_triple::<F1024>(&format!("single-tall-coefficient-{}", k), &c.msg, &build_sig::<F1024>(&c.salt, &body), &pkb, rep);
                            }
                            rep.count("single_tall_coefficient_triples", 1);
                        }
                    }
                }
            }
        }
        rep.require("single_tall_coefficient_triples", 60);
    }
    // MESSAGE-LENGTH sweep: a valid triple (s2 = 1, tiny s1, h = c - s1 with c from the reference
    // hash of the WHOLE message) for every message length 0..=8448
    {
        let mut rng = rng_for(ctx.seed, "c02-msglen");
        let base: Vec<u8> = rand_bytes(&mut rng, 8448);
        let salt = rand_bytes(&mut rng, 40);
        for len in 0..=8448usize {
            let n = if len % 3 == 0 { 1024 } else { 512 };
            let msg = &base[..len];
            let mut rm = salt.clone();
            rm.extend_from_slice(msg);
            let c = spec::hash_to_point(&rm, n);
            let mut s1 = vec![0i64; n];
            s1[len % n] = 2;
            let h: Vec<i64> = (0..n).map(|t| spec::modq(c[t] - s1[t])).collect();
            let mut s2 = vec![0i64; n];
            s2[0] = 1;
            let pkb = spec::pk_encode(&h);
            if n == 512 {
                check_triple::<F512>("message-length-sweep", msg, &build_sig::<F512>(&salt, &spec::compress(&s2, 625).unwrap()), &pkb, rep);
            } else {
                check_triple::<F1024>("message-length-sweep", msg, &build_sig::<F1024>(&salt, &spec::compress(&s2, 1239).unwrap()), &pkb, rep);
            }
            rep.count("message_lengths_swept", 1);
        }
        rep.require("message_lengths_swept", 8000);
    }
    interleaved(ctx, rep);
    related_variants(ctx, rep);
    // verify while a thread is being torn down (see C13): crafted triples at the bound
    {
        let mut rng = rng_for(ctx.seed, "c02-teardown");
        for ti in 0..ctx.sz(24, 200) {
            let (n, bound, l, hdr) = if ti % 2 == 0 { (512usize, F512::BOUND, 625usize, 0x59u8) } else { (1024, F1024::BOUND, 1239, 0x5a) };
            let d = [0i64, 1, -1][ti % 3];
            let c = match craft_exact(n, bound + d, (ti % 4) as u32, &mut rng) {
                Some(c) => c,
                None => continue,
            };
            let body = match spec::compress(&c.s2, l) {
                Some(b) => b,
                None => continue,
            };
            let mut sb = vec![hdr];
            sb.extend_from_slice(&c.salt);
            sb.extend_from_slice(&body);
            let pkb = spec::pk_encode(&c.h);
            let (msg, sb2, pkb2) = (c.msg.clone(), sb.clone(), pkb.clone());
            let warm = ti % 3 != 0;
            let (wm, ws, wp) = (c.msg.clone(), sb.clone(), pkb.clone());
            let res = crate::util::run_at_thread_exit(
                move || {
                    if warm {
                        let mut scratch = Report::new();
                        if n == 512 {
                            check_triple::<F512>("warm-up", &wm, &ws, &wp, &mut scratch);
                        } else {
                            check_triple::<F1024>("warm-up", &wm, &ws, &wp, &mut scratch);
                        }
                    }
                },
                move || {
                    let mut rep = Report::new();
                    if n == 512 {
                        check_triple::<F512>("thread-exit", &msg, &sb2, &pkb2, &mut rep);
                    } else {
                        check_triple::<F1024>("thread-exit", &msg, &sb2, &pkb2, &mut rep);
                    }
                    rep.violations.first().map(|v| format!("{}: {}", v.signature, v.detail))
                },
            );
            rep.evaluations += 1;
            match res {
                Ok(None) => rep.count("verifications_during_thread_exit", 1),
                Ok(Some(what)) => rep.violation("verify:wrong-during-thread-exit", what, json!({"variant": if n == 512 { "falcon512" } else { "falcon1024" }, "class": "thread-exit", "msg": hex(&c.msg), "sig": hex(&sb), "pk": hex(&pkb)})),
                Err(e) if e.contains("did not run") => rep.inconclusive(e),
                Err(e) => rep.violation("panic:verify-during-thread-exit", e, json!({"variant": if n == 512 { "falcon512" } else { "falcon1024" }, "class": "thread-exit", "msg": hex(&c.msg), "sig": hex(&sb), "pk": hex(&pkb)})),
            }
        }
        rep.require("verifications_during_thread_exit", 10);
    }
    boundary_v::<F512>(ctx, rep);
    boundary_v::<F1024>(ctx, rep);
    lenient_v::<F512>(ctx, rep);
    lenient_v::<F1024>(ctx, rep);
    rep.require("lenient_malformed_cases", 100);
    rep.require("exact_fit_accepted_triples", 4);
    for k in ["at_bound-1", "at_bound+0", "at_bound+1"] {
        rep.require(k, 20);
    }
    rep.require("with_s1_at_range_edge", 4);
    rep.require("with_s2_carrying_more_than_half_the_bound", 10);
    rep.require("long_unary_cases", 20);
}

pub fn replay(r: &Value) -> bool {
    fn go<V: Fv>(r: &Value) -> bool {
        let mut rep = Report::new();
        // a sequence-dependent finding: its predecessor first, on this thread (the verdict on
        // the predecessor is not part of this replay)
        let p = &r["verified_just_before"];
        if p.is_object() {
            let mut scratch = Report::new();
            let (m, s, k) = (unhex(p["msg"].as_str().unwrap_or("")), unhex(p["sig"].as_str().unwrap_or("")), unhex(p["pk"].as_str().unwrap_or("")));
            if p["variant"] == "falcon512" {
                check_triple::<F512>("predecessor", &m, &s, &k, &mut scratch);
            } else {
                check_triple::<F1024>("predecessor", &m, &s, &k, &mut scratch);
            }
        }
        let out = check_triple::<V>(
            r["class"].as_str().unwrap_or("replay"),
            &unhex(r["msg"].as_str().unwrap()),
            &unhex(r["sig"].as_str().unwrap()),
            &unhex(r["pk"].as_str().unwrap()),
            &mut rep,
        );
        println!("reference verdict: {:?}", out);
        crate::util::print_replay(&rep)
    }
    match r["variant"].as_str().unwrap_or("") {
        "falcon512" => go::<F512>(r),
        _ => go::<F1024>(r),
    }
}
