//! C16: keys and signatures interoperate with the reference implementation (PQClean via
//! pqcrypto-falcon). PQClean is the oracle here, not the subject; it runs uninstrumented.

use serde_json::{json, Value};

use crate::fv::{reframe_from_pq, reframe_to_pq, Fv, F1024, F512};
use crate::gen::message;
use crate::util::{counter_seed, hex, monitored, ncpu, par_for, rng_for, seed32, short_loc, unhex, Ctx, Report};

fn own_key<V: Fv>(seed: [u8; 32], nmsgs: usize, vseed: u64, rep: &mut Report) {
    rep.evaluations += 1;
    let replay = || json!({"variant": V::NAME, "dir": "own-key", "seed": hex(&seed)});
    let (sk, pk) = match monitored(|| V::keygen(seed)) {
        Ok(k) => k,
        Err(p) => {
            rep.violation(&format!("panic:keygen@{}", short_loc(&p.location)), p.message.clone(), replay());
            return;
        }
    };
    let (skb, pkb) = (V::sk_to_bytes(&sk), V::pk_to_bytes(&pk));
    if let Some(k0) = Some(&crate::pool::Key::<V> { seed, sk: sk.clone(), pk: pk.clone() }) {
        if !crate::signer::canary::<V>(&k0.sk) {
            rep.inconclusive("sign does not terminate or panics on a fresh key (reported by C01); this leg needs working signatures".into());
            return;
        }
    }
    if !V::pq_pk_ok(&pkb) {
        rep.violation("interop:reference-rejects-own-public-key", format!("{}: PQClean does not accept pk.to_bytes()", V::NAME), replay());
        return;
    }
    // tail-steered signatures (steer.rs): one s2 coefficient beyond six standard deviations, in
    // either direction; the reference verifier must accept them like any other
    if seed[2] % 8 == 0 {
        for flip in [false, true] {
            let j = (seed[3] as usize * 7) % V::N;
            if let Some(bits) = crate::steer::plan::<V>(&sk, j, flip) {
                let msg = b"tail-steered interop".to_vec();
                let srng = crate::gen::ScriptedRng::new(vseed, &format!("c16-tail-{}-{}", hex(&seed[..6]), flip), crate::gen::Strategy::Directed { bits }, crate::signer::progress_budget(V::N));
                if let Ok(sig) = crate::signer::sign_scripted::<V>(&msg, &sk, srng, false, 0).sig {
                    let sb = V::sig_to_bytes(&sig);
                    let ext = crate::refs::spec::decompress(&sb[41..], V::N).map(|v| v.iter().map(|x| x.abs()).max().unwrap_or(0)).unwrap_or(0);
                    rep.stat_max("max_abs_s2_in_tail_steered_signatures", ext as f64);
                    rep.evaluations += 1;
                    if ext > 2047 {
                        // the reference format stops at +-2047 (twelve standard deviations); the
                        // steering overshot it: not an honest-signature shape, nothing to compare
                        rep.count("tail_steered_beyond_reference_range_skipped", 1);
                        continue;
                    }
                    let pq = reframe_to_pq(&sb, V::LOGN);
                    match V::pq_verify(&pq, &msg, &pkb) {
                        Some(true) => rep.count("tail_steered_sig_accepted_by_reference", 1),
                        other => rep.violation(
                            "interop:reference-rejects-own-signature",
                            format!("{}: PQClean result {:?} for a falcon-rust signature with an s2 coefficient of magnitude {} (tail-steered)", V::NAME, other, ext),
                            json!({"variant": V::NAME, "dir": "own-sig", "seed": hex(&seed), "msg": hex(&msg), "sig": hex(&sb)}),
                        ),
                    }
                }
            }
        }
    }
    // Falcon-1024: signatures made under a wide-candidate generator stream (norm rejections and
    // GENUINE compression failures before the attempt that succeeds): the reference must accept
    if V::N == 1024 {
        for w in 0..8 {
            let strat = crate::gen::Strategy::ForceAccept { rate_pm: 150, groups: 6 * 1024 };
            let srng = crate::gen::ScriptedRng::new(vseed, &format!("c16-wide-{}-{}", hex(&seed[..6]), w), strat, crate::signer::progress_budget(V::N));
            let msg = format!("wide candidates {}", w).into_bytes();
            let out = crate::signer::sign_scripted::<V>(&msg, &sk, srng, false, 0);
            if let Ok(sig) = out.sig {
                let sb = V::sig_to_bytes(&sig);
                rep.evaluations += 1;
                let pq = reframe_to_pq(&sb, V::LOGN);
                match V::pq_verify(&pq, &msg, &pkb) {
                    Some(true) => {
                        rep.count("wide_candidate_sig_accepted_by_reference", 1);
                        if out.compress_fails > 0 {
                            rep.count("sig_after_genuine_compression_failure_accepted_by_reference", 1);
                        }
                    }
                    other => rep.violation(
                        "interop:reference-rejects-own-signature",
                        format!("{}: PQClean result {:?} for a falcon-rust signature made after {} norm rejections and {} genuine compression failures", V::NAME, other, out.norm_rejects, out.compress_fails),
                        json!({"variant": V::NAME, "dir": "own-sig", "seed": hex(&seed), "msg": hex(&msg), "sig": hex(&sb)}),
                    ),
                }
            }
        }
    }
    let mut rng = rng_for(vseed, &format!("c16-own-{}", hex(&seed[..8])));
    let mut sk_importable = true;
    for m in 0..nmsgs {
        let (shape, msg) = message(m + seed[1] as usize, &mut rng, 2000);
        rep.evaluations += 2;
        // own signature -> reference verifier
        match monitored(|| V::sig_to_bytes(&V::sign(&msg, &sk))) {
            Err(_) => return, // C01's business
            Ok(sb) => {
                let pq = reframe_to_pq(&sb, V::LOGN);
                match V::pq_verify(&pq, &msg, &pkb) {
                    Some(true) => rep.count("own_sig_accepted_by_reference", 1),
                    other => rep.violation(
                        "interop:reference-rejects-own-signature",
                        format!("{}: PQClean result {:?} for a falcon-rust signature (message shape {}, reframed length {})", V::NAME, other, shape, pq.len()),
                        json!({"variant": V::NAME, "dir": "own-sig", "seed": hex(&seed), "msg": hex(&msg), "sig": hex(&sb)}),
                    ),
                }
            }
        }
        // exported secret key -> reference signs -> both verify
        if sk_importable {
            match V::pq_sign(&msg, &skb) {
                None => {
                    sk_importable = false;
                    let b0 = V::basis(&sk);
                    let mx = |p: &Vec<i16>| p.iter().map(|x| (*x as i32).abs()).max().unwrap();
                    rep.violation(
                        "interop:reference-rejects-own-secret-key",
                        format!("{}: PQClean refuses to import sk.to_bytes() (max|f|={} max|g|={} max|F|={} max|G|={})", V::NAME, mx(&b0[1]), mx(&b0[0]), mx(&b0[3]), mx(&b0[2])),
                        replay(),
                    );
                }
                Some(ds) if ds.len() < 42 => {
                    // PQClean's sign returns an empty signature when the secret key bytes do
                    // not decode (the wrapper's from_bytes only checks the length)
                    sk_importable = false;
                    let b0 = V::basis(&sk);
                    let mx = |p: &Vec<i16>| p.iter().map(|x| (*x as i32).abs()).max().unwrap();
                    rep.violation(
                        "interop:reference-rejects-own-secret-key",
                        format!("{}: PQClean cannot sign with sk.to_bytes() (max|f|={} max|g|={} max|F|={} max|G|={})", V::NAME, mx(&b0[1]), mx(&b0[0]), mx(&b0[3]), mx(&b0[2])),
                        replay(),
                    );
                }
                Some(ds) => {
                    let okp = V::pq_verify(&ds, &msg, &pkb) == Some(true);
                    let okf = reframe_from_pq(&ds, V::LOGN, V::SIG_LEN).and_then(|b| V::sig_from_bytes(&b).ok()).map(|s| monitored(|| V::verify(&msg, &s, &pk)).unwrap_or(false)).unwrap_or(false);
                    if !okp || !okf {
                        rep.violation(
                            "interop:signature-by-reference-with-exported-key-rejected",
                            format!("{}: signature made by PQClean with the exported secret key: reference verify = {}, falcon-rust verify = {} (length {})", V::NAME, okp, okf, ds.len()),
                            json!({"variant": V::NAME, "dir": "ref-sig-own-key", "seed": hex(&seed), "msg": hex(&msg), "refsig": hex(&ds)}),
                        );
                    } else {
                        rep.count("reference_sig_with_exported_key_accepted", 1);
                    }
                }
            }
        }
    }
    rep.count("own_keys", 1);
    rep.nontrivial(&seed);
}

fn reference_key<V: Fv>(idx: usize, nmsgs: usize, vseed: u64, rep: &mut Report) {
    rep.evaluations += 1;
    let (pkb, skb) = V::pq_keypair();
    let replay = || json!({"variant": V::NAME, "dir": "reference-key", "pk": hex(&pkb), "sk": hex(&skb)});
    let dec = monitored(|| (V::pk_from_bytes(&pkb), V::sk_from_bytes(&skb)));
    let (pk, sk) = match dec {
        Err(p) => {
            rep.violation(&format!("panic:from_bytes@{}", short_loc(&p.location)), p.message.clone(), replay());
            return;
        }
        Ok((Ok(a), Ok(b))) => (a, b),
        Ok((a, b)) => {
            rep.violation("interop:own-decoder-rejects-reference-key", format!("{}: falcon-rust refuses a PQClean key pair: pk {:?}, sk {:?}", V::NAME, a.err(), b.err()), replay());
            return;
        }
    };
    if V::pk_to_bytes(&pk) != pkb || V::sk_to_bytes(&sk) != skb {
        rep.violation("interop:reference-key-reencodes-differently", format!("{}: a PQClean key decoded and re-encoded by falcon-rust differs", V::NAME), replay());
    }
    if V::pk_to_bytes(&V::pk_from_sk(&sk)) != pkb {
        rep.violation("interop:public-key-derived-from-imported-secret-key-differs", format!("{}: pk derived from the imported PQClean secret key differs from PQClean's pk", V::NAME), replay());
    }
    let mut rng = rng_for(vseed, &format!("c16-ref-{}-{}", V::NAME, idx));
    for m in 0..nmsgs {
        let (shape, msg) = message(m * 3 + idx, &mut rng, 2000);
        rep.evaluations += 2;
        // falcon-rust signs with the imported key -> reference verifies
        if let Ok(sb) = monitored(|| V::sig_to_bytes(&V::sign(&msg, &sk))) {
            match V::pq_verify(&reframe_to_pq(&sb, V::LOGN), &msg, &pkb) {
                Some(true) => rep.count("own_sig_with_imported_key_accepted_by_reference", 1),
                other => rep.violation(
                    "interop:reference-rejects-signature-made-with-imported-key",
                    format!("{}: PQClean result {:?} for a falcon-rust signature under an imported PQClean key (shape {})", V::NAME, other, shape),
                    json!({"variant": V::NAME, "dir": "own-sig-ref-key", "pk": hex(&pkb), "msg": hex(&msg), "sig": hex(&sb)}),
                ),
            }
        }
        // reference signs -> falcon-rust verifies
        if let Some(ds) = V::pq_sign(&msg, &skb) {
            let okf = reframe_from_pq(&ds, V::LOGN, V::SIG_LEN).and_then(|b| V::sig_from_bytes(&b).ok()).map(|s| monitored(|| V::verify(&msg, &s, &pk)).unwrap_or(false)).unwrap_or(false);
            if okf {
                rep.count("reference_sig_accepted", 1);
            } else {
                rep.violation(
                    "interop:own-verify-rejects-reference-signature",
                    format!("{}: falcon-rust rejects a PQClean signature under a PQClean key (shape {}, length {})", V::NAME, shape, ds.len()),
                    json!({"variant": V::NAME, "dir": "ref-sig-ref-key", "pk": hex(&pkb), "msg": hex(&msg), "refsig": hex(&ds)}),
                );
            }
        }
    }
    rep.count("reference_keys", 1);
    rep.nontrivial(&pkb[..32]);
}

/// Signature SHAPES that honest signing produces once in millions, crafted (public key solved
/// from the hash): s2 filling its buffer to the last bit with a quiet tail. Whatever the
/// reference verifier accepts, falcon-rust must accept (and vice versa).
fn crafted_shapes<V: Fv>(ctx: &Ctx, rep: &mut Report) {
    use rand::Rng;
    let mut rng = rng_for(ctx.seed, &format!("c16-shapes-{}", V::NAME));
    let (n, l) = (V::N, V::SIG_LEN - 41);
    for rep_i in 0..ctx.sz(12, 200) {
        let extra = 8 * l - 9 * n;
        let tail = [8usize, 9, 16, 40][rep_i % 4];
        let mut s2: Vec<i64> = (0..n).map(|_| rng.gen_range(-100i64..=100)).collect();
        let mut idx: Vec<usize> = (0..n - tail).collect();
        for k in (1..idx.len()).rev() {
            let j = rng.gen_range(0..=k);
            idx.swap(k, j);
        }
        for &i in idx.iter().take(extra) {
            s2[i] = rng.gen_range(128i64..=255) * if rng.gen() { 1 } else { -1 };
        }
        if crate::refs::spec::compressed_bits(&s2) != 8 * l {
            continue;
        }
        let s1: Vec<i64> = (0..n).map(|_| rng.gen_range(-3i64..=3)).collect();
        if let Some(c) = crate::gen::craft_from(n, s1, s2, &mut rng) {
            let body = crate::refs::spec::compress(&c.s2, l).unwrap();
            let mut sb = vec![0x50 | V::LOGN];
            sb.extend_from_slice(&c.salt);
            sb.extend_from_slice(&body);
            let pkb = crate::refs::spec::pk_encode(&c.h);
            rep.evaluations += 1;
            let pq = V::pq_verify(&reframe_to_pq(&sb, V::LOGN), &c.msg, &pkb);
            let own = monitored(|| match (V::sig_from_bytes(&sb), V::pk_from_bytes(&pkb)) {
                (Ok(s), Ok(p)) => Some(V::verify(&c.msg, &s, &p)),
                _ => None,
            });
            match (pq, own) {
                (Some(a), Ok(Some(b))) if a == b => rep.count("crafted_shapes_agreeing_with_reference", 1),
                (a, b) => rep.violation(
                    "interop:verdicts-differ-on-a-crafted-signature-shape",
                    format!("{}: exact-fit signature with a quiet tail: PQClean says {:?}, falcon-rust says {:?}", V::NAME, a, b.ok().flatten()),
                    json!({"variant": V::NAME, "dir": "crafted-shape", "seed": "", "msg": hex(&c.msg), "sig": hex(&sb), "pk": hex(&pkb)}),
                ),
            }
        }
    }
}

/// MESSAGE-LENGTH sweep in both directions with one key: every length 3968..=4224 and every 61st
/// length up to 20000: own signature -> reference verifier, reference signature -> verify here.
fn length_sweep<V: Fv>(ctx: &Ctx, rep: &mut Report) {
    let (keys, _) = crate::pool::keys::<V>(ctx.seed, "c16-len", 1);
    let k = match keys.first() {
        Some(k) => k,
        None => return,
    };
    let (skb, pkb) = (V::sk_to_bytes(&k.sk), V::pk_to_bytes(&k.pk));
    let base: Vec<u8> = (0..20_000usize).map(|i| (i * 131 + 7) as u8).collect();
    let mut lens: Vec<usize> = (3968..=4224).collect();
    lens.extend((0..20_000).step_by(61));
    lens.extend([0usize, 1, 95, 96, 135, 136, 137, 4095, 4096, 4097, 8191, 8192, 8193, 16383, 16384, 16385]);
    let r = par_for(lens.len(), ncpu(), |i, rep| {
        let msg = &base[..lens[i]];
        rep.evaluations += 1;
        if let Ok(sb) = monitored(|| V::sig_to_bytes(&V::sign(msg, &k.sk))) {
            match V::pq_verify(&reframe_to_pq(&sb, V::LOGN), msg, &pkb) {
                Some(true) => rep.count("length_sweep_own_sig_accepted_by_reference", 1),
                other => rep.violation("interop:reference-rejects-own-signature", format!("{}: PQClean result {:?} for a falcon-rust signature on a message of {} bytes", V::NAME, other, msg.len()), json!({"variant": V::NAME, "dir": "own-sig", "seed": hex(&k.seed), "msg": format!("len:{}", msg.len()), "sig": hex(&sb)})),
            }
        }
        if i % 4 == 0 {
            if let Some(ds) = V::pq_sign(msg, &skb) {
                if ds.len() >= 42 {
                    let ok = reframe_from_pq(&ds, V::LOGN, V::SIG_LEN).and_then(|b| V::sig_from_bytes(&b).ok()).map(|s| monitored(|| V::verify(msg, &s, &k.pk)).unwrap_or(false)).unwrap_or(false);
                    if ok {
                        rep.count("length_sweep_reference_sig_accepted", 1);
                    } else {
                        rep.violation("interop:reference-signature-rejected", format!("{}: a PQClean signature (exported key) on a message of {} bytes is rejected by falcon-rust", V::NAME, msg.len()), json!({"variant": V::NAME, "dir": "ref-sig-own-key", "seed": hex(&k.seed), "msg": format!("len:{}", msg.len()), "refsig": hex(&ds)}));
                    }
                }
            }
        }
    });
    rep.merge(r);
}

/// (salt, message) pairs whose SHAKE stream rejects unusually many chunks early (selected with
/// the harness's own SHAKE): the salt is dictated to the signer through the generator hook; the
/// reference must accept the signature. Signer and verifier of one library share their
/// hash-to-point, so only an independent implementation notices a wrong tail of the hash.
fn extreme_hash_signatures<V: Fv>(ctx: &Ctx, rep: &mut Report) {
    let (keys, _) = crate::pool::keys::<V>(ctx.seed, "c16-xs", 2);
    if keys.is_empty() {
        return;
    }
    let xs = super::c14::extreme_inputs(ctx.seed ^ 0x1616, ctx.sz(6_000_000, 200_000_000), ctx.sz(300, 4000));
    let r = par_for(xs.len(), ncpu(), |i, rep| {
        let (chunks, s) = &xs[i];
        let k = &keys[i % keys.len()];
        let pkb = V::pk_to_bytes(&k.pk);
        let msg = &s[40..];
        let strat = crate::gen::Strategy::ForcedSalt { salt: s[..40].to_vec() };
        let rng = crate::gen::ScriptedRng::new(ctx.seed, &format!("c16-xs-{}-{}", V::NAME, i), strat, crate::signer::progress_budget(V::N));
        let out = crate::signer::sign_scripted::<V>(msg, &k.sk, rng, false, 0);
        rep.evaluations += 1;
        if let Ok(sig) = out.sig {
            let sb = V::sig_to_bytes(&sig);
            if sb[1..41] != s[..40] {
                rep.count("extreme_hash_salt_not_taken", 1);
                return;
            }
            match V::pq_verify(&reframe_to_pq(&sb, V::LOGN), msg, &pkb) {
                Some(true) => rep.count("extreme_hash_own_sig_accepted_by_reference", 1),
                other => rep.violation(
                    "interop:reference-rejects-own-signature",
                    format!("{}: PQClean result {:?} for a falcon-rust signature whose (salt, message) was selected for its many early rejections (selection score {})", V::NAME, other, chunks),
                    json!({"variant": V::NAME, "dir": "own-sig", "seed": hex(&k.seed), "msg": hex(msg), "sig": hex(&sb)}),
                ),
            }
            rep.stat_max("extreme_hash_selection_score_max", *chunks as f64);
            rep.nontrivial(s);
        }
    });
    rep.merge(r);
}

pub fn interop(ctx: &Ctx, rep: &mut Report) {
    extreme_hash_signatures::<F512>(ctx, rep);
    extreme_hash_signatures::<F1024>(ctx, rep);
    rep.require("extreme_hash_own_sig_accepted_by_reference", 200);
    length_sweep::<F512>(ctx, rep);
    length_sweep::<F1024>(ctx, rep);
    rep.require("length_sweep_own_sig_accepted_by_reference", 500);
    crafted_shapes::<F512>(ctx, rep);
    crafted_shapes::<F1024>(ctx, rep);
    rep.require("crafted_shapes_agreeing_with_reference", 8);
    if !crate::pool::keygen_responds::<F512>() {
        rep.inconclusive("key generation did not return within 180 s (canary); reported as inconclusive, never as a violation".into());
        return;
    }
    let nm = ctx.sz(12, 40);
    // own keys: regression seeds (|G| > 127 on the pinned tree) first
    let mut s512: Vec<[u8; 32]> = super::c05::REGRESSION_512.iter().map(|&i| counter_seed(i)).collect();
    let mut s1024: Vec<[u8; 32]> = super::c05::REGRESSION_1024.iter().map(|&i| counter_seed(i)).collect();
    for i in 0..ctx.sz(60, 4000) {
        s512.push(seed32(ctx.seed, &format!("c16-512-{}", i)));
    }
    for i in 0..ctx.sz(12, 800) {
        s1024.push(seed32(ctx.seed, &format!("c16-1024-{}", i)));
    }
    let r = par_for(s1024.len(), ncpu(), |i, rep| own_key::<F1024>(s1024[i], nm, ctx.seed, rep));
    rep.merge(r);
    let r = par_for(s512.len(), ncpu(), |i, rep| {
        own_key::<F512>(s512[i], nm, ctx.seed, rep);
        if i == 4 {
            rep.sample(json!({"direction": "falcon-rust key -> PQClean", "variant": "falcon512", "seed": hex(&s512[i]), "per_key": "pk import, sk import, own signatures verified by PQClean, PQClean signatures with the exported key verified by both"}));
        }
    });
    rep.merge(r);
    let r = par_for(ctx.sz(64, 2000), ncpu(), |i, rep| reference_key::<F512>(i, nm, ctx.seed, rep));
    rep.merge(r);
    let r = par_for(ctx.sz(24, 500), ncpu(), |i, rep| {
        reference_key::<F1024>(i, nm, ctx.seed, rep);
        if i == 0 {
            rep.sample(json!({"direction": "PQClean key -> falcon-rust", "variant": "falcon1024", "per_key": "pk/sk import and byte-identical re-encoding, pk derived from imported sk, signatures in both directions"}));
        }
    });
    rep.merge(r);
    for k in ["own_keys", "reference_keys"] {
        rep.require(k, 10);
    }
    for k in ["own_sig_accepted_by_reference", "reference_sig_with_exported_key_accepted", "own_sig_with_imported_key_accepted_by_reference", "reference_sig_accepted"] {
        rep.require(k, 100);
    }
}

pub fn replay(r: &Value) -> bool {
    fn go<V: Fv>(r: &Value) -> bool {
        let mut rep = Report::new();
        match r["dir"].as_str().unwrap_or("") {
            "own-key" => {
                let mut s = [0u8; 32];
                s.copy_from_slice(&unhex(r["seed"].as_str().unwrap()));
                own_key::<V>(s, 5, 1, &mut rep);
            }
            "own-sig" | "own-sig-ref-key" => {
                let pkb = if let Some(p) = r["pk"].as_str() {
                    unhex(p)
                } else {
                    let mut s = [0u8; 32];
                    s.copy_from_slice(&unhex(r["seed"].as_str().unwrap()));
                    V::pk_to_bytes(&V::keygen(s).1)
                };
                let out = V::pq_verify(&reframe_to_pq(&unhex(r["sig"].as_str().unwrap()), V::LOGN), &unhex(r["msg"].as_str().unwrap()), &pkb);
                println!("reference verifier on the recorded signature: {:?}", out);
                return out == Some(true);
            }
            _ => {
                println!("cases involving fresh reference keys/signatures are re-run through the leg (PQClean draws its own randomness)");
                crate::util::not_replayable();
                return false;
            }
        }
        crate::util::print_replay(&rep)
    }
    match r["variant"].as_str().unwrap_or("") {
        "falcon512" => go::<F512>(r),
        _ => go::<F1024>(r),
    }
}
