//! C13: the floating-point FFT layer is accurate; split/merge are inverse.

use rand::Rng;
use serde_json::{json, Value};

use crate::refs::fl::bitrev;
use crate::refs::spec;
use crate::util::{monitored, ncpu, par_for, rng_for, short_loc, Ctx, Report};
use falcon_rust::verif_hooks as vh;

const TOL: f64 = 9.313225746154785e-10; // 2^-30

pub fn table(_ctx: &Ctx, rep: &mut Report) {
    let t = match monitored(vh::complex_table) {
        Ok(t) => t,
        Err(p) => {
            rep.violation(&format!("panic:table@{}", short_loc(&p.location)), p.message.clone(), json!({"kind": "table"}));
            return;
        }
    };
    if t.len() != 1024 {
        rep.violation("ctable:wrong-size", format!("{}", t.len()), json!({"kind": "table"}));
        return;
    }
    let tol = 8.881784197001252e-16; // 2^-50
    let mut worst = 0.0f64;
    for (k, &(re, im)) in t.iter().enumerate() {
        rep.evaluations += 1;
        let ang = std::f64::consts::PI * (bitrev(k, 10) as f64) / 1024.0;
        let (wr, wi) = (ang.cos(), ang.sin());
        let err = (re - wr).abs().max((im - wi).abs());
        worst = worst.max(err);
        if !(err <= tol) {
            rep.violation("ctable:entry-wrong", format!("complex table[{}] = ({:e}, {:e}), expected ({:e}, {:e}), error {:e}", k, re, im, wr, wi, err), json!({"kind": "table", "index": k}));
        }
        rep.nontrivial(format!("centry|{}", k).as_bytes());
    }
    rep.stat_set("table_worst_abs_error", worst);
    rep.count("table_entries_checked", 1024);
    rep.sample(json!({"entries": 1024, "worst_abs_error": worst, "tolerance": tol}));
}

fn norm2(a: &[f64]) -> f64 {
    a.iter().map(|x| x * x).sum::<f64>().sqrt()
}

fn to_c(a: &[f64]) -> Vec<(f64, f64)> {
    a.iter().map(|&x| (x, 0.0)).collect()
}

/// a, b integer-valued (so that the true product is exact in i128)
fn check_product(a: &[i64], b: &[i64], what: &str, rep: &mut Report) {
    check_product_scaled(a, b, 0, what, rep)
}

/// Inputs are the dyadic reals a_i / 2^sh, b_i / 2^sh (sh = 0: integers), so that the exact
/// product is still computable in i128.
fn check_product_scaled(a: &[i64], b: &[i64], sh: u32, what: &str, rep: &mut Report) {
    rep.evaluations += 1;
    let n = a.len();
    let sc = (1u64 << sh) as f64;
    let af: Vec<f64> = a.iter().map(|&x| x as f64 / sc).collect();
    let bf: Vec<f64> = b.iter().map(|&x| x as f64 / sc).collect();
    let replay = || json!({"kind": "product", "a": a, "b": b, "shift": sh});
    let (ac, bc) = (to_c(&af), to_c(&bf));
    let r = monitored(|| {
        let fa = vh::cfft(&ac);
        let fb = vh::cfft(&bc);
        (vh::cifft(&fa), vh::cifft(&vh::cmul(&fa, &fb)), fa)
    });
    match r {
        Err(p) => rep.violation(&format!("panic:fft@{}", short_loc(&p.location)), format!("n={} ({}): {}", n, what, p.message), replay()),
        Ok((rt, prod, fa)) => {
            let na = norm2(&af);
            let nb = norm2(&bf);
            let e_rt = rt.iter().zip(af.iter()).map(|((re, im), x)| (re - x).abs().max(im.abs())).fold(0.0, f64::max);
            if na > 0.0 {
                rep.stat_max("worst_roundtrip_rel", e_rt / na);
            }
            if !(e_rt <= TOL * na.max(1e-300)) && na > 0.0 {
                rep.violation("fft:roundtrip", format!("ifft(fft(a)) differs from a by {:e} > 2^-30 ||a|| for n={} ({})", e_rt, n, what), replay());
            }
            let exact = spec::negamul_z(a, b);
            let e_p = prod.iter().zip(exact.iter()).map(|((re, im), x)| (re - (*x as f64) / (sc * sc)).abs().max(im.abs())).fold(0.0, f64::max);
            if na > 0.0 && nb > 0.0 {
                rep.stat_max("worst_product_rel", e_p / (na * nb));
                if !(e_p <= TOL * na * nb) {
                    rep.violation("fft:product", format!("ifft(fft(a).fft(b)) differs from a*b by {:e} > 2^-30 ||a|| ||b|| = {:e} for n={} ({})", e_p, TOL * na * nb, n, what), replay());
                }
            }
            // split / merge
            if n >= 2 {
                let sm = monitored(|| {
                    let (f0, f1) = vh::csplit(&fa);
                    let m = vh::cmerge(&f0, &f1);
                    let ev: Vec<(f64, f64)> = (0..n / 2).map(|i| (af[2 * i], 0.0)).collect();
                    let od: Vec<(f64, f64)> = (0..n / 2).map(|i| (af[2 * i + 1], 0.0)).collect();
                    (f0, f1, m, vh::cfft(&ev), vh::cfft(&od))
                });
                match sm {
                    Err(p) => rep.violation(&format!("panic:split-merge@{}", short_loc(&p.location)), p.message.clone(), replay()),
                    Ok((f0, f1, m, fe, fo)) => {
                        let nf = fa.iter().map(|(re, im)| re * re + im * im).sum::<f64>().sqrt();
                        let e_m = m.iter().zip(fa.iter()).map(|(x, y)| (x.0 - y.0).abs().max((x.1 - y.1).abs())).fold(0.0, f64::max);
                        if nf > 0.0 {
                            rep.stat_max("worst_merge_split_rel", e_m / nf);
                        }
                        if !(e_m <= TOL * nf.max(1e-300)) && nf > 0.0 {
                            rep.violation("fft:merge-split", format!("merge(split(F)) differs from F by {:e} for n={} ({})", e_m, n, what), replay());
                        }
                        let e_s = f0.iter().zip(fe.iter()).chain(f1.iter().zip(fo.iter())).map(|(x, y)| (x.0 - y.0).abs().max((x.1 - y.1).abs())).fold(0.0, f64::max);
                        if na > 0.0 {
                            rep.stat_max("worst_split_rel", e_s / na);
                        }
                        // the transform of a length-n/2 vector has norm sqrt(n/2) ||a||: scale the
                        // tolerance accordingly (relative to the operands' norm in the same domain)
                        let scale = na * ((n / 2) as f64).sqrt().max(1.0);
                        if !(e_s <= TOL * scale.max(1e-300)) && na > 0.0 {
                            rep.violation("fft:split", format!("split(fft(a)) differs from (fft(a_even), fft(a_odd)) by {:e} for n={} ({})", e_s, n, what), replay());
                        }
                    }
                }
            }
        }
    }
}

/// Round trips and products at the EDGES of the floating-point range: coefficient vectors scaled
/// by 2^e for e down to the subnormal range (results below 2^-1022) and up to 2^1000. An inverse
/// transform that divides by n by editing exponent bits, or scales in two steps, is exact for
/// ordinary magnitudes and wrong only here.
fn check_extreme_magnitudes(pattern: &[i64], e: i32, what: &str, rep: &mut Report) {
    rep.evaluations += 1;
    let n = pattern.len();
    // 2^e without powi (which flushes to zero below 2^-1022 in one step)
    let mut sc = 1.0f64;
    for _ in 0..e.abs() {
        sc = if e < 0 { sc * 0.5 } else { sc * 2.0 };
    }
    let af: Vec<f64> = pattern.iter().map(|&x| x as f64 * sc).collect();
    if af.iter().any(|x| !x.is_finite()) {
        return;
    }
    let replay = || json!({"kind": "extreme-magnitude", "pattern": pattern, "exponent": e, "note": "re-run the leg"});
    let ac = to_c(&af);
    let unit = to_c(&pattern.iter().map(|&x| x as f64).collect::<Vec<f64>>());
    let r = monitored(|| {
        let fa = vh::cfft(&ac);
        let fu = vh::cfft(&unit);
        (vh::cifft(&fa), fa, fu)
    });
    match r {
        Err(p) => rep.violation(&format!("panic:fft@{}", short_loc(&p.location)), format!("n={} ({}, 2^{}): {}", n, what, e, p.message), replay()),
        Ok((rt, fa, fu)) => {
            // (the norm is taken before scaling: squares of 2^-600 underflow)
            let na = norm2(&pattern.iter().map(|&x| x as f64).collect::<Vec<f64>>()) * sc;
            // subnormal arithmetic has an absolute resolution of 2^-1074: allow n log n of them
            let slack = 5e-324 * 64.0 * (n as f64) * ((n as f64).log2() + 1.0);
            let e_rt = rt.iter().zip(af.iter()).map(|((re, im), x)| (re - x).abs().max(im.abs())).fold(0.0, f64::max);
            if !(e_rt <= TOL * na + slack) {
                rep.violation("fft:roundtrip-extreme-magnitude", format!("ifft(fft(a)) differs from a by {:e} (||a|| = {:e}) for n={} ({} scaled by 2^{})", e_rt, na, n, what, e), replay());
            }
            // linearity: the transform of 2^e a is 2^e times the transform of a
            let nf = fu.iter().map(|(re, im)| re * re + im * im).sum::<f64>().sqrt() * sc;
            let e_l = fa.iter().zip(fu.iter()).map(|(x, y)| (x.0 - y.0 * sc).abs().max((x.1 - y.1 * sc).abs())).fold(0.0, f64::max);
            if nf.is_finite() && !(e_l <= TOL * nf + slack) {
                rep.violation("fft:scaling-extreme-magnitude", format!("fft(2^{} a) differs from 2^{} fft(a) by {:e} for n={} ({})", e, e, e_l, n, what), replay());
            }
            rep.count("extreme_magnitude_round_trips", 1);
            if af.iter().any(|x| *x != 0.0 && x.abs() < f64::MIN_POSITIVE) {
                rep.count("round_trips_with_subnormal_coefficients", 1);
            }
        }
    }
}

pub fn accuracy(ctx: &Ctx, rep: &mut Report) {
    {
        let r = par_for(10, ncpu(), |k, rep| {
            let n = 2usize << k;
            let mut rng = rng_for(ctx.seed, &format!("c13-extreme-{}", n));
            let mut pats: Vec<(String, Vec<i64>)> = vec![];
            pats.push(("random +-1024".into(), (0..n).map(|_| rng.gen_range(-1024..=1024)).collect()));
            pats.push(("constant 1".into(), vec![1i64; n]));
            let mut imp = vec![0i64; n];
            imp[n - 1] = 1;
            pats.push(("impulse at n-1".into(), imp));
            pats.push(("alternating 3".into(), (0..n).map(|i| if i % 2 == 0 { 3 } else { -3 }).collect()));
            for (name, p_) in &pats {
                for e in [-1074i32, -1070, -1062, -1050, -1040, -1030, -1024, -1023, -1022, -1021, -1012, -1000, -600, -100, 100, 600, 900, 1000] {
                    check_extreme_magnitudes(p_, e, name, rep);
                }
            }
        });
        rep.merge(r);
        rep.require("round_trips_with_subnormal_coefficients", 100);
    }
    let nrand = ctx.sz(2500, 250_000);
    let r = par_for(10, ncpu(), |k, rep| {
        let n = 2usize << k;
        let mut rng = rng_for(ctx.seed, &format!("c13-{}", n));
        let rb: Vec<i64> = (0..n).map(|_| rng.gen_range(-1024..=1024)).collect();
        for i in 0..n {
            let mut e = vec![0i64; n];
            e[i] = if i % 2 == 0 { 16384 } else { -16384 };
            check_product(&e, &rb, "impulse x random", rep);
            rep.nontrivial(format!("imp|{}|{}", n, i).as_bytes());
        }
        check_product(&vec![16384i64; n], &vec![1024i64; n], "constant max", rep);
        check_product(&vec![-16384i64; n], &vec![1024i64; n], "constant -max", rep);
        let alt: Vec<i64> = (0..n).map(|i| if i % 2 == 0 { 16384 } else { -16384 }).collect();
        check_product(&alt, &rb, "alternating", rep);
        for it in 0..nrand {
            let (ra, rbn) = match it % 4 {
                0 => (16384i64, 1024i64),
                1 => (12289, 300),
                2 => (200, 200),
                _ => (16384, 6),
            };
            let a: Vec<i64> = (0..n).map(|_| rng.gen_range(-ra..=ra)).collect();
            let b: Vec<i64> = (0..n).map(|_| rng.gen_range(-rbn..=rbn)).collect();
            check_product(&a, &b, "random", rep);
            if it % 4 == 0 {
                // non-integer reals: 20 fractional bits, same magnitude range
                let a: Vec<i64> = (0..n).map(|_| rng.gen_range(-(ra << 20)..=(ra << 20))).collect();
                let b: Vec<i64> = (0..n).map(|_| rng.gen_range(-(rbn << 20)..=(rbn << 20))).collect();
                check_product_scaled(&a, &b, 20, "random reals", rep);
                rep.count("real_valued_pairs", 1);
            }
        }
        // full-magnitude operands whose exact product has one TINY non-zero coefficient next to
        // coefficients of size ~2^29: b is nudged by +-1 in a few places (greedy) until the
        // smallest product coefficient is a small non-zero integer
        if n >= 64 {
            for _ in 0..ctx.sz(24, 400) {
                let a: Vec<i64> = (0..n).map(|_| rng.gen_range(-16384i64..=16384)).collect();
                let mut b: Vec<i64> = (0..n).map(|_| rng.gen_range(-1023i64..=1023)).collect();
                let p0 = spec::negamul_z(&a, &b);
                let k = (0..n).min_by_key(|&i| p0[i].abs()).unwrap();
                let mut pk = p0[k];
                for _ in 0..12 {
                    if pk != 0 && pk.abs() < 40 {
                        break;
                    }
                    // changing b_j by s changes p_k by s * (+-a_{k-j})
                    let mut best: Option<(usize, i64, i128)> = None;
                    for j in 0..n {
                        let (idx, sg) = if k >= j { (k - j, 1i128) } else { (n + k - j, -1i128) };
                        let c = sg * a[idx] as i128;
                        for s_ in [-1i64, 1] {
                            if (b[j] + s_).abs() > 1024 {
                                continue;
                            }
                            let np = pk + s_ as i128 * c;
                            if np != 0 && best.map(|x| np.abs() < x.2.abs()).unwrap_or(true) {
                                best = Some((j, s_, np));
                            }
                        }
                    }
                    match best {
                        Some((j, s_, np)) if np.abs() < pk.abs() || pk == 0 => {
                            b[j] += s_;
                            pk = np;
                        }
                        _ => break,
                    }
                }
                check_product(&a, &b, "steered tiny coefficient", rep);
                if pk != 0 && pk.abs() < 1 << 12 {
                    rep.count("products_with_a_tiny_coefficient", 1);
                }
            }
        }
        // complex-valued inputs of every "almost real" degree
        for eps in [1e-12f64, 1e-10, 3e-9, 1e-8, 5e-8, 1e-7, 2e-7, 1e-6, 1e-4, 1e-2, 1.0] {
            for _ in 0..ctx.sz(4, 200) {
                let a: Vec<i64> = (0..n).map(|_| rng.gen_range(-16384i64..=16384)).collect();
                let b: Vec<i64> = (0..n).map(|_| rng.gen_range(-1024i64..=1024)).collect();
                check_complex(&a, &b, eps, rep);
                rep.count("complex_valued_inputs", 1);
            }
        }
        rep.count("sizes", 1);
        rep.nontrivial(format!("n|{}", n).as_bytes());
    });
    rep.merge(r);
    rep.require("sizes", 10);
    rep.require("complex_valued_inputs", 200);
    rep.require("products_with_a_tiny_coefficient", 20);
    rep.sample(json!({"sizes": "2..1024", "magnitudes": "|a_i| <= 2^14, |b_i| <= 2^10", "worst_product_rel": rep.stats.get("worst_product_rel"), "tolerance": TOL}));
}

/// One operation of a call history, with its own oracle. op: 0 = split against the transforms
/// of the even/odd halves, 1 = inverse of forward, 2 = merge of the halves' transforms against
/// the transform of the whole, 3 = product.
fn history_op(op: u32, a: &[i64], b: &[i64], hist: &str, rep: &mut Report) {
    rep.evaluations += 1;
    let n = a.len();
    let af: Vec<f64> = a.iter().map(|&x| x as f64).collect();
    let na = norm2(&af).max(1e-300);
    let replay = || json!({"kind": "history", "history": hist});
    let ev: Vec<(f64, f64)> = (0..n / 2).map(|i| (af[2 * i], 0.0)).collect();
    let od: Vec<(f64, f64)> = (0..n / 2).map(|i| (af[2 * i + 1], 0.0)).collect();
    let ac = to_c(&af);
    let dist = |x: &[(f64, f64)], y: &[(f64, f64)]| x.iter().zip(y.iter()).map(|(p, q)| (p.0 - q.0).abs().max((p.1 - q.1).abs())).fold(0.0, f64::max);
    let r = monitored(|| match op {
        0 => {
            let (f0, f1) = vh::csplit(&vh::cfft(&ac));
            let (fe, fo) = (vh::cfft(&ev), vh::cfft(&od));
            (dist(&f0, &fe).max(dist(&f1, &fo)), na * ((n / 2) as f64).sqrt().max(1.0), "fft:split")
        }
        1 => (dist(&vh::cifft(&vh::cfft(&ac)), &ac), na, "fft:roundtrip"),
        2 => {
            let fa = vh::cfft(&ac);
            let m = vh::cmerge(&vh::cfft(&ev), &vh::cfft(&od));
            (dist(&m, &fa), na * (n as f64).sqrt(), "fft:merge")
        }
        _ => {
            let bf: Vec<f64> = b.iter().map(|&x| x as f64).collect();
            let p = vh::cifft(&vh::cmul(&vh::cfft(&ac), &vh::cfft(&to_c(&bf))));
            let exact: Vec<(f64, f64)> = spec::negamul_z(a, b).iter().map(|&x| (x as f64, 0.0)).collect();
            (dist(&p, &exact), na * norm2(&bf).max(1e-300), "fft:product")
        }
    });
    match r {
        Err(p) => rep.violation(&format!("panic:fft-history@{}", short_loc(&p.location)), format!("n={} ({}): {}", n, hist, p.message), replay()),
        Ok((e, scale, sig)) => {
            rep.stat_max("worst_history_rel", e / scale);
            if !(e <= TOL * scale) {
                rep.violation(sig, format!("operation {} at n={} inside a call history ({}) is off by {:e} (scale {:e})", ["split", "inverse(forward)", "merge", "product"][op as usize], n, hist, e, scale), replay());
            }
        }
    }
}

/// COMPLEX-valued inputs: a real polynomial plus an imaginary part of relative size eps
/// (1e-12 .. 1): the spectrum is then nearly, but not exactly, conjugate-symmetric. split
/// against the transforms of the even / odd parts, merge(split(F)) against F, inverse(forward).
fn check_complex(a: &[i64], b: &[i64], eps: f64, rep: &mut Report) {
    rep.evaluations += 1;
    let n = a.len();
    let ac: Vec<(f64, f64)> = (0..n).map(|i| (a[i] as f64, eps * b[i] as f64 * 16.0)).collect();
    let na = ac.iter().map(|x| x.0 * x.0 + x.1 * x.1).sum::<f64>().sqrt().max(1e-300);
    let replay = || json!({"kind": "complex", "a": a, "b": b, "eps": eps});
    let ev: Vec<(f64, f64)> = (0..n / 2).map(|i| ac[2 * i]).collect();
    let od: Vec<(f64, f64)> = (0..n / 2).map(|i| ac[2 * i + 1]).collect();
    let dist = |x: &[(f64, f64)], y: &[(f64, f64)]| x.iter().zip(y.iter()).map(|(p, q)| (p.0 - q.0).abs().max((p.1 - q.1).abs())).fold(0.0, f64::max);
    let ac2 = ac.clone();
    let r = monitored(move || {
        let fa = vh::cfft(&ac2);
        let (f0, f1) = vh::csplit(&fa);
        let m = vh::cmerge(&f0, &f1);
        let back = vh::cifft(&fa);
        (fa, f0, f1, m, back, vh::cfft(&ev), vh::cfft(&od))
    });
    match r {
        Err(p) => rep.violation(&format!("panic:fft-complex@{}", short_loc(&p.location)), format!("n={} eps={:e}: {}", n, eps, p.message), replay()),
        Ok((fa, f0, f1, m, back, fe, fo)) => {
            let nf = fa.iter().map(|x| x.0 * x.0 + x.1 * x.1).sum::<f64>().sqrt().max(1e-300);
            let e_split = dist(&f0, &fe).max(dist(&f1, &fo));
            let e_merge = dist(&m, &fa);
            let e_back = dist(&back, &ac);
            rep.stat_max("worst_complex_split_rel", e_split / (na * ((n / 2) as f64).sqrt().max(1.0)));
            if !(e_split <= TOL * na * ((n / 2) as f64).sqrt().max(1.0)) {
                rep.violation("fft:split", format!("split(fft(a)) differs from (fft(a_even), fft(a_odd)) by {:e} for a complex-valued a with imaginary parts of relative size {:e}, n={}", e_split, eps, n), replay());
            }
            if !(e_merge <= TOL * nf) {
                rep.violation("fft:merge-split", format!("merge(split(F)) differs from F by {:e} (|F| = {:e}) for a nearly conjugate-symmetric F (eps {:e}), n={}", e_merge, nf, eps, n), replay());
            }
            if !(e_back <= TOL * na) {
                rep.violation("fft:roundtrip", format!("ifft(fft(a)) differs from a by {:e} for a complex-valued a (eps {:e}), n={}", e_back, eps, n), replay());
            }
        }
    }
}

/// A whole history in a FRESH thread (tables kept per thread start empty): `hi` fixes the
/// pattern, everything else follows from (seed, hi).
fn run_history(vseed: u64, hi: usize, rep: &mut Report) {
    let out = std::thread::scope(|s| {
        s.spawn(move || {
            let mut rep = Report::new();
            let mut rng = rng_for(vseed, &format!("c13-hist-{}", hi));
            let mut ops: Vec<(u32, usize)> = vec![];
            let pick_n = |rng: &mut rand_chacha::ChaCha20Rng| 1usize << rng.gen_range(1..=10);
            match hi % 5 {
                // split first, then the inverse at the same length (descending, ascending, one size)
                0 => {
                    let n = pick_n(&mut rng).max(4);
                    ops.push((0, n));
                    ops.push((1, n));
                }
                1 => {
                    for k in (2..=10).rev() {
                        ops.push((0, 1 << k));
                    }
                    for k in (1..=10).rev() {
                        ops.push((1, 1 << k));
                    }
                }
                // merge first, then everything else at that length
                2 => {
                    let n = pick_n(&mut rng).max(4);
                    ops.extend([(2, n), (3, n), (0, n), (1, n)]);
                }
                // product first at a large size, then small sizes
                3 => {
                    ops.push((3, 1024));
                    for _ in 0..6 {
                        ops.push((rng.gen_range(0..4), pick_n(&mut rng)));
                    }
                }
                _ => {
                    for _ in 0..10 {
                        ops.push((rng.gen_range(0..4), pick_n(&mut rng)));
                    }
                }
            }
            // now and then a transform of an unsupported length first (it panics or returns
            // garbage: outside the domain, ignored); the valid operations after it must be right
            if hi % 3 == 0 {
                let bad = [3usize, 6, 12, 100, 1536, 2048][(hi / 3) % 6];
                let junk: Vec<(f64, f64)> = (0..bad).map(|i| (i as f64, 0.0)).collect();
                let j2 = junk.clone();
                let _ = monitored(move || vh::cifft(&j2));
                let _ = monitored(move || vh::csplit(&junk));
                rep.count("histories_starting_with_a_rejected_length", 1);
            }
            let hist = format!("seed {} history {}: {:?}", vseed, hi, ops);
            for (op, n) in ops {
                let a: Vec<i64> = (0..n).map(|_| rng.gen_range(-16384i64..=16384)).collect();
                let b: Vec<i64> = (0..n).map(|_| rng.gen_range(-1024i64..=1024)).collect();
                history_op(op, &a, &b, &hist, &mut rep);
            }
            rep.count("call_histories", 1);
            rep.nontrivial(format!("hist|{}", hi).as_bytes());
            rep
        })
        .join()
    });
    match out {
        Ok(r) => rep.merge(r),
        Err(_) => rep.inconclusive("a history thread died".into()),
    }
}

/// The same low-degree polynomial embedded in every length, walked through in one thread.
pub fn cross_size(ctx: &Ctx, rep: &mut Report) {
    let mut rng = rng_for(ctx.seed, "c13-cross");
    let rounds = ctx.sz(6, 200);
    let sizes: Vec<usize> = (1..=10).map(|k| 1usize << k).collect();
    for round in 0..rounds {
        let head: Vec<i64> = (0..=rng.gen_range(0..4usize)).map(|_| rng.gen_range(-16384..=16384)).collect();
        let head2: Vec<i64> = (0..=rng.gen_range(0..3usize)).map(|_| rng.gen_range(-1024..=1024)).collect();
        let mut order = sizes.clone();
        if round % 3 == 1 {
            order.reverse();
        } else if round % 3 == 2 {
            for k in (1..order.len()).rev() {
                let j = rng.gen_range(0..=k);
                order.swap(k, j);
            }
        }
        for &n in &order {
            let embed = |h: &Vec<i64>| {
                let mut v = vec![0i64; n];
                for (i, x) in h.iter().enumerate() {
                    if i < n {
                        v[i] = *x;
                    }
                }
                v
            };
            let mut one = vec![0i64; n];
            one[0] = 1;
            check_product(&embed(&head), &one, "embedded head x 1", rep);
            check_product(&embed(&head), &embed(&head2), "embedded heads", rep);
            check_product(&vec![0i64; n], &embed(&head), "zero x head", rep);
            rep.nontrivial(format!("cross|{}|{}", round, n).as_bytes());
        }
        rep.count("cross_size_walks", 1);
    }
    // the same operations while a thread is being TORN DOWN: from the destructor of a
    // thread-local object registered before the thread's first transform, i.e. after the
    // crate's own per-thread state (if any) has been destroyed; each operation has its oracle
    let nt = ctx.sz(96, 1200);
    let r = par_for(nt, ncpu(), |ti, rep| {
        let mut rng = rng_for(ctx.seed, &format!("c13-teardown-{}", ti));
        let n = 1usize << rng.gen_range(1..=10);
        let op = (ti % 4) as u32;
        let a: Vec<i64> = (0..n).map(|_| rng.gen_range(-16384i64..=16384)).collect();
        let b: Vec<i64> = (0..n).map(|_| rng.gen_range(-1024i64..=1024)).collect();
        let (a2, b2) = (a.clone(), b.clone());
        let warm = ti % 3 != 2; // a third of the threads never used a transform before
        let res = crate::util::run_at_thread_exit(
            move || {
                if warm {
                    let w: Vec<(f64, f64)> = (0..n).map(|i| (i as f64, 0.0)).collect();
                    let f_ = vh::cfft(&w);
                    let _ = vh::cifft(&f_);
                    let _ = vh::csplit(&f_);
                }
            },
            move || {
                let mut rep = Report::new();
                history_op(op, &a2, &b2, "thread exit", &mut rep);
                rep.violations.first().map(|v| format!("{}: {}", v.signature, v.detail))
            },
        );
        rep.evaluations += 1;
        match res {
            Ok(None) => {
                rep.count("operations_during_thread_exit", 1);
                rep.nontrivial(format!("teardown|{}|{}|{}", n, op, warm).as_bytes());
            }
            Ok(Some(what)) => rep.violation("fft:wrong-during-thread-exit", format!("operation {} at n={} run from a thread-local destructor (thread {} used transforms before): {}", ["split", "inverse(forward)", "merge", "product"][op as usize], n, if warm { "had" } else { "had not" }, what), json!({"kind": "teardown", "n": n, "op": op, "warm": warm, "ti": ti})),
            Err(e) if e.contains("did not run") => rep.inconclusive(e),
            Err(e) => rep.violation("panic:fft-during-thread-exit", format!("operation {} at n={} panicked inside a thread-local destructor: {}", op, n, e), json!({"kind": "teardown", "n": n, "op": op, "warm": warm, "ti": ti})),
        }
    });
    rep.merge(r);
    rep.require("operations_during_thread_exit", 50);
    // call histories in fresh threads
    let nh = ctx.sz(200, 4000);
    let r = par_for(nh, ncpu(), |hi, rep| run_history(ctx.seed, hi, rep));
    rep.merge(r);
    rep.require("call_histories", 50);
    rep.sample(json!({"walks": rounds, "sizes": sizes, "inputs": "the same low-degree coefficients embedded in every length, in one thread"}));
    rep.require("cross_size_walks", 3);
}

pub fn replay(r: &Value) -> bool {
    let mut rep = Report::new();
    match r["kind"].as_str().unwrap_or("") {
        "complex" => {
            let a: Vec<i64> = r["a"].as_array().unwrap().iter().map(|x| x.as_i64().unwrap()).collect();
            let b: Vec<i64> = r["b"].as_array().unwrap().iter().map(|x| x.as_i64().unwrap()).collect();
            check_complex(&a, &b, r["eps"].as_f64().unwrap_or(1e-8), &mut rep);
        }
        "history" => {
            // "seed S history H: ..."
            let h = r["history"].as_str().unwrap_or("");
            let w: Vec<&str> = h.split(|c: char| c == ' ' || c == ':').collect();
            let (vs, hi) = (w.get(1).and_then(|x| x.parse().ok()).unwrap_or(1u64), w.get(3).and_then(|x| x.parse().ok()).unwrap_or(0usize));
            run_history(vs, hi, &mut rep);
        }
        "product" => {
            let a: Vec<i64> = r["a"].as_array().unwrap().iter().map(|x| x.as_i64().unwrap()).collect();
            let b: Vec<i64> = r["b"].as_array().unwrap().iter().map(|x| x.as_i64().unwrap()).collect();
            check_product_scaled(&a, &b, r["shift"].as_u64().unwrap_or(0) as u32, "replay", &mut rep);
        }
        _ => table(&Ctx { tier: "quick".into(), seed: 1, profile: "release".into(), args: vec![] }, &mut rep),
    }
    println!("stats {:?}", rep.stats);
    crate::util::print_replay(&rep)
}
