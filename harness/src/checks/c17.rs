//! C17: Babai size reduction preserves the NTRU equation; the 32-bit and the big-integer
//! implementation agree; a reduced pair is a fixed point.

use num::BigInt;
use rand::Rng;
use rand_chacha::ChaCha20Rng;
use serde_json::{json, Value};

use crate::fv::{Fv, F1024, F512};
use crate::refs::spec;
use crate::util::{monitored, ncpu, par_for, rng_for, seed32, short_loc, Ctx, Report};
use falcon_rust::math::{babai_reduce_bigint, babai_reduce_i32};
use falcon_rust::polynomial::Polynomial;
use falcon_rust::verif_hooks as vh;
use falcon_rust::verif_hooks::Event;

type V4 = (Vec<i64>, Vec<i64>, Vec<i64>, Vec<i64>); // f, g, F, G

fn run_i32(f: &[i64], g: &[i64], cf: &[i64], cg: &[i64]) -> Result<(bool, Vec<i64>, Vec<i64>), crate::util::PanicInfo> {
    let pf = Polynomial::new(f.iter().map(|&x| x as i32).collect::<Vec<i32>>());
    let pg = Polynomial::new(g.iter().map(|&x| x as i32).collect::<Vec<i32>>());
    let mut pcf = Polynomial::new(cf.iter().map(|&x| x as i32).collect::<Vec<i32>>());
    let mut pcg = Polynomial::new(cg.iter().map(|&x| x as i32).collect::<Vec<i32>>());
    monitored(move || {
        let r = babai_reduce_i32(&pf, &pg, &mut pcf, &mut pcg);
        (r.is_ok(), pcf.coefficients.iter().map(|&x| x as i64).collect(), pcg.coefficients.iter().map(|&x| x as i64).collect())
    })
}

fn run_big(f: &[i64], g: &[i64], cf: &[i64], cg: &[i64]) -> Result<(bool, Vec<i64>, Vec<i64>), crate::util::PanicInfo> {
    let tb = |v: &[i64]| Polynomial::new(v.iter().map(|&x| BigInt::from(x)).collect::<Vec<BigInt>>());
    let (pf, pg, mut pcf, mut pcg) = (tb(f), tb(g), tb(cf), tb(cg));
    monitored(move || {
        let r = babai_reduce_bigint(&pf, &pg, &mut pcf, &mut pcg);
        let back = |p: &Polynomial<BigInt>| p.coefficients.iter().map(|x| i64::try_from(x.clone()).unwrap_or(i64::MAX)).collect::<Vec<i64>>();
        (r.is_ok(), back(&pcf), back(&pcg))
    })
}

/// f*G - g*F over Z[X]/(X^n+1)
fn ntru_form(f: &[i64], g: &[i64], cf: &[i64], cg: &[i64]) -> Vec<i128> {
    let a = spec::negamul_z(f, cg);
    let b = spec::negamul_z(g, cf);
    a.iter().zip(b.iter()).map(|(x, y)| x - y).collect()
}

pub fn check_input(inp: &V4, class: &str, rep: &mut Report) {
    rep.evaluations += 1;
    let (f, g, cf, cg) = inp;
    let n = f.len();
    let replay = || json!({"f": f, "g": g, "F": cf, "G": cg, "class": class});
    let a = run_i32(f, g, cf, cg);
    let b = run_big(f, g, cf, cg);
    let (a, b) = match (a, b) {
        (Err(p), _) => {
            rep.violation(&format!("panic:babai_reduce_i32@{}", short_loc(&p.location)), format!("n={} ({}): {}", n, class, p.message), replay());
            return;
        }
        (_, Err(p)) => {
            rep.violation(&format!("panic:babai_reduce_bigint@{}", short_loc(&p.location)), format!("n={} ({}): {}", n, class, p.message), replay());
            return;
        }
        (Ok(a), Ok(b)) => (a, b),
    };
    if a.0 != b.0 || a.1 != b.1 || a.2 != b.2 {
        // documented limit of the 32-bit version (known finding babai-i32-quotient-saturation):
        // certified in exact integer arithmetic - some coefficient of the exact first quotient
        // round((F f* + G g*)/(f f* + g g*)) lies outside the i32 range, so `as i32` saturates
        {
            if let Some(basis) = basis_adjugate(f, g) {
                let m = quotient_max_abs(f, g, cf, cg, &basis);
                if m > 2147483648.0 * 1.000001 {
                    rep.count("i32_quotient_saturations", 1);
                    rep.stat_max("max_saturating_quotient_log2", m.log2());
                    rep.violation(
                        "babai-i32-quotient-saturation",
                        format!("n={} ({}): exact first quotient has a coefficient of magnitude 2^{:.2} > 2^31: babai_reduce_i32 casts it with a saturating `as i32` and returns ok={} with a wrong pair; babai_reduce_bigint returns ok={} (f={:?} g={:?} F={:?} G={:?})", n, class, m.log2(), a.0, b.0, &f[..n.min(6)], &g[..n.min(6)], &cf[..n.min(4)], &cg[..n.min(4)]),
                        replay(),
                    );
                    return;
                }
            }
        }
        rep.violation(
            "babai:versions-disagree",
            format!("n={} ({}): babai_reduce_i32 -> ok={} and babai_reduce_bigint -> ok={} return different results (first F' coefficients {:?} vs {:?})", n, class, a.0, b.0, &a.1[..n.min(4)], &b.1[..n.min(4)]),
            replay(),
        );
        return;
    }
    // the equation is preserved whatever the outcome
    let before = ntru_form(f, g, cf, cg);
    let after = ntru_form(f, g, &a.1, &a.2);
    if before != after {
        rep.violation("babai:equation-not-preserved", format!("n={} ({}): f*G' - g*F' differs from f*G - g*F", n, class), replay());
        return;
    }
    if a.0 {
        // a second reduction is the identity
        match (run_i32(f, g, &a.1, &a.2), run_big(f, g, &a.1, &a.2)) {
            (Ok(a2), Ok(b2)) => {
                if !a2.0 || !b2.0 || a2.1 != a.1 || a2.2 != a.2 || b2.1 != a.1 || b2.2 != a.2 {
                    rep.violation("babai:not-idempotent", format!("n={} ({}): reducing the reduced pair changes it (or fails)", n, class), replay());
                }
            }
            (Err(p), _) | (_, Err(p)) => rep.violation(&format!("panic:babai-second@{}", short_loc(&p.location)), p.message.clone(), replay()),
        }
        rep.count("reduced_ok", 1);
        let shrunk = a.1 != *cf || a.2 != *cg;
        if shrunk {
            rep.count("reduced_changed_input", 1);
        }
    } else {
        // both returned Err with identical states: classify as the documented rounding-tie
        // cycle only with its certificate: continuing the reduction stays Err, preserves the
        // equation, and revisits a previous state within 64 calls (a periodic orbit), all
        // states of the orbit being equally reduced (same squared norm)
        let mut states: Vec<(Vec<i64>, Vec<i64>)> = vec![(a.1.clone(), a.2.clone())];
        let mut cert = false;
        for _ in 0..64 {
            let last = states.last().unwrap().clone();
            match run_i32(f, g, &last.0, &last.1) {
                Ok(s) if !s.0 => {
                    let st = (s.1, s.2);
                    if ntru_form(f, g, &st.0, &st.1) != before {
                        break;
                    }
                    if states.contains(&st) {
                        cert = states.len() >= 2 || st != states[0];
                        // a fixed point that still reports Err is not the tie cycle
                        if states.len() == 1 && st == states[0] {
                            cert = false;
                        }
                        break;
                    }
                    states.push(st);
                }
                _ => break,
            }
        }
        // for small n the tie is confirmed in exact rational arithmetic: at the state the orbit
        // starts from, some coefficient of the exact quotient (F f* + G g*)/(f f* + g g*) is +-1/2
        if cert && n <= 8 {
            match exact_quotient(f, g, &states[0].0, &states[0].1) {
                Some(q) => {
                    let half = num::BigRational::new(BigInt::from(1), BigInt::from(2));
                    if q.iter().any(|x| num::Signed::abs(x) == half) {
                        rep.count("tie_confirmed_exactly", 1);
                    } else {
                        cert = false;
                    }
                }
                None => cert = false,
            }
        }
        // second form of the certificate (any n, exact): the returned state itself is a tie
        // state. With many tied coefficients the rounding of each tie depends on floating-point
        // noise and the walk through the 2^ties equivalent states need not be periodic.
        let mut exact_ties: Option<usize> = None;
        if !cert {
            if let Some(t) = tie_state_exact(f, g, &a.1, &a.2) {
                cert = true;
                exact_ties = Some(t);
                rep.count("tie_states_certified_by_exact_identity", 1);
                rep.stat_max("max_tied_coefficients", t as f64);
            }
        } else if tie_state_exact(f, g, &states[0].0, &states[0].1).is_some() {
            rep.count("periodic_tie_cycles_also_certified_by_exact_identity", 1);
        }
        if cert {
            rep.count("tie_cycles", 1);
            let how = match exact_ties {
                Some(t) => {
                    rep.count("tie_cycle_aperiodic", 1);
                    format!("wandering (no period within 64 calls) among states whose exact quotient has {} coefficients equal to +-1/2 (exact integer arithmetic: adjugate of f f* + g g*)", t)
                }
                None => {
                    rep.count(&format!("tie_cycle_orbit_{}", states.len()), 1);
                    format!("cycling through {} pairs at a rounding tie", states.len())
                }
            };
            rep.violation(
                "babai-tie-cycle",
                format!("n={} ({}): both implementations give up after 1000 rounds, {} (f={:?} g={:?} F={:?} G={:?})", n, class, how, &f[..n.min(4)], &g[..n.min(4)], &cf[..n.min(4)], &cg[..n.min(4)]),
                replay(),
            );
        } else {
            rep.violation("babai:fails-without-tie-certificate", format!("n={} ({}): both implementations return Err and the state is not the documented rounding-tie cycle", n, class), replay());
        }
    }
    rep.nontrivial(format!("{}|{}|{:?}|{:?}", n, class, &f[..n.min(3)], &cf[..n.min(3)]).as_bytes());
}

fn adjoint(a: &[i64]) -> Vec<i64> {
    let n = a.len();
    (0..n).map(|i| if i == 0 { a[0] } else { -a[n - i] }).collect()
}

/// Exact quotient (F f* + G g*) / (f f* + g g*) in Q[X]/(X^n+1), by Gaussian elimination
/// over the rationals (small n only).
fn exact_quotient(f: &[i64], g: &[i64], cf: &[i64], cg: &[i64]) -> Option<Vec<num::BigRational>> {
    use num::{BigRational, Zero};
    let n = f.len();
    let den: Vec<i128> = spec::negamul_z(f, &adjoint(f)).iter().zip(spec::negamul_z(g, &adjoint(g)).iter()).map(|(a, b)| a + b).collect();
    let num_: Vec<i128> = spec::negamul_z(cf, &adjoint(f)).iter().zip(spec::negamul_z(cg, &adjoint(g)).iter()).map(|(a, b)| a + b).collect();
    // matrix of multiplication by den: column j = den * x^j
    let r = |x: i128| BigRational::from_integer(BigInt::from(x));
    let mut m: Vec<Vec<BigRational>> = vec![vec![BigRational::zero(); n + 1]; n];
    for j in 0..n {
        for i in 0..n {
            // coefficient of x^(i+j) contribution
            let k = (i + j) % n;
            let sgn = if i + j >= n { -1 } else { 1 };
            m[k][j] = m[k][j].clone() + r(sgn * den[i]);
        }
    }
    for i in 0..n {
        m[i][n] = r(num_[i]);
    }
    for c in 0..n {
        let p = (c..n).find(|&rr| !m[rr][c].is_zero())?;
        m.swap(c, p);
        let pv = m[c][c].clone();
        for x in m[c].iter_mut() {
            *x = x.clone() / pv.clone();
        }
        for rr in 0..n {
            if rr != c && !m[rr][c].is_zero() {
                let fct = m[rr][c].clone();
                for k in 0..=n {
                    let sub = fct.clone() * m[c][k].clone();
                    m[rr][k] = m[rr][k].clone() - sub;
                }
            }
        }
    }
    Some((0..n).map(|i| m[i][n].clone()).collect())
}

/// a * b in Z[X]/(X^n+1) with big-integer coefficients (schoolbook; zero terms skipped).
fn big_negamul(a: &[BigInt], b: &[BigInt]) -> Vec<BigInt> {
    use num::Zero;
    let n = a.len();
    let mut out = vec![BigInt::zero(); n];
    for (i, x) in a.iter().enumerate() {
        if x.is_zero() {
            continue;
        }
        for (j, y) in b.iter().enumerate() {
            if y.is_zero() {
                continue;
            }
            let k = i + j;
            if k < n {
                out[k] += x * y;
            } else {
                out[k - n] -= x * y;
            }
        }
    }
    out
}

/// Adjugate in Z[X]/(X^n+1) by the field-norm tower: returns (A, r) with a * A = r (an
/// integer). a(x) a(-x) has even powers only and lives in the ring of half the size.
fn big_adjugate(a: &[BigInt]) -> (Vec<BigInt>, BigInt) {
    use num::{One, Zero};
    let n = a.len();
    if n == 1 {
        return (vec![BigInt::one()], a[0].clone());
    }
    let a_neg: Vec<BigInt> = a.iter().enumerate().map(|(i, x)| if i % 2 == 1 { -x.clone() } else { x.clone() }).collect();
    let p = big_negamul(a, &a_neg);
    let half: Vec<BigInt> = (0..n / 2).map(|k| p[2 * k].clone()).collect();
    let (ah, r) = big_adjugate(&half);
    let mut lifted = vec![BigInt::zero(); n];
    for (k, x) in ah.into_iter().enumerate() {
        lifted[2 * k] = x;
    }
    (big_negamul(&a_neg, &lifted), r)
}

/// Adjugate A and rho = D A of D = f f* + g g* (exact).
fn basis_adjugate(f: &[i64], g: &[i64]) -> Option<(Vec<BigInt>, BigInt)> {
    use num::Zero;
    let den: Vec<i128> = spec::negamul_z(f, &adjoint(f)).iter().zip(spec::negamul_z(g, &adjoint(g)).iter()).map(|(a, b)| a + b).collect();
    let d: Vec<BigInt> = den.iter().map(|&x| BigInt::from(x)).collect();
    let (adj, rho) = big_adjugate(&d);
    if rho.is_zero() {
        None
    } else {
        Some((adj, rho))
    }
}

/// Largest magnitude among the coefficients of the exact quotient (F f* + G g*)/(f f* + g g*)
/// (exact integer arithmetic; only the final division is done in floating point).
fn quotient_max_abs(f: &[i64], g: &[i64], cf: &[i64], cg: &[i64], basis: &(Vec<BigInt>, BigInt)) -> f64 {
    use num::{Signed, ToPrimitive};
    let num_: Vec<i128> = spec::negamul_z(cf, &adjoint(f)).iter().zip(spec::negamul_z(cg, &adjoint(g)).iter()).map(|(a, b)| a + b).collect();
    let nn: Vec<BigInt> = num_.iter().map(|&x| BigInt::from(x)).collect();
    let q = big_negamul(&nn, &basis.0);
    let rho = basis.1.abs();
    let scale = BigInt::from(1u64 << 20);
    q.iter().map(|x| ((x.abs() * &scale) / &rho).to_f64().unwrap_or(f64::INFINITY) / (1u64 << 20) as f64).fold(0.0, f64::max)
}

/// EXACT certificate of a rounding-tie state, for any n and any basis: with D = f f* + g g*,
/// N = F f* + G g*, A the adjugate of D and rho = D A > 0 (an integer), the exact quotient is
/// q = N A / rho. A tie state has every |2 (N A)_i| <= rho and at least one |2 (N A)_i| = rho,
/// i.e. every coefficient of the exact quotient within [-1/2, 1/2] and some equal to +-1/2.
/// All arithmetic is over the integers. Returns the number of tied coefficients.
fn tie_state_exact(f: &[i64], g: &[i64], cf: &[i64], cg: &[i64]) -> Option<usize> {
    use num::{Signed, Zero};
    let den: Vec<i128> = spec::negamul_z(f, &adjoint(f)).iter().zip(spec::negamul_z(g, &adjoint(g)).iter()).map(|(a, b)| a + b).collect();
    let num_: Vec<i128> = spec::negamul_z(cf, &adjoint(f)).iter().zip(spec::negamul_z(cg, &adjoint(g)).iter()).map(|(a, b)| a + b).collect();
    let d: Vec<BigInt> = den.iter().map(|&x| BigInt::from(x)).collect();
    let nn: Vec<BigInt> = num_.iter().map(|&x| BigInt::from(2 * x)).collect();
    let (adj, rho) = big_adjugate(&d);
    if rho.is_zero() {
        return None;
    }
    let rho = rho.abs();
    // sign: D is totally positive, so rho = D A > 0 when A is the true adjugate; the tower may
    // return (-A, -rho): only magnitudes are compared below
    let q2 = big_negamul(&nn, &adj);
    if q2.iter().any(|x| x.abs() > rho) {
        return None;
    }
    let ties = q2.iter().filter(|x| x.abs() == rho).count();
    if ties > 0 {
        Some(ties)
    } else {
        None
    }
}

fn gauss(rng: &mut ChaCha20Rng, sigma: f64) -> i64 {
    // Box-Muller, rounded
    let u1: f64 = rng.gen::<f64>().max(1e-300);
    let u2: f64 = rng.gen();
    ((-2.0 * u1.ln()).sqrt() * (2.0 * std::f64::consts::PI * u2).cos() * sigma).round() as i64
}

pub fn gen_input(n: usize, rng: &mut ChaCha20Rng) -> Option<(V4, String)> {
    let widths = [1.17 * (12289.0 / (2.0 * n as f64)).sqrt(), 0.6, 1.0, 2.5, 6.0, 20.0, 60.0];
    let wi = rng.gen_range(0..widths.len());
    let sigma = widths[wi].min(80.0).max(0.6);
    let f: Vec<i64> = (0..n).map(|_| gauss(rng, sigma)).collect();
    let g: Vec<i64> = (0..n).map(|_| gauss(rng, sigma)).collect();
    if f.iter().chain(g.iter()).all(|&x| x == 0) {
        return None;
    }
    let shape = rng.gen_range(0..6);
    // shapes 4 and 5: (F,G) SHORTER than (f,g) but not necessarily reduced
    let small = if shape == 4 { rng.gen_range(1..=6) } else { 127 };
    let f0: Vec<i64> = (0..n).map(|_| rng.gen_range(-small..=small)).collect();
    let g0: Vec<i64> = (0..n).map(|_| rng.gen_range(-small..=small)).collect();
    if shape == 5 {
        // a fraction of (f,g) itself: trunc(c (f,g)) with 0.4 <= c < 1
        let c: f64 = 0.4 + 0.6 * rng.gen::<f64>();
        let cf: Vec<i64> = f.iter().map(|&x| (x as f64 * c) as i64).collect();
        let cg: Vec<i64> = g.iter().map(|&x| (x as f64 * c) as i64).collect();
        if cf.iter().chain(cg.iter()).all(|&x| x == 0) {
            return None;
        }
        return Some(((f, g, cf, cg), format!("fraction-of-fg-w{}", wi)));
    }
    let mag_bits = rng.gen_range(2..=20);
    let mag = 1i64 << mag_bits;
    let mut k: Vec<i64> = match shape {
        0 => (0..n).map(|_| rng.gen_range(-mag..=mag)).collect(), // dense
        1 => {
            let mut v = vec![0i64; n];
            for _ in 0..rng.gen_range(1..4) {
                v[rng.gen_range(0..n)] = rng.gen_range(-mag..=mag);
            }
            v
        }
        2 => {
            let mut v: Vec<i64> = (0..n).map(|_| rng.gen_range(-3..=3)).collect();
            v[rng.gen_range(0..n)] = mag;
            v
        }
        _ => vec![0i64; n], // k = 0: (F,G) = (F0,G0)
    };
    // one time in six: k is a single term c*x^j or a dense even part plus c*x (quotients whose
    // transform has constant sub-blocks)
    if rng.gen_range(0..6) == 0 && shape < 4 {
        let c = rng.gen_range(1..=mag).max(1) * if rng.gen() { 1 } else { -1 };
        if rng.gen() {
            k = vec![0i64; n];
            k[rng.gen_range(0..n.min(4))] = c;
        } else {
            for (i, x) in k.iter_mut().enumerate() {
                if i % 2 == 1 {
                    *x = 0;
                }
            }
            if n > 1 {
                k[1] = c;
            }
        }
    }
    // one time in five (n >= 4): the quotient holds aligned blocks (u, -u) (the lower half of a
    // block is the exact negation of its upper half), up to k = u(x)(1 - x^(n/2)): folded sums
    // lo + hi of such blocks vanish, which a divide-and-conquer product must not mistake for
    // "nothing to do"
    let mut sname_override: Option<&str> = None;
    if n >= 4 && shape < 3 && rng.gen_range(0..5) == 0 {
        let levels = n.trailing_zeros();
        let h = 1usize << rng.gen_range(0..levels); // half-length of the block
        let whole = rng.gen_range(0..3) == 0;
        let blocks: Vec<usize> = if whole { (0..n / (2 * h)).collect() } else { vec![rng.gen_range(0..n / (2 * h))] };
        for b in blocks {
            let off = b * 2 * h;
            for i in 0..h {
                let u = rng.gen_range(-mag..=mag).max(-mag);
                k[off + i] = if u == 0 { 1 } else { u };
                k[off + h + i] = -k[off + i];
            }
        }
        sname_override = Some("negated-half-blocks");
    }
    let sname = sname_override.unwrap_or(["dense", "sparse", "spiky", "zero-k", "zero-k-tiny-FG", "fraction"][shape]);
    // scale k down until (F,G) fits below 2^24
    for _ in 0..24 {
        let kf = spec::negamul_z(&k, &f);
        let kg = spec::negamul_z(&k, &g);
        let cf: Vec<i64> = (0..n).map(|i| f0[i] + kf[i] as i64).collect();
        let cg: Vec<i64> = (0..n).map(|i| g0[i] + kg[i] as i64).collect();
        let mx = cf.iter().chain(cg.iter()).map(|x| x.abs()).max().unwrap();
        if mx < (1 << 24) {
            if cf.iter().chain(cg.iter()).all(|&x| x == 0) {
                return None;
            }
            return Some(((f, g, cf, cg), format!("{}-w{}-k2^{}", sname, wi, mag_bits)));
        }
        for x in k.iter_mut() {
            *x /= 2;
        }
    }
    None
}

/// Inputs whose exact first quotient has ONE coefficient at distance `delta` (1e-9 .. 1e-7)
/// from a half-integer, at production amplitude. The quotient of (F,G) = K (f,g) + R is K + q_R
/// exactly (K integer, huge), so its fractional parts are those of q_R, which is computed here
/// from the SMALL pair R in double precision (absolute error ~1e-14). R is steered: entries of
/// R_F far from the target coefficient move it by tiny known weights, so a greedy digit-by-digit
/// adjustment lands it on 1/2 - delta; every other coefficient is kept well away from a tie.
/// The implementation under test sees |F|,|G| ~ 2^24, where its own floating-point quotient is
/// only good to 1e-8 .. 1e-7: whether it rounds that coefficient up or down in its first pass
/// is a coin flip, and the result must not depend on it.
pub fn near_tie_input(n: usize, delta: f64, rng: &mut ChaCha20Rng) -> Option<(V4, String)> {
    use crate::refs::ffs::{fft, ifft, C};
    // tiny sparse (f,g)
    let mut f = vec![0i64; n];
    let mut g = vec![0i64; n];
    for v in [&mut f, &mut g] {
        for _ in 0..rng.gen_range(1..=3) {
            v[rng.gen_range(0..n)] = if rng.gen() { 1 } else { -1 };
        }
    }
    if f.iter().all(|&x| x == 0) || g.iter().all(|&x| x == 0) {
        return None;
    }
    let terms = f.iter().filter(|&&x| x != 0).count().max(g.iter().filter(|&&x| x != 0).count()) as i64;
    if f.iter().filter(|&&x| x != 0).count() + g.iter().filter(|&&x| x != 0).count() < 3 {
        return None; // two monomials: f f* + g g* is a constant, no near ties exist
    }
    let tof = |v: &[i64]| v.iter().map(|&x| x as f64).collect::<Vec<f64>>();
    let (fh, gh) = (fft(&tof(&f)), fft(&tof(&g)));
    let d: Vec<f64> = (0..n).map(|k| fh[k].0 * fh[k].0 + fh[k].1 * fh[k].1 + gh[k].0 * gh[k].0 + gh[k].1 * gh[k].1).collect();
    let dbg = std::env::var("VF_DEBUG_NT").is_ok();
    if d.iter().any(|&x| x < 0.01) {
        if dbg {
            eprintln!("NT: ill-conditioned min d = {:e}", d.iter().cloned().fold(f64::INFINITY, f64::min));
        }
        return None; // badly conditioned: the double-precision side computation would be poor
    }
    let quotient = |rf: &[i64], rg: &[i64]| -> Vec<f64> {
        let (a, b) = (fft(&tof(rf)), fft(&tof(rg)));
        let q: Vec<C> = (0..n).map(|k| a[k].mul(fh[k].conj()).add(b[k].mul(gh[k].conj())).scale(1.0 / d[k])).collect();
        ifft(&q)
    };
    // u = f*/D: response of the quotient to a unit change of R_F[0]
    let u = ifft(&(0..n).map(|k| fh[k].conj().scale(1.0 / d[k])).collect::<Vec<C>>());
    let mut rf: Vec<i64> = (0..n).map(|_| rng.gen_range(-3..=3)).collect();
    let rg: Vec<i64> = (0..n).map(|_| rng.gen_range(-3..=3)).collect();
    let i = rng.gen_range(0..n);
    let weight = |j: usize| if i >= j { u[i - j] } else { -u[i + n - j] };
    let target = 0.5 - delta;
    let frac_to = |x: f64| {
        // signed distance from x to the nearest number congruent to `target` modulo 1
        let r = (target - x).rem_euclid(1.0);
        if r > 0.5 {
            r - 1.0
        } else {
            r
        }
    };
    let mut used = vec![false; n];
    let wmin = (0..n).map(|j| weight(j).abs()).filter(|&w| w >= 1e-13).fold(f64::INFINITY, f64::min);
    for _round in 0..24 {
        let q = quotient(&rf, &rg);
        let r = frac_to(q[i]);
        if r.abs() < 2e-11 || r.abs() < 40.0 * wmin {
            break;
        }
        // the unused position whose weight is closest to |r|/8
        let want = r.abs() / 8.0;
        let mut best: Option<(usize, f64)> = None;
        for j in 0..n {
            let w = weight(j).abs();
            if used[j] || w < 1e-13 {
                continue;
            }
            let score = (w.ln() - want.ln()).abs();
            if best.map(|b| score < b.1).unwrap_or(true) {
                best = Some((j, score));
            }
        }
        let (j, _) = best?;
        used[j] = true;
        let t = (r / weight(j)).round().clamp(-64.0, 64.0) as i64;
        rf[j] += t;
    }
    // the weights do not always decay far enough for a digit-by-digit landing: finish with a
    // meet-in-the-middle search over integer combinations of the four smallest unused weights
    {
        let q = quotient(&rf, &rg);
        let r = frac_to(q[i]);
        if r.abs() >= 2e-11 {
            let mut cand: Vec<usize> = (0..n).filter(|&j| !used[j] && weight(j).abs() >= 1e-13).collect();
            cand.sort_by(|&a, &b| weight(a).abs().partial_cmp(&weight(b).abs()).unwrap());
            if cand.len() < 4 {
                return None;
            }
            let js = [cand[0], cand[1], cand[2], cand[3]];
            let w: Vec<f64> = js.iter().map(|&j| weight(j)).collect();
            let tmax = 64i64;
            let mut left: Vec<(f64, i64, i64)> = vec![];
            for t0 in -tmax..=tmax {
                for t1 in -tmax..=tmax {
                    left.push((t0 as f64 * w[0] + t1 as f64 * w[1], t0, t1));
                }
            }
            left.sort_by(|a, b| a.0.partial_cmp(&b.0).unwrap());
            let mut best: (f64, [i64; 4]) = (r.abs(), [0; 4]);
            for t2 in -tmax..=tmax {
                for t3 in -tmax..=tmax {
                    let need = r - (t2 as f64 * w[2] + t3 as f64 * w[3]);
                    let pos = left.partition_point(|x| x.0 < need);
                    for p in [pos.saturating_sub(1), pos.min(left.len() - 1)] {
                        let e = (need - left[p].0).abs();
                        if e < best.0 {
                            best = (e, [left[p].1, left[p].2, t2, t3]);
                        }
                    }
                }
            }
            for (k, &j) in js.iter().enumerate() {
                rf[j] += best.1[k];
            }
        }
    }
    let q = quotient(&rf, &rg);
    if frac_to(q[i]).abs() > (delta.abs() / 3.0).min(1e-10) {
        if dbg {
            eprintln!("NT: not converged: {:e}", frac_to(q[i]));
        }
        return None;
    }
    // no other coefficient near a tie
    for (k, &x) in q.iter().enumerate() {
        let dist = ((x - 0.5).rem_euclid(1.0)).min(1.0 - (x - 0.5).rem_euclid(1.0));
        if k != i && dist < 1e-4 {
            if dbg {
                eprintln!("NT: another coefficient near a tie");
            }
            return None;
        }
    }
    // (F,G) = K (f,g) + R with K huge
    // the quotient as large as the domain allows: the rounding of the implementation's own
    // double-precision quotient is coarsest there (ulp(2^23) = 1.9e-9)
    let a = ((1i64 << 24) - 64) / terms - 8;
    let k: Vec<i64> = (0..n).map(|_| rng.gen_range(-a..=a)).collect();
    let kf = spec::negamul_z(&k, &f);
    let kg = spec::negamul_z(&k, &g);
    let cf: Vec<i64> = (0..n).map(|t| rf[t] + kf[t] as i64).collect();
    let cg: Vec<i64> = (0..n).map(|t| rg[t] + kg[t] as i64).collect();
    if cf.iter().chain(cg.iter()).any(|x| x.abs() >= 1 << 24) {
        return None;
    }
    if dbg {
        // what a double-precision FFT quotient (the crate's own transform) makes of this input
        let c = |v: &[i64]| v.iter().map(|&x| (x as f64, 0.0)).collect::<Vec<(f64, f64)>>();
        let (ff, gg, fcf, fcg) = (vh::cfft(&c(&f)), vh::cfft(&c(&g)), vh::cfft(&c(&cf)), vh::cfft(&c(&cg)));
        let num: Vec<(f64, f64)> = (0..n)
            .map(|k| {
                let a = (fcf[k].0 * ff[k].0 + fcf[k].1 * ff[k].1, fcf[k].1 * ff[k].0 - fcf[k].0 * ff[k].1);
                let b = (fcg[k].0 * gg[k].0 + fcg[k].1 * gg[k].1, fcg[k].1 * gg[k].0 - fcg[k].0 * gg[k].1);
                let dd = ff[k].0 * ff[k].0 + ff[k].1 * ff[k].1 + gg[k].0 * gg[k].0 + gg[k].1 * gg[k].1;
                ((a.0 + b.0) / dd, (a.1 + b.1) / dd)
            })
            .collect();
        let qq = vh::cifft(&num);
        let mut worst = 0.0f64;
        for t in 0..n {
            let e = qq[t].0 - (k[t] as f64 + q[t]);
            worst = worst.max(e.abs());
        }
        let ei = qq[i].0 - (k[i] as f64 + q[i]);
        eprintln!("NT: ok n={} delta={:e} min_d={:.3} float error at i = {:e}, worst = {:e}, computed frac dist to .5 = {:e}", n, delta, d.iter().cloned().fold(f64::INFINITY, f64::min), ei, worst, 0.5 - (qq[i].0 - qq[i].0.round()).abs());
    }
    Some(((f, g, cf, cg), format!("near-tie-{:e}-coefficient-{}", delta, i)))
}

// ---------------------------------------------------------------------------
// the 30-bit prime field underneath babai_reduce_i32

const P30: i64 = 1073754113;

fn powm30(mut b: i64, mut e: i64) -> i64 {
    let mut r: i128 = 1;
    let mut bb: i128 = (b.rem_euclid(P30)) as i128;
    while e > 0 {
        if e & 1 == 1 {
            r = r * bb % P30 as i128;
        }
        bb = bb * bb % P30 as i128;
        e >>= 1;
    }
    b = r as i64;
    b
}

fn negamul_mod30(a: &[i64], b: &[i64]) -> Vec<i64> {
    let n = a.len();
    let mut r = vec![0i128; n];
    for i in 0..n {
        let ai = a[i].rem_euclid(P30) as i128;
        if ai == 0 {
            continue;
        }
        for j in 0..n {
            let p = ai * b[j].rem_euclid(P30) as i128 % P30 as i128;
            let k = i + j;
            if k < n {
                r[k] += p;
            } else {
                r[k - n] -= p;
            }
        }
    }
    r.iter().map(|x| x.rem_euclid(P30 as i128) as i64).collect()
}

/// Element operations of the 30-bit field against i128 arithmetic on boundary and random
/// operands (operand pairs around every power of two up to 2^30, around the modulus and its
/// half, small x small, small x large), and the transforms on structured polynomials.
pub fn u32_field(ctx: &Ctx, rep: &mut Report) {
    let mut specials: Vec<i64> = vec![0, 1, 2, 3, P30 - 1, P30 - 2, P30 / 2, P30 / 2 + 1, P30 / 2 - 1, 48440, 52977];
    for k in 1..31 {
        for d in [-1i64, 0, 1] {
            let v = (1i64 << k) + d;
            if v >= 0 && v < P30 {
                specials.push(v);
            }
        }
    }
    for v in [181i64, 255, 256, 12289, 20269, 32767, 32768, 40000, 46340, 46341, 65535, 65536, 65537, 1 << 20, (1 << 24) - 1, 1 << 24] {
        specials.push(v);
    }
    specials.sort();
    specials.dedup();
    let check = |a: i64, b: i64, rep: &mut Report| {
        // operands are handed over as the signed representatives the wrappers accept
        let sa = if a > P30 / 2 { (a - P30) as i32 } else { a as i32 };
        let sb = if b > P30 / 2 { (b - P30) as i32 } else { b as i32 };
        rep.evaluations += 1;
        let r = monitored(|| (vh::u32f_new(sa), vh::u32f_add(sa, sb), vh::u32f_sub(sa, sb), vh::u32f_mul(sa, sb), vh::u32f_multiply(sa, sb), vh::u32f_neg(sa), vh::u32f_balanced(sa)));
        let replay = json!({"kind": "u32f", "a": sa, "b": sb});
        match r {
            Err(p) => rep.violation(&format!("panic:u32field@{}", short_loc(&p.location)), format!("U32Field operation on ({}, {}) panicked: {}", a, b, p.message), replay),
            Ok((nw, ad, sb_, ml, ml2, ng, bal)) => {
                let want = [a, (a + b) % P30, (a - b).rem_euclid(P30), ((a as i128 * b as i128) % P30 as i128) as i64, ((a as i128 * b as i128) % P30 as i128) as i64, (-a).rem_euclid(P30)];
                let got = [nw as i64, ad as i64, sb_ as i64, ml as i64, ml2 as i64, ng as i64];
                let names = ["new", "add", "sub", "mul", "multiply", "neg"];
                for i in 0..6 {
                    if got[i] != want[i] {
                        rep.violation(&format!("u32field:{}-wrong", names[i]), format!("U32Field {}({}, {}) = {} expected {}", names[i], a, b, got[i], want[i]), replay.clone());
                    }
                }
                let wb = if a > P30 / 2 { a - P30 } else { a };
                if bal as i64 != wb {
                    rep.violation("u32field:balanced-wrong", format!("balanced({}) = {} expected {}", a, bal, wb), replay.clone());
                }
            }
        }
    };
    for &a in &specials {
        for &b in &specials {
            check(a, b, rep);
        }
        rep.nontrivial(format!("special|{}", a).as_bytes());
    }
    rep.count("special_operand_pairs", (specials.len() * specials.len()) as u64);
    let nrand = ctx.sz(400_000, 40_000_000);
    let r = par_for(16, ncpu(), |w, rep| {
        let mut rng = rng_for(ctx.seed, &format!("c17-u32f-{}", w));
        for i in 0..nrand / 16 {
            // magnitudes spread over all bit lengths on both operands
            let ka = rng.gen_range(1..31);
            let kb = if i % 3 == 0 { rng.gen_range(1..18) } else { rng.gen_range(1..31) };
            let a = rng.gen_range(0..(1i64 << ka)).min(P30 - 1);
            let b = rng.gen_range(0..(1i64 << kb)).min(P30 - 1);
            check(a, b, rep);
            if i % 64 == 0 && a != 0 {
                let sa = if a > P30 / 2 { (a - P30) as i32 } else { a as i32 };
                match monitored(|| vh::u32f_inv(sa)) {
                    Ok(inv) => {
                        if (inv as i128 * a as i128) % P30 as i128 != 1 {
                            rep.violation("u32field:inverse-wrong", format!("inverse({}) = {}", a, inv), json!({"kind": "u32f", "a": sa, "b": 0}));
                        }
                    }
                    Err(p) => rep.violation(&format!("panic:u32field-inv@{}", short_loc(&p.location)), p.message.clone(), json!({"kind": "u32f", "a": sa, "b": 0})),
                }
            }
        }
        rep.count("random_operand_pairs", (nrand / 16) as u64);
    });
    rep.merge(r);
    // transforms: impulses, constants, c*X^j (single terms of every magnitude), random;
    // round trip and product against the schoolbook product modulo the 30-bit prime
    let sizes: Vec<usize> = (1..=10).map(|k| 1usize << k).collect();
    let r = par_for(sizes.len(), ncpu(), |si, rep| {
        let n = sizes[si];
        let mut rng = rng_for(ctx.seed, &format!("c17-u32ntt-{}", n));
        let rb: Vec<i64> = (0..n).map(|_| rng.gen_range(-40i64..=40)).collect();
        let mut polys: Vec<(String, Vec<i64>)> = vec![];
        for j in [0usize, 1, 2, 3, n / 2, n - 1] {
            if j >= n {
                continue;
            }
            for c in [1i64, -1, 255, 20269, 30000, 47111, 65535, 65536, 1 << 20, (1 << 24) - 1, -(1 << 23)] {
                let mut v = vec![0i64; n];
                v[j] = c;
                polys.push((format!("{}*x^{}", c, j), v));
            }
        }
        polys.push(("constant-all".into(), vec![30000i64; n]));
        // e(x^2) + c*x: dense even part, single odd term
        for c in [25000i64, 47111, 65000] {
            let mut v: Vec<i64> = (0..n).map(|i| if i % 2 == 0 { rng.gen_range(-(1i64 << 20)..(1 << 20)) } else { 0 }).collect();
            if n > 1 {
                v[1] = c;
            }
            polys.push((format!("even-part+{}x", c), v));
        }
        for _ in 0..ctx.sz(6, 200) {
            polys.push(("random".into(), (0..n).map(|_| rng.gen_range(-(1i64 << 23)..(1 << 23))).collect()));
        }
        // ACCUMULATING inputs: dense random data adjusted in k+1 places so that, in a radix-2
        // butterfly network of the usual shape (slot j and slot j + n/2^l combine at layer l with
        // a twiddle), the running value of slot 0 is u + v_1 + ... + v_k with u and every twiddled
        // partner v_l congruent to Q - e_l for tiny e_l: an implementation that postpones the
        // reduction for k layers sees (k+1) Q - (e_0 + ... + e_k) there, which for k = 3 exceeds
        // 2^32 iff the e's sum to at most 49156. The network shape is CHECKED, not assumed: the
        // harness simulates all layers with twiddles read off the crate's own transform of the
        // monomial x and uses the family only if the simulation reproduces the crate's transform.
        if n >= 4 {
            let mut xm = vec![0i32; n];
            xm[1] = 1;
            if let Ok(ev) = monitored(move || vh::u32_ntt(&xm)) {
                let ev: Vec<i64> = ev.iter().map(|&x| x as i64).collect();
                let mulm = |a: i64, b: i64| ((a as i128 * b as i128) % P30 as i128) as i64;
                let tw = |m: usize, i: usize| -> i64 {
                    // twiddle of block i at the level with m blocks: (evaluation point of its first slot)^t
                    let t = n / (2 * m);
                    powm30(ev[2 * i * t], t as i64)
                };
                let sim = |b: &Vec<i64>, layers: usize| -> Vec<i64> {
                    let mut a = b.clone();
                    let (mut t, mut m, mut l) = (n, 1usize, 0usize);
                    while m < n && l < layers {
                        t >>= 1;
                        for i in 0..m {
                            let s_ = tw(m, i);
                            for j in 2 * i * t..2 * i * t + t {
                                let u = a[j];
                                let v = mulm(a[j + t], s_);
                                a[j] = (u + v) % P30;
                                a[j + t] = (u - v).rem_euclid(P30);
                            }
                        }
                        m <<= 1;
                        l += 1;
                    }
                    a
                };
                let logn = n.trailing_zeros() as usize;
                let probe: Vec<i64> = (0..n).map(|_| rng.gen_range(0..P30)).collect();
                let probe_i: Vec<i32> = probe.iter().map(|&x| if x > P30 / 2 { (x - P30) as i32 } else { x as i32 }).collect();
                let shape_ok = match monitored(move || vh::u32_ntt(&probe_i)) {
                    Ok(h) => h.iter().map(|&x| x as i64).collect::<Vec<_>>() == sim(&probe, logn),
                    Err(_) => false,
                };
                if shape_ok {
                    rep.count("butterfly_network_shape_confirmed", 1);
                    for k in 1..=logn.min(6) {
                        for total in [k as i64 + 1, 1000, 40_000, 49_150, 49_156, 49_157, 60_000] {
                            for _rep in 0..ctx.sz(2, 20) {
                                // e_0..e_k positive, summing to `total`
                                let mut e = vec![1i64; k + 1];
                                let mut left = total - (k as i64 + 1);
                                for x in e.iter_mut().take(k) {
                                    let d = if left > 0 { rng.gen_range(0..=left) } else { 0 };
                                    *x += d;
                                    left -= d;
                                }
                                e[k] += left;
                                let mut b: Vec<i64> = (0..n).map(|_| rng.gen_range(0..P30)).collect();
                                b[0] = P30 - e[0];
                                for l in 1..=k {
                                    let t = n >> l;
                                    let s_ = tw(1 << (l - 1), 0);
                                    let cur = sim(&b, l - 1)[t];
                                    let want = mulm(P30 - e[l], powm30(s_, P30 - 2));
                                    b[t] = (b[t] + want - cur).rem_euclid(P30);
                                }
                                // self-check of the construction
                                let ok = (1..=k).all(|l| mulm(sim(&b, l - 1)[n >> l], tw(1 << (l - 1), 0)) == P30 - e[l]);
                                if !ok {
                                    rep.count("accumulating_construction_failed", 1);
                                    continue;
                                }
                                let signed: Vec<i64> = b.iter().map(|&x| if x > P30 / 2 { x - P30 } else { x }).collect();
                                polys.push((format!("accumulating-{}-layers-total-{}", k, total), signed));
                                rep.count("accumulating_inputs", 1);
                            }
                        }
                    }
                } else {
                    rep.count("butterfly_network_shape_not_confirmed", 1);
                }
            }
        }
        for (name, a) in polys {
            rep.evaluations += 1;
            let ai: Vec<i32> = a.iter().map(|&x| x as i32).collect();
            let bi: Vec<i32> = rb.iter().map(|&x| x as i32).collect();
            let (a2, b2) = (ai.clone(), bi.clone());
            let r = monitored(move || {
                let h = vh::u32_ntt(&a2);
                let hs: Vec<i32> = h.iter().map(|&x| if x as i64 > P30 / 2 { (x as i64 - P30) as i32 } else { x as i32 }).collect();
                (vh::u32_intt(&hs), vh::u32_ntt_mul(&a2, &b2), h)
            });
            let replay = json!({"kind": "u32ntt", "a": ai, "b": bi});
            match r {
                Err(p) => rep.violation(&format!("panic:u32ntt@{}", short_loc(&p.location)), format!("n={} ({}): {}", n, name, p.message), replay),
                Ok((back, prod, h)) => {
                    let am: Vec<i64> = a.iter().map(|x| x.rem_euclid(P30)).collect();
                    if back.iter().map(|&x| x as i64).collect::<Vec<_>>() != am {
                        rep.violation("u32ntt:roundtrip", format!("intt(ntt(a)) != a modulo the 30-bit prime for n={} ({})", n, name), replay.clone());
                    }
                    if h.iter().any(|&x| x as i64 >= P30) {
                        rep.violation("u32ntt:non-canonical", format!("transform output not reduced for n={} ({})", n, name), replay.clone());
                    }
                    let want = negamul_mod30(&a, &rb);
                    if prod.iter().map(|&x| x as i64).collect::<Vec<_>>() != want {
                        rep.violation("u32ntt:product", format!("intt(ntt(a).ntt(b)) != a*b modulo (x^n+1, 30-bit prime) for n={} ({})", n, name), replay);
                    }
                }
            }
            rep.nontrivial(format!("u32ntt|{}|{}", n, name).as_bytes());
        }
        rep.count("u32_ntt_sizes", 1);
    });
    rep.merge(r);
    let _ = powm30;
    rep.require("u32_ntt_sizes", 10);
    rep.sample(json!({"special_operands": specials.len(), "random_pairs": nrand, "transform_inputs": "c*x^j single terms of all magnitudes, even-part + c*x, constants, random"}));
}

pub fn witness() -> V4 {
    (vec![1, 1], vec![1, -1], vec![1, 0], vec![1, 0])
}

pub fn saturation_witness() -> V4 {
    let n = 512;
    let mut f = vec![0i64; n];
    f[..4].copy_from_slice(&[1, 1, -1, -1]);
    let mut g = vec![0i64; n];
    g[..5].copy_from_slice(&[0, 0, 2, 4, 2]);
    let cf: Vec<i64> = (0..n as i64).map(|i| (if i % 2 == 0 { -12_000_000 } else { 12_000_000 }) + (i * 7919) % 2001 - 1000).collect();
    let cg: Vec<i64> = (0..n as i64).map(|i| (if i % 2 == 0 { 6_000_000 } else { -6_000_000 }) + (i * 104729) % 2001 - 1000).collect();
    (f, g, cf, cg)
}

pub fn synthetic(ctx: &Ctx, rep: &mut Report) {
    // the committed witness of the known finding first
    check_input(&witness(), "committed-witness", rep);
    check_input(&(vec![2, 0], vec![0, 0], vec![1, 0], vec![0, 0]), "committed-witness-2", rep);
    // committed witness of the second known finding (babai-i32-quotient-saturation): a basis with
    // the double factor (1 + x)^2 and an alternating (F,G) of amplitude 1.2e7 < 2^24
    check_input(&saturation_witness(), "committed-witness-saturation", rep);
    // (F,G) = 0 is inside the stated domain ("every (F,G) whose coefficients stay below 2^24"):
    // it is already reduced, both versions must return it unchanged
    {
        let mut rng = rng_for(ctx.seed, "c17-zero-FG");
        for n in [2usize, 4, 16, 64, 512, 1024] {
            for w in [1.5f64, 4.0] {
                let f: Vec<i64> = (0..n).map(|_| gauss(&mut rng, w)).collect();
                let mut g: Vec<i64> = (0..n).map(|_| gauss(&mut rng, w)).collect();
                if f.iter().chain(g.iter()).all(|&x| x == 0) {
                    g[0] = 1;
                }
                check_input(&(f, g, vec![0i64; n], vec![0i64; n]), "zero-FG", rep);
                rep.count("zero_FG_inputs", 1);
            }
        }
    }
    // the same low-degree basis (f,g), zero-padded to different ring sizes, reduced back to back
    // on ONE thread with a fresh unreduced (F,G) each time: per-basis state kept between calls
    // must not survive a change of n
    {
        let mut rng = rng_for(ctx.seed, "c17-cross-size");
        let sizes: Vec<usize> = (1..=10).map(|k| 1usize << k).collect();
        for round in 0..ctx.sz(6, 80) {
            let deg = rng.gen_range(1..=2usize);
            let hf: Vec<i64> = (0..deg).map(|_| rng.gen_range(-6i64..=6)).collect();
            let mut hg: Vec<i64> = (0..deg).map(|_| rng.gen_range(-6i64..=6)).collect();
            if hf.iter().chain(hg.iter()).all(|&x| x == 0) {
                hg[0] = 1;
            }
            let mut order: Vec<usize> = sizes.iter().cloned().filter(|&n| n >= deg).collect();
            match round % 3 {
                1 => order.reverse(),
                2 => {
                    for k in (1..order.len()).rev() {
                        let j = rng.gen_range(0..=k);
                        order.swap(k, j);
                    }
                }
                _ => {}
            }
            // big-integer reference is slow at the largest sizes: keep two of them per walk
            let mut big = 0;
            for &n in &order {
                if n >= 512 {
                    big += 1;
                    if big > 2 && round % 2 == 1 {
                        continue;
                    }
                }
                let embed = |h: &Vec<i64>| {
                    let mut v = vec![0i64; n];
                    v[..h.len()].copy_from_slice(h);
                    v
                };
                let (f, g) = (embed(&hf), embed(&hg));
                let k: Vec<i64> = (0..n).map(|_| rng.gen_range(-(1i64 << 16)..=(1 << 16))).collect();
                let (kf, kg) = (spec::negamul_z(&k, &f), spec::negamul_z(&k, &g));
                let cf: Vec<i64> = (0..n).map(|t| kf[t] as i64 + rng.gen_range(-3..=3)).collect();
                let cg: Vec<i64> = (0..n).map(|t| kg[t] as i64 + rng.gen_range(-3..=3)).collect();
                if cf.iter().chain(cg.iter()).any(|x| x.abs() >= 1 << 24) {
                    continue;
                }
                check_input(&(f, g, cf, cg), "same-low-degree-basis-at-another-size", rep);
                rep.count("cross_size_basis_steps", 1);
            }
            rep.count("cross_size_basis_walks", 1);
        }
        rep.require("cross_size_basis_walks", 3);
    }
    // ILL-CONDITIONED bases with large, structured (F,G): f and g share the factor (1 + x) (both
    // nearly vanish at the root closest to -1), F and G carry an alternating-sign pattern of
    // amplitude c < 2^24 aligned with that root: the first quotient is amplified by up to n/2 and
    // reaches 2^29 .. 2^31 although every input coefficient is below 2^24
    {
        let mut rng = rng_for(ctx.seed, "c17-ill-conditioned");
        for round in 0..ctx.sz(36, 600) {
            let n = [256usize, 512, 1024][round % 3];
            let small = |rng: &mut ChaCha20Rng, terms: usize| -> Vec<i64> {
                let mut v = vec![0i64; n];
                for _ in 0..terms {
                    v[rng.gen_range(0..4)] = rng.gen_range(-2i64..=2);
                }
                if v.iter().all(|&x| x == 0) {
                    v[0] = 1;
                }
                v
            };
            let mut one_plus_x = vec![0i64; n];
            one_plus_x[0] = 1;
            one_plus_x[1] = 1;
            let to64 = |v: Vec<i128>| v.iter().map(|&x| x as i64).collect::<Vec<i64>>();
            let f = to64(spec::negamul_z(&one_plus_x, &small(&mut rng, 2)));
            let g = to64(spec::negamul_z(&one_plus_x, &small(&mut rng, 2)));
            let (f, g) = if (round / 3) % 6 == 5 {
                // a double factor (1 + x)^2: the amplification grows from ~n to ~n^3
                (to64(spec::negamul_z(&one_plus_x, &f)), to64(spec::negamul_z(&one_plus_x, &g)))
            } else {
                (f, g)
            };
            if f.iter().all(|&x| x == 0) || g.iter().all(|&x| x == 0) {
                continue;
            }
            // amplitude chosen from the EXACT quotient of the unit pattern so that the largest
            // quotient coefficient lands on a chosen target: below the 30-bit modulus, between the
            // modulus and 2^31 (both signs), and (few) beyond 2^31 - the documented limit of the
            // 32-bit version, see known finding babai-i32-quotient-saturation
            let basis = match basis_adjugate(&f, &g) {
                Some(b) => b,
                None => continue,
            };
            let unit_f: Vec<i64> = (0..n).map(|i| if i % 2 == 0 { 1000 } else { -1000 }).collect();
            let unit_g: Vec<i64> = (0..n).map(|i| if i % 2 == 0 { -500 } else { 500 }).collect();
            let per_unit = quotient_max_abs(&f, &g, &unit_f, &unit_g, &basis) / 1000.0;
            if !(per_unit > 0.0) {
                continue;
            }
            let target = [2f64.powf(28.5), 2f64.powf(29.7), 2f64.powf(30.3), 2f64.powf(30.9), 2f64.powf(30.6), 2f64.powf(31.8)][(round / 3) % 6];
            let mut c = (target / per_unit) as i64;
            if c < 2000 {
                // doubly ill-conditioned basis: even tiny (F,G) overflow; keep a few as witnesses
                c = 2000;
            }
            if c > 16_000_000 {
                c = 16_000_000;
            }
            let noise = (c / 4000).max(1);
            let c = if round % 2 == 0 { c } else { -c };
            let cf: Vec<i64> = (0..n).map(|i| (if i % 2 == 0 { c } else { -c }) + rng.gen_range(-noise..=noise)).collect();
            let cg: Vec<i64> = (0..n).map(|i| (if i % 2 == 0 { -c } else { c }) / 2 + rng.gen_range(-noise..=noise)).collect();
            if cf.iter().chain(cg.iter()).any(|x| x.abs() >= 1 << 24) {
                continue;
            }
            let m = quotient_max_abs(&f, &g, &cf, &cg, &basis);
            rep.stat_max("ill_conditioned_max_quotient_log2", m.log2());
            if m >= 1073754113.0 && m < 2147483648.0 {
                rep.count("ill_conditioned_quotient_between_modulus_and_2^31", 1);
            } else if m >= 2147483648.0 {
                rep.count("ill_conditioned_quotient_beyond_2^31", 1);
            } else if m >= 268435456.0 {
                rep.count("ill_conditioned_quotient_2^28_to_modulus", 1);
            }
            check_input(&(f, g, cf, cg), "ill-conditioned-basis-alternating-FG", rep);
            rep.count("ill_conditioned_inputs", 1);
        }
        rep.require("ill_conditioned_inputs", 20);
        rep.require("ill_conditioned_quotient_between_modulus_and_2^31", 6);
    }
    // near ties at production amplitude (see near_tie_input)
    let deltas = [2e-10f64, 5e-10, 1e-9, 2e-9, 4e-9, 1.6e-8, -2e-10, -5e-10, -1e-9, -2e-9, -4e-9, -1.6e-8];
    let reps = ctx.sz(64, 2000);
    let r = par_for(deltas.len() * reps * 2, ncpu(), |job, rep| {
        let n = if job % 2 == 0 { 1024 } else { 512 };
        let dl = deltas[(job / 2) % deltas.len()];
        let mut rng = rng_for(ctx.seed, &format!("c17-neartie-{}", job));
        for _try in 0..6 {
            if let Some((inp, class)) = near_tie_input(n, dl, &mut rng) {
                check_input(&inp, &class, rep);
                rep.count("near_tie_inputs", 1);
                rep.count(&format!("near_tie_inputs_n{}", n), 1);
                break;
            }
        }
    });
    rep.merge(r);
    rep.require("near_tie_inputs", 500);
    let per_n = ctx.sz(400, 60000);
    let sizes: Vec<usize> = (1..=10).map(|k| 1usize << k).collect();
    let r = par_for(sizes.len() * 8, ncpu(), |job, rep| {
        let n = sizes[job % sizes.len()];
        let mut rng = rng_for(ctx.seed, &format!("c17-{}-{}", n, job));
        // the big-integer version is slow at n >= 256: fewer inputs there
        let cnt = if n >= 512 { per_n / 8 } else if n >= 128 { per_n / 3 } else { per_n };
        for _ in 0..(cnt / 8).max(1) {
            if let Some((inp, class)) = gen_input(n, &mut rng) {
                check_input(&inp, &class, rep);
                rep.count(&format!("inputs_n{}", n), 1);
            }
        }
        if job == 3 {
            if let Some((inp, class)) = gen_input(8, &mut rng) {
                rep.sample(json!({"n": 8, "class": class, "f": inp.0, "g": inp.1, "F": inp.2, "G": inp.3}));
            }
        }
    });
    rep.merge(r);
    rep.require("reduced_ok", 200);
    rep.require("reduced_changed_input", 100);
    rep.require("inputs_n1024", 2);
    rep.require("zero_FG_inputs", 12);
}

/// Production inputs: what key generation actually feeds to babai_reduce_i32.
fn captured_v<V: Fv>(ctx: &Ctx, nkeys: usize, rep: &mut Report) {
    let r = par_for(nkeys, ncpu(), |i, rep| {
        vh::take_events();
        vh::set_logging(false, false, true);
        let _ = monitored(|| V::keygen(seed32(ctx.seed, &format!("c17-cap-{}-{}", V::NAME, i))));
        vh::set_logging(false, false, false);
        for e in vh::take_events() {
            if let Event::BabaiInput { f, g, capital_f, capital_g } = e {
                let t = |v: &Vec<i32>| v.iter().map(|&x| x as i64).collect::<Vec<i64>>();
                let inp = (t(&f), t(&g), t(&capital_f), t(&capital_g));
                let mx = inp.2.iter().chain(inp.3.iter()).map(|x| x.abs()).max().unwrap_or(0);
                rep.stat_max("captured_max_abs_FG", mx as f64);
                if mx < (1 << 24) && mx > 0 {
                    check_input(&inp, &format!("captured-{}", V::NAME), rep);
                    rep.count("captured_inputs", 1);
                    if i == 0 {
                        rep.sample(json!({"variant": V::NAME, "captured_from": "keygen", "max_abs_FG": mx, "f_head": &inp.0[..6], "F_head": &inp.2[..6]}));
                    }
                } else {
                    rep.count("captured_outside_domain", 1);
                }
            }
        }
    });
    rep.merge(r);
}

pub fn captured(ctx: &Ctx, rep: &mut Report) {
    if !crate::pool::keygen_responds::<F512>() {
        rep.inconclusive("key generation did not return within 180 s (canary); reported as inconclusive, never as a violation".into());
        return;
    }
    captured_v::<F1024>(ctx, ctx.sz(4, 80), rep);
    captured_v::<F512>(ctx, ctx.sz(28, 320), rep);
    rep.require("captured_inputs", 16);
}

pub fn replay(r: &Value) -> bool {
    if r["kind"] == "u32f" || r["kind"] == "u32ntt" {
        println!("field-level cases are replayed by re-running the leg u32-field");
        crate::util::not_replayable();
        return false;
    }
    let t = |k: &str| r[k].as_array().unwrap().iter().map(|x| x.as_i64().unwrap()).collect::<Vec<i64>>();
    let mut rep = Report::new();
    check_input(&(t("f"), t("g"), t("F"), t("G")), "replay", &mut rep);
    crate::util::print_replay(&rep)
}
