//! C09: the integer sampler is total and follows D_{Z,mu,sigma'}; its building blocks equal
//! the specification's BaseSampler, ApproxExp and BerExp.

use rand::{Rng, RngCore};
use serde_json::{json, Value};

use crate::fv::{Fv, F1024, F512};
use crate::pool;
use crate::refs::sampler as rs;
use crate::signer::{progress_budget, sign_scripted};
use crate::gen::{ScriptedRng, Strategy};
use crate::util::{monitored, ncpu, par_for, rng_for, short_loc, Ctx, NoProgress, Report};
use falcon_rust::verif_hooks::sampler as sp;
use falcon_rust::verif_hooks::Event;

const SIGMIN_512: f64 = 1.2778336969128337;
const SIGMIN_1024: f64 = 1.298280334344292;

fn u72_bytes(u: u128) -> [u8; 9] {
    let b = u.to_be_bytes();
    b[7..16].try_into().unwrap()
}

fn check_base(u: u128, rep: &mut Report) {
    rep.evaluations += 1;
    let bytes = u72_bytes(u);
    match monitored(|| sp::base_sampler(bytes)) {
        Err(p) => rep.violation(&format!("panic:base_sampler@{}", short_loc(&p.location)), p.message.clone(), json!({"kind": "base", "u": u.to_string()})),
        Ok(got) => {
            let want = rs::base_sampler(u);
            if got != want {
                rep.violation("base_sampler:differs-from-RCDT", format!("base_sampler(u = {}) = {} but #{{i : u < RCDT[i]}} = {}", u, got, want), json!({"kind": "base", "u": u.to_string()}));
            }
        }
    }
}

fn check_approx(x: f64, ccs: f64, rep: &mut Report) {
    rep.evaluations += 1;
    let r = json!({"kind": "approx", "x": x.to_bits().to_string(), "ccs": ccs.to_bits().to_string()});
    match monitored(|| sp::approx_exp(x, ccs)) {
        Err(p) => rep.violation(&format!("panic:approx_exp@{}", short_loc(&p.location)), format!("approx_exp({}, {}) panicked: {}", x, ccs, p.message), r),
        Ok(got) => {
            let want = rs::approx_exp(x, ccs);
            if got != want {
                rep.violation("approx_exp:differs", format!("approx_exp({:e}, {:e}) = {} but ApproxExp = {}", x, ccs, got, want), r);
            }
        }
    }
}

/// Returns true if the case was a tie on all seven bytes.
fn check_ber(x: f64, ccs: f64, bytes: [u8; 7], rep: &mut Report) -> bool {
    rep.evaluations += 1;
    let r = json!({"kind": "ber", "x": x.to_bits().to_string(), "ccs": ccs.to_bits().to_string(), "bytes": bytes.to_vec()});
    let got = monitored(|| sp::ber_exp(x, ccs, bytes));
    let want = rs::ber_exp(x, ccs, &bytes);
    match (got, want) {
        (Err(p), w) => {
            rep.violation(&format!("panic:ber_exp@{}", short_loc(&p.location)), format!("ber_exp({:e}, {:e}, {:?}) panicked: {} (reference: {:?})", x, ccs, bytes, p.message, w), r);
            matches!(w, rs::Ber::NeedMore(_))
        }
        (Ok(g), rs::Ber::Decided(w, _)) => {
            if g != w {
                rep.violation("ber_exp:differs", format!("ber_exp({:e}, {:e}, {:?}) = {} but BerExp = {}", x, ccs, bytes, g, w), r);
            }
            false
        }
        (Ok(g), rs::Ber::NeedMore(zb)) => {
            // the specification would read an eighth byte b and return (b < zb):
            // `false` is always producible, `true` only if zb > 0
            if g && zb == 0 {
                rep.violation("ber_exp:tie-result-impossible", format!("ber_exp on a 7-byte tie returned true but the eighth threshold byte is 0"), r);
            }
            rep.count("ber_ties", 1);
            true
        }
    }
}

pub fn blocks(ctx: &Ctx, rep: &mut Report) {
    // BaseSampler: every threshold +-1 (and +-2), the extremes, powers of two, random u
    for (i, &t) in rs::RCDT.iter().enumerate() {
        for d in [-2i128, -1, 0, 1, 2] {
            let u = t as i128 + d;
            if u >= 0 && (u as u128) < (1u128 << 72) {
                check_base(u as u128, rep);
                rep.nontrivial(format!("base|{}|{}", i, d).as_bytes());
                rep.count("base_threshold_points", 1);
            }
        }
    }
    // BerExp at and next to every multiple of ln 2 (x = k ln 2 moved by up to 4 ulps either way,
    // and the doubles next to k * 0.6931...): there the quotient x / ln 2 rounds across an
    // integer and the remainder r = x - s ln 2 comes out as a tiny negative or a full ln 2
    {
        let mut rng = rng_for(ctx.seed, "c09-ln2-multiples");
        for k in 0..=70u32 {
            let base = rs::LN2 * k as f64;
            let mut xs: Vec<f64> = vec![base];
            let (mut up, mut dn) = (base, base);
            for _ in 0..4 {
                up = f64::from_bits(up.to_bits() + 1);
                xs.push(up);
                if dn > 0.0 {
                    dn = f64::from_bits(dn.to_bits() - 1);
                    xs.push(dn);
                }
            }
            for &x in &xs {
                for ccs in [1.0f64, SIGMIN_512 / rs::SIGMA_MAX, SIGMIN_1024 / rs::SIGMA_MAX, 0.83] {
                    let z = rs::ber_threshold(x, ccs);
                    let zb = z.to_be_bytes();
                    // exactly at the threshold prefix, one below / above in the last byte, half
                    // and double the threshold, random
                    let mut cases: Vec<[u8; 7]> = vec![];
                    let mut t7 = [0u8; 7];
                    t7.copy_from_slice(&zb[..7]);
                    cases.push(t7);
                    for d in [1u64, 2, 256] {
                        let top = u64::from_be_bytes([zb[0], zb[1], zb[2], zb[3], zb[4], zb[5], zb[6], 0]) >> 8;
                        for v in [top.wrapping_sub(d), top + d, top / 2, top / 2 + d, top.saturating_mul(2).min((1 << 56) - 1), (top / 4) * 3] {
                            let b = (v << 8).to_be_bytes();
                            let mut c = [0u8; 7];
                            c.copy_from_slice(&b[..7]);
                            cases.push(c);
                        }
                    }
                    cases.push(rng.gen());
                    for c in cases {
                        check_ber(x, ccs, c, rep);
                    }
                }
                rep.count("ber_points_next_to_multiples_of_ln2", 1);
            }
            rep.nontrivial(format!("ber-ln2|{}", k).as_bytes());
        }
    }
    // CARRY EDGES of the wide products inside ApproxExp: a 64x64-bit product computed from 32-bit
    // limbs has a middle column z1*y0 + z0*y1 (+ carry of z0*y0) whose low 32 bits may sum to
    // exactly 2^32 - 1, 2^32 or their neighbours; for the final product (z from ccs, y from x)
    // and the first one (z from x, y = C[0]) the operand under control is solved for from a
    // congruence modulo 2^32 (2^-31 per call by chance)
    {
        let mut rng = rng_for(ctx.seed, "c09-carry-edges");
        let two63 = 9223372036854775808.0f64;
        let inv32 = |a: u32| -> u32 {
            // inverse of an odd a modulo 2^32 (Newton)
            let mut x = a;
            for _ in 0..5 {
                x = x.wrapping_mul(2u32.wrapping_sub(a.wrapping_mul(x)));
            }
            x
        };
        let mut made = 0u64;
        for it in 0..ctx.sz(4000, 200_000) {
            let final_product = it % 4 != 3;
            // the fixed operand (y) and the range wanted for the solved one (z)
            let (x, y): (f64, u64) = if final_product {
                let x = rng.gen::<f64>() * rs::LN2;
                (x, rs::approx_exp(x, 1.0))
            } else {
                (0.0, rs::C[0])
            };
            let (y1, y0) = ((y >> 32) as u32, y as u32);
            if y0 % 2 == 0 {
                continue;
            }
            // z = z1 2^32 + z0 must be floor(2^63 v) for a double v: 53 significant bits, so with
            // z1 a 31-bit number z0 is a multiple of 2^10
            let z0: u32 = rng.gen::<u32>() & !0x3ff;
            let cin = ((z0 as u64 * y0 as u64) >> 32) as u32;
            let target: u32 = [0xFFFF_FFFFu32, 0xFFFF_FFFE, 0, 1][(it / 4) % 4];
            let with_cin = (it / 16) % 2 == 0;
            let rhs = target.wrapping_sub((z0 as u64 * y1 as u64) as u32).wrapping_sub(if with_cin { cin } else { 0 });
            let z1 = rhs.wrapping_mul(inv32(y0));
            let lo = if final_product { (0.70 * 2147483648.0) as u32 } else { 1 << 20 };
            let hi = if final_product { 1u32 << 31 } else { (rs::LN2 * 2147483648.0) as u32 };
            if z1 < lo || z1 >= hi {
                continue;
            }
            let z = ((z1 as u64) << 32) | z0 as u64;
            let v = z as f64 / two63;
            if (v * two63).floor() as u64 != z {
                continue;
            }
            let (xx, ccs) = if final_product { (x, v) } else { (v, [1.0f64, 0.83, SIGMIN_512 / rs::SIGMA_MAX][it % 3]) };
            check_approx(xx, ccs, rep);
            // and BerExp with the bytes at and next to the threshold
            let zt = rs::ber_threshold(xx, ccs);
            let top = zt >> 8;
            for vv in [top, top.wrapping_sub(1), top + 1] {
                let b = (vv << 8).to_be_bytes();
                let mut c7 = [0u8; 7];
                c7.copy_from_slice(&b[..7]);
                check_ber(xx, ccs, c7, rep);
            }
            made += 1;
        }
        rep.count("approx_exp_limb_carry_edge_inputs", made);
        rep.nontrivial(b"carry-edges");
    }
    check_base(0, rep);
    check_base((1u128 << 72) - 1, rep);
    for k in 0..72 {
        check_base(1u128 << k, rep);
        check_base((1u128 << k) - 1, rep);
    }
    let nrand = ctx.sz(1_000_000, 200_000_000);
    let r = par_for(16, ncpu(), |w, rep| {
        let mut rng = rng_for(ctx.seed, &format!("c09-blocks-{}", w));
        for i in 0..nrand / 16 {
            // uniform 72-bit values, and values with a random number of leading zero bits so
            // that the small table entries are approached as well
            let mut u: u128 = ((rng.next_u64() as u128) << 8) | (rng.gen::<u8>() as u128);
            if i % 2 == 1 {
                u >>= rng.gen_range(0..72);
            }
            check_base(u, rep);
        }
        rep.count("base_random_points", (nrand / 16) as u64);
        // ApproxExp on [0, ln 2] x (0, 1]
        for i in 0..nrand / 16 {
            let x = match i % 7 {
                0 => 0.0,
                1 => rs::LN2,
                2 => rng.gen::<f64>() * 1e-9,
                _ => rng.gen::<f64>() * rs::LN2,
            };
            let ccs = match i % 5 {
                0 => 1.0,
                1 => SIGMIN_512 / rs::SIGMA_MAX,
                2 => rng.gen::<f64>().max(1e-12),
                _ => 0.7 + 0.3 * rng.gen::<f64>(),
            };
            check_approx(x, ccs, rep);
        }
        rep.count("approx_points", (nrand / 16) as u64);
        // BerExp: random inputs (decided within 7 bytes), near-ties and exact 7-byte ties
        for i in 0..nrand / 16 {
            let x = match i % 6 {
                0 => rng.gen::<f64>() * 0.01,
                1 => rng.gen::<f64>() * 90.0, // s up to 129: shift saturates at 63
                2 => rs::LN2 * rng.gen_range(0..70) as f64,
                _ => rng.gen::<f64>() * 12.0,
            };
            let ccs = if i % 3 == 0 { 1.0 } else { 0.7 + 0.3 * rng.gen::<f64>() };
            let z = rs::ber_threshold(x, ccs);
            let zb = z.to_be_bytes();
            let mut bytes: [u8; 7] = rng.gen();
            let kind = i % 4;
            if kind >= 1 {
                // tie on the first k bytes, then random / off by one
                let k = if kind == 3 { 7 } else { rng.gen_range(1..7) };
                bytes[..k].copy_from_slice(&zb[..k]);
                if kind == 2 && k < 7 {
                    bytes[k] = zb[k].wrapping_add(if rng.gen() { 1 } else { 255 });
                }
            }
            if check_ber(x, ccs, bytes, rep) {
                rep.nontrivial(format!("ber-tie|{}|{}", w, i).as_bytes());
            }
        }
        rep.count("ber_points", (nrand / 16) as u64);
        // rounding can hand BerExp an x that is negative by a few ulps (sigma' = sigma_max and
        // an integer centre): ccs*exp(-x) is then ccs to 1e-15, so the outcome must be the one
        // of x = 0 unless the bytes are within 2 units of the threshold (skipped)
        for i in 0..(nrand / 64).min(200_000) {
            let x = -(rng.gen::<f64>() * 1e-15) * (1 + i % 300) as f64 * 0.01;
            let ccs = if i % 2 == 0 { SIGMIN_512 / rs::SIGMA_MAX } else { SIGMIN_1024 / rs::SIGMA_MAX };
            let bytes: [u8; 7] = rng.gen();
            let z = rs::ber_threshold(0.0, ccs);
            let top = u64::from_be_bytes([bytes[0], bytes[1], bytes[2], bytes[3], bytes[4], bytes[5], bytes[6], 0]);
            if (top >> 8).abs_diff(z >> 8) <= 2 {
                continue;
            }
            rep.evaluations += 1;
            let want = top < z;
            match monitored(|| sp::ber_exp(x, ccs, bytes)) {
                Err(p) => rep.violation(&format!("panic:ber_exp@{}", short_loc(&p.location)), format!("ber_exp({:e}, {}) panicked: {}", x, ccs, p.message), json!({"kind": "ber-neg", "x": x.to_bits().to_string(), "ccs": ccs.to_bits().to_string(), "bytes": bytes.to_vec()})),
                Ok(got) => {
                    if got != want {
                        rep.violation("ber_exp:tiny-negative-x", format!("ber_exp(x = {:e}, ccs = {}) = {} but ccs*exp(-x) = ccs to 1e-15 and the bytes are {} the threshold", x, ccs, got, if want { "below" } else { "above" }), json!({"kind": "ber-neg", "x": x.to_bits().to_string(), "ccs": ccs.to_bits().to_string(), "bytes": bytes.to_vec()}));
                    }
                }
            }
            rep.count("ber_tiny_negative_x", 1);
        }
        if w == 0 {
            rep.sample(json!({"block": "ber_exp", "x": 0.3, "ccs": 0.7, "threshold": rs::ber_threshold(0.3, 0.7).to_string(), "reference": format!("{:?}", rs::ber_exp(0.3, 0.7, &rs::ber_threshold(0.3, 0.7).to_be_bytes()[..7]))}));
        }
    });
    rep.merge(r);
    rep.require("approx_exp_limb_carry_edge_inputs", 200);
    rep.require("base_threshold_points", 80);
    rep.require("ber_ties", 1000);
}

// ---------------------------------------------------------------------------

/// Byte source for sampler_z: a scripted prefix, then honest ChaCha with a draw budget.
struct ByteStream {
    prefix: Vec<u8>,
    pos: usize,
    honest: rand_chacha::ChaCha20Rng,
    honest_draws: u64,
    budget: u64,
}
impl RngCore for ByteStream {
    fn next_u32(&mut self) -> u32 {
        if self.pos < self.prefix.len() {
            let b = self.prefix[self.pos];
            self.pos += 1;
            return b as u32 | 0xabcd_ef00;
        }
        self.honest_draws += 1;
        if self.honest_draws > self.budget {
            std::panic::panic_any(NoProgress);
        }
        self.honest.next_u32()
    }
    fn next_u64(&mut self) -> u64 {
        (self.next_u32() as u64) | ((self.next_u32() as u64) << 32)
    }
    fn fill_bytes(&mut self, d: &mut [u8]) {
        for x in d.iter_mut() {
            *x = self.next_u32() as u8;
        }
    }
    fn try_fill_bytes(&mut self, d: &mut [u8]) -> Result<(), rand::Error> {
        self.fill_bytes(d);
        Ok(())
    }
}

/// The bytes that make the specification's sampler tie on all seven Bernoulli bytes, for
/// the iteration whose base-sampler bytes and sign byte are given.
fn tie_bytes(mu: f64, sigma: f64, sigmin: f64, base: [u8; 9], sign: u8) -> [u8; 7] {
    let mut ub = [0u8; 16];
    ub[7..].copy_from_slice(&base);
    let z0 = rs::base_sampler(u128::from_be_bytes(ub)) as f64;
    let b = (sign & 1) as f64;
    let z = b + (2.0 * b - 1.0) * z0;
    let r = mu - mu.floor();
    let dss = 1.0 / (2.0 * sigma * sigma);
    let x = (z - r) * (z - r) * dss - z0 * z0 / (2.0 * rs::SIGMA_MAX * rs::SIGMA_MAX);
    let ccs = sigmin / sigma;
    let t = rs::ber_threshold(x, ccs).to_be_bytes();
    t[..7].try_into().unwrap()
}

/// Child of the deep-rejection leg: ONE sampler call on a stream that makes the first `k`
/// candidates fail the Bernoulli test (0xff bytes) and then continues honestly, on the main
/// thread or on a spawned thread with the default 2 MiB stack. Prints nothing; exit code 0.
pub fn deep_child(ctx: &Ctx, rep: &mut Report) {
    let k: usize = ctx.args.first().and_then(|s| s.parse().ok()).unwrap_or(1000);
    let spawned = ctx.args.get(1).map(|s| s == "thread").unwrap_or(false);
    let run = move || {
        let mut prefix = Vec::with_capacity(17 * k);
        for _ in 0..k {
            prefix.extend_from_slice(&[0x55u8; 9]);
            prefix.push(1);
            prefix.extend_from_slice(&[0xffu8; 7]);
        }
        let mut bs = ByteStream { prefix, pos: 0, honest: rng_for(1, "c09-deep"), honest_draws: 0, budget: 17 * 10_000 };
        sp::sampler_z(0.3, 1.5, SIGMIN_512, &mut bs)
    };
    let z = if spawned { std::thread::spawn(run).join().unwrap_or(i16::MIN) } else { run() };
    rep.evaluations += 1;
    rep.count("deep_rejection_child_returned", 1);
    rep.stat_max("deep_rejection_sample", z as f64);
}

/// Totality on LONG rejection chains, in child processes (a stack overflow aborts the process
/// and cannot be caught): 10^3 .. 3*10^6 consecutive rejected candidates inside one call.
pub fn deep_rejection(ctx: &Ctx, rep: &mut Report) {
    let exe = std::env::current_exe().expect("exe");
    let ks: Vec<usize> = if ctx.thorough() { vec![1000, 10_000, 100_000, 1_000_000, 3_000_000, 10_000_000] } else { vec![1000, 10_000, 100_000, 1_000_000, 3_000_000] };
    for &k in &ks {
        for mode in ["main", "thread"] {
            rep.evaluations += 1;
            let out = std::process::Command::new(&exe).args(["run", "C09", "deep-child", "--seed", "1", "--", &k.to_string(), mode]).output();
            match out {
                Err(e) => rep.inconclusive(format!("cannot spawn the deep-rejection child: {}", e)),
                Ok(o) => {
                    use std::os::unix::process::ExitStatusExt;
                    let err = String::from_utf8_lossy(&o.stderr).to_string();
                    if o.status.success() {
                        rep.count("deep_rejection_chains_survived", 1);
                        rep.nontrivial(format!("deep|{}|{}", k, mode).as_bytes());
                    } else if err.contains("stack overflow") || matches!(o.status.signal(), Some(6) | Some(11)) {
                        rep.violation(
                            "sampler_z:process-aborted-on-a-long-rejection-chain",
                            format!("a single sampler_z call whose first {} candidates are rejected aborted the process ({} thread; status {:?}; stderr: {})", k, mode, o.status, err.lines().last().unwrap_or("").chars().take(160).collect::<String>()),
                            json!({"kind": "deep", "k": k, "mode": mode}),
                        );
                    } else {
                        rep.inconclusive(format!("deep-rejection child (k = {}) ended with {:?}: {}", k, o.status, err.lines().last().unwrap_or("")));
                    }
                }
            }
        }
    }
    rep.require("deep_rejection_chains_survived", 1);
}

pub fn totality(ctx: &Ctx, rep: &mut Report) {
    // (incl. centres a hair below an integer: the split mu = floor(mu) + r then rounds r up to 1.0)
    let mus: Vec<f64> = vec![0.0, 0.3, -0.3, 0.5, -0.5, 1e-12, 0.999999999, -91.90471153063714, 12345.678, -20000.3, 7.0, -1.0, -5e-324, -1e-17, -5.5e-17, -1.2e-16, 0.9999999999999999, -1.0000000000000002, 4.999999999999999, -0.0];
    let sigmas: Vec<(f64, f64)> = vec![
        (SIGMIN_512, SIGMIN_512),
        (SIGMIN_1024, SIGMIN_1024),
        (1.2778336969128337 + 1e-9, SIGMIN_512),
        (1.5, SIGMIN_512),
        (1.7, SIGMIN_1024),
        (1.8205, SIGMIN_512),
        (1.43300980528773, 1.43200980528773), // key generation's use
    ];
    let reps = ctx.sz(40, 10000);
    let jobs = mus.len() * sigmas.len();
    let r = par_for(jobs, ncpu(), |job, rep| {
        let mu = mus[job % mus.len()];
        let (sigma, sigmin) = sigmas[job / mus.len()];
        let mut rng = rng_for(ctx.seed, &format!("c09-total-{}", job));
        for it in 0..reps {
            let kind = it % 8;
            let (name, prefix): (&str, Vec<u8>) = match kind {
                0 => ("all-zero", vec![0u8; 17 * rng.gen_range(1..40)]),
                1 => ("all-ff", vec![0xffu8; 17 * rng.gen_range(1..40)]),
                2 => ("counter", (0..17 * 8).map(|i| i as u8).collect()),
                3 | 4 => {
                    // exact seven-byte ties for 1..4 consecutive iterations
                    let mut p = vec![];
                    for _ in 0..rng.gen_range(1..5) {
                        let base: [u8; 9] = if kind == 3 { rng.gen() } else { [0u8; 9] };
                        let sign: u8 = rng.gen();
                        p.extend_from_slice(&base);
                        p.push(sign);
                        p.extend_from_slice(&tie_bytes(mu, sigma, sigmin, base, sign));
                    }
                    ("seven-byte-ties", p)
                }
                5 => ("zero-bernoulli", {
                    let mut p = vec![];
                    for _ in 0..4 {
                        let base: [u8; 9] = rng.gen();
                        p.extend_from_slice(&base);
                        p.push(rng.gen());
                        p.extend_from_slice(&[0u8; 7]);
                    }
                    p
                }),
                6 => ("largest-z0", {
                    // u = 0 gives z0 = 18, the far tail
                    let mut p = vec![0u8; 9];
                    p.push(rng.gen());
                    p.extend_from_slice(&[0u8; 7]);
                    p
                }),
                _ => ("honest", vec![]),
            };
            rep.evaluations += 1;
            let mut bs = ByteStream { prefix: prefix.clone(), pos: 0, honest: rng_for(ctx.seed, &format!("c09-total-{}-{}", job, it)), honest_draws: 0, budget: 17 * 10_000 };
            let out = monitored(|| sp::sampler_z(mu, sigma, sigmin, &mut bs));
            let replay = json!({"kind": "sampler", "mu": mu.to_bits().to_string(), "sigma": sigma.to_bits().to_string(), "sigmin": sigmin.to_bits().to_string(), "prefix": prefix, "job": job, "it": it});
            match out {
                Err(p) if p.no_progress => rep.violation("sampler_z:no-progress", format!("sampler_z(mu={}, sigma={}) consumed 10000 honest iterations without returning (stream {})", mu, sigma, name), replay),
                Err(p) => rep.violation(&format!("panic:sampler_z@{}", short_loc(&p.location)), format!("sampler_z(mu={}, sigma={}) panicked on stream {}: {}", mu, sigma, name, p.message), replay),
                Ok(z) => {
                    // sanity of the support: within 20 sigma_max of the centre
                    if ((z as f64) - mu).abs() > 40.0 {
                        rep.violation("sampler_z:far-outlier", format!("sampler_z(mu={}, sigma={}) returned {} on stream {}", mu, sigma, z, name), replay);
                    }
                    rep.count(&format!("stream_{}", name), 1);
                    rep.nontrivial(format!("{}|{}|{}", job, name, it).as_bytes());
                }
            }
        }
        if job == 0 {
            rep.sample(json!({"mu": mu, "sigma": sigma, "streams": ["all-zero", "all-ff", "counter", "seven-byte-ties", "zero-bernoulli", "largest-z0", "honest"], "per_stream": reps / 8}));
        }
    });
    rep.merge(r);
    rep.require("stream_seven-byte-ties", 100);
    rep.require("stream_all-zero", 100);
}

// ---------------------------------------------------------------------------

struct Recorder {
    inner: rand_chacha::ChaCha20Rng,
    log: Vec<u8>,
}
impl RngCore for Recorder {
    fn next_u32(&mut self) -> u32 {
        let v = self.inner.next_u32();
        self.log.push(v as u8);
        v
    }
    fn next_u64(&mut self) -> u64 {
        (self.next_u32() as u64) | ((self.next_u32() as u64) << 32)
    }
    fn fill_bytes(&mut self, d: &mut [u8]) {
        for x in d.iter_mut() {
            *x = self.next_u32() as u8;
        }
    }
    fn try_fill_bytes(&mut self, d: &mut [u8]) -> Result<(), rand::Error> {
        self.fill_bytes(d);
        Ok(())
    }
}

/// Specification SamplerZ on a recorded byte log, assuming the 9+1+7 consumption pattern.
/// Returns None if the log does not fit the pattern.
pub fn spec_sampler_on_log(mu: f64, sigma: f64, sigmin: f64, log: &[u8]) -> Option<i64> {
    if log.is_empty() || log.len() % 17 != 0 {
        return None;
    }
    let s = mu.floor();
    let r = mu - s;
    let dss = 1.0 / (2.0 * sigma * sigma);
    let ccs = sigmin / sigma;
    let iters = log.len() / 17;
    for (k, ch) in log.chunks(17).enumerate() {
        let mut ub = [0u8; 16];
        ub[7..].copy_from_slice(&ch[..9]);
        let z0 = rs::base_sampler(u128::from_be_bytes(ub)) as f64;
        let b = (ch[9] & 1) as f64;
        let z = b + (2.0 * b - 1.0) * z0;
        let x = (z - r) * (z - r) * dss - z0 * z0 / (2.0 * rs::SIGMA_MAX * rs::SIGMA_MAX);
        match rs::ber_exp(x, ccs, &ch[10..17]) {
            rs::Ber::Decided(true, _) => {
                return if k == iters - 1 { Some(z as i64 + s as i64) } else { None };
            }
            rs::Ber::Decided(false, _) => {
                if k == iters - 1 {
                    return None;
                }
            }
            rs::Ber::NeedMore(_) => return None,
        }
    }
    None
}

pub fn distribution(ctx: &Ctx, rep: &mut Report) {
    let mus: Vec<f64> = vec![0.0, 0.5, -0.5, 0.25, 1e-9, -91.90471153063714, 12345.678, -20000.3, 0.999999, -5e-324, -1e-17, -4e-17, 0.9999999999999999, 6.999999999999999];
    let sigmas: Vec<(f64, f64)> = vec![(SIGMIN_512, SIGMIN_512), (SIGMIN_1024, SIGMIN_1024), (1.5, SIGMIN_512), (1.7, SIGMIN_1024), (1.8205, SIGMIN_512)];
    let n = ctx.sz(1_500_000, 100_000_000);
    let jobs = mus.len() * sigmas.len();
    // thresholds: chi2 p-value floor 1e-9, |z| < 6 (2e-9 each): family-wise < 5e-7 per run
    let r = par_for(jobs, ncpu(), |job, rep| {
        let mu = mus[job % mus.len()];
        let (sigma, sigmin) = sigmas[job / mus.len()];
        let span = 40i64;
        let (base, probs) = rs::pmf(mu, sigma, span);
        let mut hist = vec![0u64; probs.len()];
        let mut s1 = 0.0f64;
        let mut s2 = 0.0f64;
        let mut agree = 0u64;
        let mut compared = 0u64;
        let mut first_disagree: Option<(Vec<u8>, i16, Option<i64>)> = None;
        let mut rec = Recorder { inner: rng_for(ctx.seed, &format!("c09-dist-{}", job)), log: Vec::with_capacity(64) };
        let mut outside = 0u64;
        for i in 0..n {
            rec.log.clear();
            let z = sp::sampler_z(mu, sigma, sigmin, &mut rec);
            let k = z as i64 - base;
            if k >= 0 && (k as usize) < hist.len() {
                hist[k as usize] += 1;
            } else {
                outside += 1;
            }
            let d = z as f64 - mu;
            s1 += d;
            s2 += d * d;
            if i % 8 == 0 {
                compared += 1;
                let w = spec_sampler_on_log(mu, sigma, sigmin, &rec.log);
                if w == Some(z as i64) {
                    agree += 1;
                } else if first_disagree.is_none() {
                    first_disagree = Some((rec.log.clone(), z, w));
                }
            }
        }
        rep.evaluations += n as u64;
        let (chi, dof, cells) = rs::chi2_merged(&hist, &probs, n as u64);
        let p = rs::chi2_p(chi, dof);
        let zmean = (s1 / n as f64) / (sigma / (n as f64).sqrt());
        let zvar = (s2 / n as f64 / (sigma * sigma) - 1.0) / (2.0 / n as f64).sqrt();
        rep.stat_min("chi2_p_min", p);
        rep.stat_max("abs_zmean_max", zmean.abs());
        rep.stat_max("abs_zvar_max", zvar.abs());
        rep.count("chi2_cells", cells as u64);
        rep.count("configs", 1);
        rep.nontrivial(format!("cfg|{}", job).as_bytes());
        let replay = json!({"kind": "dist", "mu": mu.to_bits().to_string(), "sigma": sigma.to_bits().to_string(), "sigmin": sigmin.to_bits().to_string(), "n": n, "job": job});
        if outside > 0 {
            rep.violation("sampler_z:outside-window", format!("{} of {} samples fell outside +-40 of the centre (mu={}, sigma={})", outside, n, mu, sigma), replay.clone());
        }
        if p < 1e-9 {
            rep.violation("sampler_z:distribution-chi2", format!("chi2 = {:.1} with {} dof (p = {:.2e}) for mu={}, sigma={}, N={}", chi, dof, p, mu, sigma, n), replay.clone());
        }
        if zmean.abs() > 6.0 {
            rep.violation("sampler_z:mean", format!("mean of z - mu deviates by {:.1} standard errors (mu={}, sigma={}, N={})", zmean, mu, sigma, n), replay.clone());
        }
        if zvar.abs() > 6.0 {
            rep.violation("sampler_z:variance", format!("second moment deviates by {:.1} standard errors (mu={}, sigma={}, N={})", zvar, mu, sigma, n), replay.clone());
        }
        // same-randomness comparison with the specification's SamplerZ: only meaningful when
        // the implementation consumes randomness in the 9+1+7 pattern (agreement >= 99%)
        rep.count("stream_compared", compared);
        rep.count("stream_agree", agree);
        if compared > 0 && agree * 100 >= compared * 99 && agree < compared {
            let (log, z, w) = first_disagree.unwrap();
            rep.violation(
                "sampler_z:differs-from-SamplerZ-on-same-randomness",
                format!("mu={}, sigma={}: same {} random bytes, sampler_z = {}, specification = {:?} ({} of {} compared calls agree)", mu, sigma, log.len(), z, w, agree, compared),
                json!({"kind": "sampler-log", "mu": mu.to_bits().to_string(), "sigma": sigma.to_bits().to_string(), "sigmin": sigmin.to_bits().to_string(), "log": log}),
            );
        }
        if job % 11 == 0 {
            rep.sample(json!({"mu": mu, "sigma": sigma, "N": n, "chi2": chi, "dof": dof, "p": p, "z_mean": zmean, "z_var": zvar, "same_randomness_agreement": format!("{}/{}", agree, compared)}));
        }
    });
    rep.merge(r);
    rep.require("configs", 45);
    if rep.get("stream_agree") * 100 < rep.get("stream_compared") * 99 {
        rep.note("the implementation does not consume randomness in the 9+1+7 pattern: the same-randomness comparison was not used as an oracle".into());
    }
}

// ---------------------------------------------------------------------------

pub fn in_situ(ctx: &Ctx, rep: &mut Report) {
    // pooled moments need additive merging: run each variant single-report by collecting
    // the per-signature sums through the counters (scaled integers)
    in_situ_pooled::<F512>(ctx, rep);
    in_situ_pooled::<F1024>(ctx, rep);
    rep.require("sampler_calls", 10_000);
}

fn in_situ_pooled<V: Fv>(ctx: &Ctx, rep: &mut Report) {
    use std::sync::Mutex;
    let (keys, _bad) = pool::keys::<V>(ctx.seed, "c09-insitu", ctx.sz(2, 16));
    let nmsg = ctx.sz(60, 1500);
    let acc: Mutex<(f64, f64, u64)> = Mutex::new((0.0, 0.0, 0));
    let r = par_for(keys.len() * nmsg, ncpu(), |job, rep| {
        let k = &keys[job % keys.len()];
        let msg = (job as u64).to_le_bytes();
        let rng = ScriptedRng::new(ctx.seed, &format!("c09-insitu-{}-{}", V::NAME, job), Strategy::Honest, progress_budget(V::N));
        let out = sign_scripted::<V>(&msg, &k.sk, rng, true, 0);
        if out.sig.is_err() {
            return;
        }
        let (mut m1, mut m2, mut cnt) = (0.0, 0.0, 0u64);
        for e in &out.events {
            if let Event::SamplerCall { mu, sigma, sigmin, z } = e {
                rep.evaluations += 1;
                if !(*sigma >= *sigmin * (1.0 - 1e-9) && *sigma <= rs::SIGMA_MAX * (1.0 + 1e-9)) {
                    rep.violation("in-situ:sigma-out-of-range", format!("{}: sampler called with sigma' = {} outside [{}, {}]", V::NAME, sigma, sigmin, rs::SIGMA_MAX), json!({"kind": "insitu", "variant": V::NAME, "job": job}));
                }
                let d = (*z as f64 - mu) / sigma;
                m1 += d;
                m2 += d * d;
                cnt += 1;
            }
        }
        rep.count("sampler_calls", cnt);
        rep.count("signatures", 1);
        rep.nontrivial(format!("{}|{}", V::NAME, job).as_bytes());
        let mut a = acc.lock().unwrap();
        a.0 += m1;
        a.1 += m2;
        a.2 += cnt;
    });
    rep.merge(r);
    let (m1, m2, cnt) = *acc.lock().unwrap();
    if cnt > 0 {
        let n = cnt as f64;
        let zmean = (m1 / n) * n.sqrt();
        let zvar = (m2 / n - 1.0) / (2.0 / n).sqrt();
        rep.stat_set(&format!("insitu_zmean_{}", V::NAME), zmean);
        rep.stat_set(&format!("insitu_zvar_{}", V::NAME), zvar);
        rep.sample(json!({"variant": V::NAME, "sampler_calls_observed_in_signing": cnt, "pooled_mean_z": zmean, "pooled_second_moment_z": zvar}));
        if zmean.abs() > 6.0 || zvar.abs() > 6.0 {
            rep.violation("in-situ:pooled-moments", format!("{}: pooled over {} in-situ sampler calls: mean z-score {:.1}, second-moment z-score {:.1}", V::NAME, cnt, zmean, zvar), json!({"kind": "insitu", "variant": V::NAME}));
        }
    }
}

pub fn replay(r: &Value) -> bool {
    let f = |k: &str| f64::from_bits(r[k].as_str().unwrap_or("0").parse::<u64>().unwrap_or(0));
    let mut rep = Report::new();
    match r["kind"].as_str().unwrap_or("") {
        "base" => check_base(r["u"].as_str().unwrap().parse().unwrap(), &mut rep),
        "approx" => check_approx(f("x"), f("ccs"), &mut rep),
        "ber" => {
            let b: Vec<u8> = r["bytes"].as_array().unwrap().iter().map(|x| x.as_u64().unwrap() as u8).collect();
            check_ber(f("x"), f("ccs"), b.try_into().unwrap(), &mut rep);
        }
        "ber-neg" => {
            let b: Vec<u8> = r["bytes"].as_array().unwrap().iter().map(|x| x.as_u64().unwrap() as u8).collect();
            let bytes: [u8; 7] = b.try_into().unwrap();
            let got = monitored(|| sp::ber_exp(f("x"), f("ccs"), bytes));
            let z = rs::ber_threshold(0.0, f("ccs"));
            let top = u64::from_be_bytes([bytes[0], bytes[1], bytes[2], bytes[3], bytes[4], bytes[5], bytes[6], 0]);
            println!("ber_exp(x = {:e}) -> {:?}; expected {}", f("x"), got.as_ref().ok(), top < z);
            return matches!(got, Ok(g) if g == (top < z));
        }
        "sampler" => {
            let prefix: Vec<u8> = r["prefix"].as_array().unwrap().iter().map(|x| x.as_u64().unwrap() as u8).collect();
            let mut bs = ByteStream { prefix, pos: 0, honest: rng_for(1, "replay"), honest_draws: 0, budget: 17 * 10_000 };
            let out = monitored(|| sp::sampler_z(f("mu"), f("sigma"), f("sigmin"), &mut bs));
            println!("sampler_z -> {:?}", out.as_ref().map_err(|p| format!("{} at {}", p.message, p.location)));
            return out.is_ok();
        }
        "sampler-log" => {
            let log: Vec<u8> = r["log"].as_array().unwrap().iter().map(|x| x.as_u64().unwrap() as u8).collect();
            let mut bs = ByteStream { prefix: log.clone(), pos: 0, honest: rng_for(1, "replay"), honest_draws: 0, budget: 17 * 10_000 };
            let z = monitored(|| sp::sampler_z(f("mu"), f("sigma"), f("sigmin"), &mut bs));
            let w = spec_sampler_on_log(f("mu"), f("sigma"), f("sigmin"), &log);
            println!("sampler_z -> {:?}, specification -> {:?}", z.as_ref().ok(), w);
            return matches!((z, w), (Ok(a), Some(b)) if a as i64 == b);
        }
        _ => {
            println!("statistical / in-situ cases are replayed by re-running the leg with the recorded seed");
            crate::util::not_replayable();
            return false;
        }
    }
    crate::util::print_replay(&rep)
}
