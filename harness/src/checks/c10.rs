//! C10: signatures are spherical Gaussian: offline statistical checker over the transcript
//! of signature vectors (s1, s2) of a fixed key.

use serde_json::json;
use std::sync::Mutex;

use crate::fv::{Fv, F1024, F512};
use crate::refs::fl::{self, mean_z};
use crate::refs::spec;
use crate::signer::sign_honest;
use crate::util::{hex, ncpu, par_for, seed32, Ctx, Report};

struct Acc {
    norm2: Vec<f64>,
    y_rows0: Vec<f64>,
    y_rows1: Vec<f64>,
    y_gs: Vec<f64>,
    bins: Vec<Vec<f64>>, // per signature: 16 bin means
    dir1: Vec<f64>,
    dir2: Vec<f64>,
    row1: Vec<f64>,
    row2: Vec<f64>,
    over_bound: u64,
}

const NBINS: usize = 16;

fn key_transcript<V: Fv>(ctx: &Ctx, key_idx: usize, m_sigs: usize, rep: &mut Report) {
    let seed = seed32(ctx.seed, &format!("c10-key-{}-{}", V::NAME, key_idx));
    // the key is generated in a FRESH thread; for every second key that thread first generates a
    // key of the OTHER parameter set (per-thread state carried from one key to the next ends up
    // in the tree this key signs with)
    let other_first = (key_idx + if V::N == 512 { 1 } else { 0 }) % 2 == 0;
    let vseed = ctx.seed;
    let made = std::thread::spawn(move || {
        crate::util::monitored(|| {
            if other_first {
                let s2 = seed32(vseed, &format!("c10-other-{}", key_idx));
                if V::N == 512 {
                    let _ = F1024::keygen(s2);
                } else {
                    let _ = F512::keygen(s2);
                }
            }
            V::keygen(seed)
        })
    })
    .join();
    let (sk, pk) = match made {
        Ok(Ok(k)) => k,
        _ => {
            rep.inconclusive("keygen panicked (reported by C04/C15)".into());
            return;
        }
    };
    if other_first {
        rep.count("transcript_keys_generated_after_a_key_of_the_other_variant", 1);
    }
    let n = V::N;
    let sigma = V::SIGMA;
    let b0 = V::basis(&sk);
    let pkb = V::pk_to_bytes(&pk);
    let h = spec::pk_fields(&pkb[1..]);
    // basis from the SERIALISED key with the reference ring (G = g F / f mod q, centred), and
    // cross-checked against the in-memory basis
    if let Some((f, g, cf)) = spec::sk_decode(&V::sk_to_bytes(&sk), n) {
        if let Some(gf) = spec::ring_div(&spec::negamul_mod(&g, &cf), &f) {
            let cg: Vec<i64> = gf.iter().map(|&x| spec::center(x)).collect();
            let same = b0[0].iter().zip(g.iter()).all(|(a, b)| *a as i64 == *b) && b0[1].iter().zip(f.iter()).all(|(a, b)| -(*a as i64) == *b) && b0[2].iter().zip(cg.iter()).all(|(a, b)| *a as i64 == *b) && b0[3].iter().zip(cf.iter()).all(|(a, b)| -(*a as i64) == *b);
            if !same {
                rep.inconclusive("basis recomputed from the serialised key differs from the in-memory basis (C04/C05 report this); transcript not analysed".into());
                return;
            }
        }
    }
    // directions: the 2n basis rows in tree order (normalised) and their Gram-Schmidt vectors
    let rows = fl::basis_rows_tree_order(&b0);
    let (gs, gsn) = fl::gram_schmidt(&rows);
    let row_norm2: Vec<f64> = rows.iter().map(|r| fl::dot(r, r)).collect();
    // bins of Gram-Schmidt directions ordered by norm
    let mut order: Vec<usize> = (0..2 * n).collect();
    order.sort_by(|&a, &b| gsn[a].partial_cmp(&gsn[b]).unwrap());
    let mut bin_of = vec![0usize; 2 * n];
    for (rank, &i) in order.iter().enumerate() {
        bin_of[i] = rank * NBINS / (2 * n);
    }
    let acc = Mutex::new(Acc {
        norm2: vec![],
        y_rows0: vec![],
        y_rows1: vec![],
        y_gs: vec![],
        bins: vec![],
        dir1: vec![0.0; 2 * n],
        dir2: vec![0.0; 2 * n],
        row1: vec![0.0; 2 * n],
        row2: vec![0.0; 2 * n],
        over_bound: 0,
    });
    let chunk = 25;
    let r = par_for(m_sigs / chunk, ncpu(), |c, rep| {
        let mut local = Acc { norm2: vec![], y_rows0: vec![], y_rows1: vec![], y_gs: vec![], bins: vec![], dir1: vec![0.0; 2 * n], dir2: vec![0.0; 2 * n], row1: vec![0.0; 2 * n], row2: vec![0.0; 2 * n], over_bound: 0 };
        for k in 0..chunk {
            if crate::signer::sign_is_stuck() {
                return;
            }
            let idx = (c * chunk + k) as u64;
            let msg = idx.to_le_bytes();
            let out = sign_honest::<V>(&msg, &sk, ctx.seed, &format!("c10-{}-{}-{}", V::NAME, key_idx, idx));
            let sb = match out.sig {
                Ok(s) => V::sig_to_bytes(&s),
                Err(_) => continue, // C01's business
            };
            rep.evaluations += 1;
            let (s1, s2) = match spec::recover_s(&msg, &sb[1..41], &sb[41..], &h) {
                Some(x) => x,
                None => {
                    rep.violation("transcript:signature-not-decodable", format!("{}: emitted signature does not decode", V::NAME), json!({"variant": V::NAME, "key_seed": hex(&seed), "msg": hex(&msg)}));
                    continue;
                }
            };
            let s: Vec<f64> = s1.iter().chain(s2.iter()).map(|&x| x as f64).collect();
            let n2: f64 = s.iter().map(|x| x * x).sum();
            if n2 > V::BOUND as f64 {
                local.over_bound += 1;
                rep.violation("transcript:signature-outside-the-bound", format!("{}: emitted signature has squared norm {} > {}", V::NAME, n2, V::BOUND), json!({"variant": V::NAME, "key_seed": hex(&seed), "msg": hex(&msg), "sig": hex(&sb)}));
            }
            local.norm2.push(n2);
            let (mut a0, mut a1) = (0.0, 0.0);
            for (i, r) in rows.iter().enumerate() {
                let d = fl::dot(&s, r);
                let t = d * d / row_norm2[i] / (sigma * sigma);
                local.row1[i] += d / row_norm2[i].sqrt();
                local.row2[i] += t;
                if i < n {
                    a0 += t
                } else {
                    a1 += t
                }
            }
            local.y_rows0.push(a0 / n as f64);
            local.y_rows1.push(a1 / n as f64);
            let mut ag = 0.0;
            let mut bins = vec![0.0; NBINS];
            for (i, u) in gs.iter().enumerate() {
                let d = fl::dot(&s, u);
                let t = d * d / gsn[i] / (sigma * sigma);
                local.dir1[i] += d / gsn[i].sqrt();
                local.dir2[i] += t;
                ag += t;
                bins[bin_of[i]] += t;
            }
            for b in bins.iter_mut() {
                *b /= (2 * n / NBINS) as f64;
            }
            local.bins.push(bins);
            local.y_gs.push(ag / (2 * n) as f64);
        }
        let mut a = acc.lock().unwrap();
        a.norm2.extend(local.norm2);
        a.y_rows0.extend(local.y_rows0);
        a.y_rows1.extend(local.y_rows1);
        a.y_gs.extend(local.y_gs);
        a.bins.extend(local.bins);
        for i in 0..2 * n {
            a.dir1[i] += local.dir1[i];
            a.dir2[i] += local.dir2[i];
            a.row1[i] += local.row1[i];
            a.row2[i] += local.row2[i];
        }
        a.over_bound += local.over_bound;
    });
    rep.merge(r);
    let a = acc.into_inner().unwrap();
    let m = a.norm2.len();
    if crate::signer::sign_is_stuck() {
        rep.violation("transcript:sign-makes-no-progress", format!("{}: sign consumed the randomness of 1000 honest attempts without returning (also reported by C01)", V::NAME), json!({"variant": V::NAME, "key_seed": hex(&seed)}));
        return;
    }
    if m < 200 {
        rep.inconclusive(format!("{}: only {} signatures in the transcript", V::NAME, m));
        return;
    }
    let mf = m as f64;
    let tag = format!("{}-key{}", V::NAME, key_idx);
    let replay = json!({"variant": V::NAME, "key_seed": hex(&seed), "signatures": m, "note": "statistical: re-run the leg with the recorded VERIF_SEED"});
    let mut flag = |name: &str, z: f64, thr: f64, what: String, rep: &mut Report| {
        rep.stat_max(&format!("abs_z_{}_max", name), z.abs());
        if !(z.abs() < thr) {
            rep.violation(&format!("transcript:{}", name), format!("{} ({} signatures): {} (z = {:.1}, threshold {})", tag, m, what, z, thr), replay.clone());
        }
    };
    // E||s||^2 = 2 n sigma^2
    let want = 2.0 * n as f64 * sigma * sigma;
    let (mean_n, z_n) = mean_z(&a.norm2, want);
    flag("expected-squared-norm", z_n, 6.0, format!("E||s||^2 / (2n sigma^2) = {:.5}", mean_n / want), rep);
    // pooled second moments along the two families of basis rows and the Gram-Schmidt directions
    let (m0, z0) = mean_z(&a.y_rows0, 1.0);
    flag("second-moment-along-rows-g-f", z0, 6.0, format!("mean of <s,u>^2/sigma^2 over the rotations of (g,-f) = {:.5}", m0), rep);
    let (m1, z1) = mean_z(&a.y_rows1, 1.0);
    flag("second-moment-along-rows-G-F", z1, 6.0, format!("mean of <s,u>^2/sigma^2 over the rotations of (G,-F) = {:.5}", m1), rep);
    let (mg, zg) = mean_z(&a.y_gs, 1.0);
    flag("second-moment-gram-schmidt", zg, 6.0, format!("mean of <s,u>^2/sigma^2 over the 2n Gram-Schmidt directions = {:.5}", mg), rep);
    // 16 bins of Gram-Schmidt directions ordered by norm
    for b in 0..NBINS {
        let col: Vec<f64> = a.bins.iter().map(|x| x[b]).collect();
        let (mb, zb) = mean_z(&col, 1.0);
        flag("second-moment-by-gram-schmidt-norm-bin", zb, 6.5, format!("bin {} of 16 (Gram-Schmidt directions ordered by norm): second moment ratio {:.4}", b, mb), rep);
    }
    // per-direction second moments (chi-square with M degrees of freedom) and means
    let se2 = (2.0 / mf).sqrt();
    let se1 = sigma / mf.sqrt();
    for i in 0..2 * n {
        let z = (a.dir2[i] / mf - 1.0) / se2;
        flag("second-moment-single-gram-schmidt-direction", z, 7.0, format!("Gram-Schmidt direction {} (norm {:.1}): second moment ratio {:.4}", i, gsn[i].sqrt(), a.dir2[i] / mf), rep);
        let z = (a.row2[i] / mf - 1.0) / se2;
        flag("second-moment-single-basis-row", z, 7.0, format!("basis row {}: second moment ratio {:.4}", i, a.row2[i] / mf), rep);
        let z = (a.dir1[i] / mf) / se1;
        flag("mean-single-gram-schmidt-direction", z, 7.0, format!("Gram-Schmidt direction {}: mean projection {:.3}", i, a.dir1[i] / mf), rep);
        let z = (a.row1[i] / mf) / se1;
        flag("mean-single-basis-row", z, 7.0, format!("basis row {}: mean projection {:.3}", i, a.row1[i] / mf), rep);
    }
    rep.count("transcripts", 1);
    rep.count("signatures_in_transcripts", m as u64);
    rep.count("directions_tested", (4 * n) as u64);
    for i in 0..2 * n {
        rep.nontrivial(format!("{}|{}|gs|{}", V::NAME, key_idx, i).as_bytes());
        rep.nontrivial(format!("{}|{}|row|{}", V::NAME, key_idx, i).as_bytes());
    }
    rep.sample(json!({"variant": V::NAME, "key_seed": hex(&seed), "signatures": m, "E_norm2_ratio": mean_n / want, "z_norm2": z_n, "rows_g_f_ratio": m0, "rows_G_F_ratio": m1, "gram_schmidt_ratio": mg,
        "gram_schmidt_norm_range": [gsn.iter().cloned().fold(f64::INFINITY, f64::min).sqrt(), gsn.iter().cloned().fold(0.0, f64::max).sqrt()]}));
}

pub fn transcripts(ctx: &Ctx, rep: &mut Report) {
    if !crate::pool::keygen_responds::<F512>() {
        rep.inconclusive("key generation did not return within 180 s (canary); reported as inconclusive, never as a violation".into());
        return;
    }
    let m512 = ctx.sz(3000, 30_000);
    let m1024 = ctx.sz(1500, 30_000);
    for k in 0..ctx.sz(2, 6) {
        key_transcript::<F512>(ctx, k, m512, rep);
    }
    for k in 0..ctx.sz(1, 3) {
        key_transcript::<F1024>(ctx, k, m1024, rep);
    }
    rep.require("transcripts", 3);
    rep.require("signatures_in_transcripts", 3000);
}

// ---------------------------------------------------------------------------
// exact replay of the fast-Fourier sampler

use crate::gen::{ScriptedRng, Strategy};
use crate::refs::ffs;
use crate::signer::{progress_budget, sign_scripted};
use falcon_rust::verif_hooks::Event;

/// For every signing attempt the hook log gives, in call order, the centre, width and output
/// of each integer-sampler call. An independent Algorithm 11 (own FFT, split/merge, LDL tree
/// built from the basis) is replayed on the recorded OUTPUTS and must predict every recorded
/// centre and width: a deterministic oracle for the tree (L entries and leaves) and the
/// recursion (sub-tree order, the t0' adjustment, which leaf feeds which call).
/// Specification SamplerZ replayed call by call on the bytes the signer's sampler drew.
/// Returns (calls that agree before the first disagreement, Some(index, got, want) of the first
/// disagreement). `None` as a whole when the stream does not fit the 9+1+7 pattern at all.
fn replay_stream(calls: &[(f64, f64, f64, i64)], stream: &[u8]) -> (usize, Option<(usize, i64, Option<i64>)>) {
    let mut cur = 0usize;
    for (i, &(mu, sigma, sigmin, z)) in calls.iter().enumerate() {
        // extend the window chunk by chunk until the specification accepts
        let mut k = 1;
        loop {
            if cur + 17 * k > stream.len() {
                return (i, Some((i, z, None)));
            }
            match super::c09::spec_sampler_on_log(mu, sigma, sigmin, &stream[cur..cur + 17 * k]) {
                Some(w) => {
                    if w != z {
                        return (i, Some((i, z, Some(w))));
                    }
                    cur += 17 * k;
                    break;
                }
                None => {
                    k += 1;
                    if k > 400 {
                        return (i, Some((i, z, None)));
                    }
                }
            }
        }
    }
    (calls.len(), None)
}

/// Keys whose signatures push sampler centres furthest from zero (a centre beyond +-2048 needs a
/// Falcon-1024 key with an unbalanced F: about one key in six): the pool is scanned with two
/// signatures per key and ranked by the largest |mu| seen.
fn extreme_centre_keys<V: Fv>(ctx: &Ctx, scan: usize, take: usize, rep: &mut Report) -> Vec<crate::pool::Key<V>> {
    let (keys, _bad) = crate::pool::keys::<V>(ctx.seed, "c10-centre-scan", scan);
    let scores: Vec<std::sync::Mutex<f64>> = (0..keys.len()).map(|_| std::sync::Mutex::new(0.0)).collect();
    let r = par_for(keys.len() * 2, ncpu(), |job, _rep| {
        let k = &keys[job % keys.len()];
        let rng = ScriptedRng::new(ctx.seed, &format!("c10-scan-{}-{}", V::NAME, job), Strategy::Honest, progress_budget(V::N));
        let out = sign_scripted::<V>(format!("scan-{}", job).as_bytes(), &k.sk, rng, true, 0);
        let m = out.events.iter().filter_map(|e| if let Event::SamplerCall { mu, .. } = e { Some(mu.abs()) } else { None }).fold(0.0, f64::max);
        let mut s = scores[job % keys.len()].lock().unwrap();
        if m > *s {
            *s = m;
        }
    });
    rep.merge(r);
    let mut idx: Vec<usize> = (0..keys.len()).collect();
    idx.sort_by(|&a, &b| scores[b].lock().unwrap().partial_cmp(&*scores[a].lock().unwrap()).unwrap_or(std::cmp::Ordering::Equal));
    rep.count(&format!("{}_keys_scanned_for_extreme_centres", V::NAME), keys.len() as u64);
    let mut out = vec![];
    for &i in idx.iter().take(take) {
        rep.stat_max(&format!("{}_largest_abs_centre_of_selected_keys", V::NAME), *scores[i].lock().unwrap());
        out.push(crate::pool::Key { seed: keys[i].seed, sk: keys[i].sk.clone(), pk: keys[i].pk.clone() });
    }
    out
}

fn trace_v<V: Fv>(ctx: &Ctx, nkeys: usize, nsig: usize, rep: &mut Report) {
    let (mut keys, _bad) = crate::pool::keys::<V>(ctx.seed, "c10-trace", nkeys);
    if V::N == 1024 {
        keys.extend(extreme_centre_keys::<V>(ctx, ctx.sz(128, 512), ctx.sz(2, 6), rep));
    }
    let n = V::N;
    let r = par_for(keys.len() * nsig, ncpu(), |job, rep| {
        let k = &keys[job % keys.len()];
        let b0 = V::basis(&k.sk);
        let tf = |p: &Vec<i16>, neg: bool| p.iter().map(|&x| if neg { -(x as f64) } else { x as f64 }).collect::<Vec<f64>>();
        let (g, f, cg, cf) = (tf(&b0[0], false), tf(&b0[1], true), tf(&b0[2], false), tf(&b0[3], true));
        let tree = ffs::tree(&f, &g, &cf, &cg, V::SIGMA);
        let msg = format!("trace-{}", job).into_bytes();
        // a few executions with forced norm rejections as well (several attempts per call)
        let strat = if job % 5 == 4 { Strategy::ForceAccept { rate_pm: 200, groups: 2 * n as u64 } } else { Strategy::Honest };
        let mut rng = ScriptedRng::new(ctx.seed, &format!("c10-trace-{}-{}", V::NAME, job), strat, progress_budget(n));
        rng.record = Some(Vec::with_capacity(40 * n));
        let out = sign_scripted::<V>(&msg, &k.sk, rng, true, 0);
        let sig = match out.sig {
            Ok(s) => s,
            Err(_) => return, // C01's business
        };
        let sb = V::sig_to_bytes(&sig);
        // the signature is a function of (key, message, generator stream): signing again with the
        // identical stream, while the other worker threads sign with other keys, must give the
        // identical bytes (process-wide state touched by concurrent signers shows up here)
        for rpt in 0..8 {
            let strat2 = if job % 5 == 4 { Strategy::ForceAccept { rate_pm: 200, groups: 2 * n as u64 } } else { Strategy::Honest };
            let rng2 = ScriptedRng::new(ctx.seed, &format!("c10-trace-{}-{}", V::NAME, job), strat2, progress_budget(n));
            let again = sign_scripted::<V>(&msg, &k.sk, rng2, false, 0);
            rep.evaluations += 1;
            match again.sig {
                Ok(s2) => {
                    if V::sig_to_bytes(&s2) != sb {
                        rep.violation(
                            "sign:not-a-function-of-key-message-and-randomness",
                            format!("{}: signing the same message with the same key and the identical generator stream gave different signatures (repetition {}, other threads signing concurrently)", V::NAME, rpt),
                            json!({"variant": V::NAME, "key_seed": hex(&k.seed), "msg": hex(&msg), "note": "re-run the leg with the recorded seed"}),
                        );
                        break;
                    }
                    rep.count("signatures_reproduced_under_concurrency", 1);
                }
                Err(_) => break,
            }
        }
        let calls: Vec<(f64, f64, i64)> = out.events.iter().filter_map(|e| if let Event::SamplerCall { mu, sigma, z, .. } = e { Some((*mu, *sigma, *z as i64)) } else { None }).collect();
        if calls.is_empty() || calls.len() % (2 * n) != 0 {
            rep.inconclusive(format!("{}: {} sampler events for one signature (expected a multiple of {})", V::NAME, calls.len(), 2 * n));
            return;
        }
        // every recorded sampler OUTPUT against the specification's SamplerZ on the very bytes
        // the signer's sampler drew (the generator records them): a leaf that splits its centre
        // differently, or a sampler variant used only by ffsampling, changes some z for the same
        // randomness although centres, widths and the final lattice point stay consistent
        if let Some(stream) = out.recorded.as_ref() {
            let full: Vec<(f64, f64, f64, i64)> = out.events.iter().filter_map(|e| if let Event::SamplerCall { mu, sigma, sigmin, z } = e { Some((*mu, *sigma, *sigmin, *z as i64)) } else { None }).collect();
            let (agree, dis) = replay_stream(&full, stream);
            rep.count("sampler_outputs_compared_on_same_randomness", (agree + dis.is_some() as usize) as u64);
            rep.count("sampler_outputs_agreeing_on_same_randomness", agree as u64);
            let far = full.iter().filter(|c| c.0.abs() > 2048.0).count();
            rep.count("sampler_calls_with_centre_beyond_2048", far as u64);
            rep.stat_max("largest_abs_centre_in_traces", full.iter().map(|c| c.0.abs()).fold(0.0, f64::max));
            if let Some((i, got, want)) = dis {
                rep.count("signatures_with_a_sampler_output_disagreement", 1);
                // a violation only when the byte-consumption pattern is evidently the specification's
                // (hundreds of agreeing calls before the first disagreement)
                if agree >= 200 {
                    rep.violation(
                        "ffsampling:sampler-output-differs-from-SamplerZ-on-same-randomness",
                        format!("{}: sampler call {} (mu = {}, sigma' = {}) returned {} but SamplerZ on the same random bytes returns {:?}; the {} calls before it agree", V::NAME, i, full[i].0, full[i].1, got, want, agree),
                        json!({"variant": V::NAME, "key_seed": hex(&k.seed), "msg": hex(&msg), "note": "re-run the leg with the recorded seed"}),
                    );
                }
            } else {
                rep.count("signatures_fully_agreeing_with_SamplerZ_on_same_randomness", 1);
            }
        }
        // target t = (c F / q, -c f / q) in the FFT domain (sign convention of the signer; the
        // opposite convention is tried as well and accepted, it is not a property)
        let mut rm = sb[1..41].to_vec();
        rm.extend_from_slice(&msg);
        let c: Vec<f64> = spec::hash_to_point(&rm, n).iter().map(|&x| x as f64).collect();
        let (ch, fh, cfh) = (ffs::fft(&c), ffs::fft(&f), ffs::fft(&cf));
        let q = spec::Q as f64;
        let t0: Vec<ffs::C> = (0..n).map(|i| ch[i].mul(cfh[i]).scale(1.0 / q)).collect();
        let t1: Vec<ffs::C> = (0..n).map(|i| ch[i].mul(fh[i]).scale(-1.0 / q)).collect();
        for (ai, att) in calls.chunks(2 * n).enumerate() {
            rep.evaluations += 1;
            let zs: Vec<i64> = att.iter().map(|x| x.2).collect();
            let mut best: Option<(f64, f64, usize)> = None;
            let mut best_z: Option<(Vec<i64>, Vec<i64>, f64)> = None;
            for flip in [1.0f64, -1.0] {
                let a0: Vec<ffs::C> = t0.iter().map(|x| x.scale(flip)).collect();
                let a1: Vec<ffs::C> = t1.iter().map(|x| x.scale(flip)).collect();
                let mut rp = ffs::Replay { zs: &zs, pos: 0, expected: Vec::with_capacity(2 * n) };
                let zz = match ffs::ffsampling(&a0, &a1, &tree, &mut rp) {
                    Some(z) if rp.expected.len() == 2 * n => z,
                    _ => continue,
                };
                let mut worst_mu = 0.0f64;
                let mut worst_sg = 0.0f64;
                let mut at = 0;
                for (i, ((emu, esg), (rmu, rsg, _))) in rp.expected.iter().zip(att.iter()).enumerate() {
                    let dm = (emu - rmu).abs() / emu.abs().max(1.0);
                    if dm > worst_mu {
                        worst_mu = dm;
                        at = i;
                    }
                    worst_sg = worst_sg.max(((esg - rsg) / esg).abs());
                }
                if best.map(|b| worst_mu.max(worst_sg) < b.0.max(b.1)).unwrap_or(true) {
                    best = Some((worst_mu, worst_sg, at));
                    let r0: Vec<i64> = ffs::ifft(&zz.0).iter().map(|x| x.round() as i64).collect();
                    let r1: Vec<i64> = ffs::ifft(&zz.1).iter().map(|x| x.round() as i64).collect();
                    best_z = Some((r0, r1, flip));
                }
            }
            let (wm, ws, at) = match best {
                Some(b) => b,
                None => {
                    rep.inconclusive("reference replay consumed a different number of sampler outputs".into());
                    return;
                }
            };
            rep.stat_max("trace_worst_centre_rel_err", wm);
            rep.stat_max("trace_worst_width_rel_err", ws);
            let replay = json!({"variant": V::NAME, "key_seed": hex(&k.seed), "msg": hex(&msg), "attempt": ai, "note": "re-run the leg with the recorded seed"});
            if !(wm < 1e-6) {
                rep.violation("ffsampling:centre-differs-from-reference", format!("{}: sampler call {} of attempt {} was given a centre that differs from Algorithm 11 replayed on the same outputs (relative deviation {:.3e}; recorded mu = {}, sigma' = {})", V::NAME, at, ai, wm, att[at].0, att[at].1), replay.clone());
            }
            if !(ws < 1e-9) {
                rep.violation("ffsampling:width-differs-from-reference", format!("{}: a sampler call of attempt {} was given a width that differs from the reference tree (relative deviation {:.3e})", V::NAME, ai, ws), replay);
            }
            // the emitted signature vector is exactly the lattice point the recorded samples
            // imply: s2 = -(z0 f + z1 F) over Z[X]/(X^n+1) (last attempt only; with the opposite
            // sign convention of t the sign flips as well)
            if ai + 1 == calls.len() / (2 * n) {
                if let (Some((z0, z1, flip)), Some(s2)) = (best_z, spec::decompress(&sb[41..], n)) {
                    let fi: Vec<i64> = f.iter().map(|&x| x as i64).collect();
                    let cfi: Vec<i64> = cf.iter().map(|&x| x as i64).collect();
                    let a = spec::negamul_z(&z0, &fi);
                    let b = spec::negamul_z(&z1, &cfi);
                    let sgn: i128 = if flip > 0.0 { -1 } else { 1 };
                    let same = (0..n).all(|i| sgn * (a[i] + b[i]) == s2[i] as i128);
                    rep.count("signature_vectors_recomputed_exactly", 1);
                    if !same {
                        rep.violation("sign:s2-differs-from-the-sampled-lattice-point", format!("{}: the s2 in the signature is not -(z0 f + z1 F) for the recorded sampler outputs", V::NAME), json!({"variant": V::NAME, "key_seed": hex(&k.seed), "msg": hex(&msg), "note": "re-run the leg with the recorded seed"}));
                    }
                }
            }
            rep.count("attempts_replayed", 1);
            rep.count("sampler_calls_replayed", 2 * n as u64);
            if ai > 0 {
                rep.count("attempts_after_a_norm_rejection", 1);
            }
            rep.nontrivial(format!("{}|{}|{}", V::NAME, job, ai).as_bytes());
        }
        if job == 0 {
            rep.sample(json!({"variant": V::NAME, "key_seed": hex(&k.seed), "sampler_calls": calls.len(), "first_calls": calls.iter().take(3).map(|c| json!({"mu": c.0, "sigma": c.1, "z": c.2})).collect::<Vec<_>>()}));
        }
    });
    rep.merge(r);
}

pub fn trace(ctx: &Ctx, rep: &mut Report) {
    if !crate::pool::keygen_responds::<F512>() {
        rep.inconclusive("key generation did not return within 180 s (canary)".into());
        return;
    }
    trace_v::<F512>(ctx, ctx.sz(3, 24), ctx.sz(20, 200), rep);
    trace_v::<F1024>(ctx, ctx.sz(2, 8), ctx.sz(60, 400), rep);
    rep.require("attempts_replayed", 50);
    rep.require("attempts_after_a_norm_rejection", 1);
    rep.require("signature_vectors_recomputed_exactly", 20);
    rep.require("signatures_reproduced_under_concurrency", 200);
    rep.require("sampler_outputs_agreeing_on_same_randomness", 50_000);
}
