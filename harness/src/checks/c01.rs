//! C01: every honestly produced signature verifies, for both variants, whatever the
//! signer's randomness does and however many threads share the key.

use serde_json::{json, Value};
use std::sync::atomic::{AtomicU64, Ordering};
use std::sync::{Arc, Barrier, Mutex};
use std::time::Instant;

use crate::fv::{Fv, F1024, F512};
use crate::gen::{message, ScriptedRng, Strategy, MSG_SHAPES};
use crate::pool::{self, Key};
use crate::refs::spec;
use crate::signer::{progress_budget, sign_scripted};
use crate::util::{hex, monitored, ncpu, par_for, rng_for, short_loc, unhex, Ctx, Report};
use falcon_rust::verif_hooks as vh;
use falcon_rust::verif_hooks::Event;

pub fn strategies(n: usize) -> Vec<(Strategy, u32)> {
    let g = 2 * n as u64; // sampler calls per attempt
    vec![
        (Strategy::Honest, 0),
        (Strategy::Honest, 1),
        (Strategy::Honest, 2),
        (Strategy::Honest, 5),
        (Strategy::ForceAccept { rate_pm: 150, groups: 3 * g }, 0),
        (Strategy::ForceAccept { rate_pm: 200, groups: 2 * g }, 0),
        (Strategy::ForceAccept { rate_pm: 1000, groups: g }, 0),
        (Strategy::ForceAccept { rate_pm: 1000, groups: 3 * g }, 1),
        (Strategy::ForceAccept { rate_pm: 120, groups: 4 * g }, 2),
        (Strategy::RejectBursts { period: 4, groups: 600 }, 0),
        (Strategy::ZeroBase { groups: g }, 0),
        (Strategy::ConstPrefix { byte: 0x00, prefix: 170 }, 0),
        (Strategy::ConstPrefix { byte: 0xff, prefix: 170 }, 0),
        (Strategy::CounterPrefix { prefix: 340 }, 0),
    ]
}

/// One signing execution under the monitors. Returns true if it was checked completely.
#[allow(clippy::too_many_arguments)]
pub fn check_sign<V: Fv>(k: &Key<V>, pk_h: &[i64], msg: &[u8], shape: &str, strat: &Strategy, fails: u32, vseed: u64, label: &str, rep: &mut Report) {
    // every no-progress verdict costs the randomness of 1000 honest attempts; after a few of
    // them the rest of the matrix is skipped (the verdict cannot change back)
    if crate::signer::sign_is_stuck() {
        rep.count("skipped_after_repeated_no_progress", 1);
        return;
    }
    rep.evaluations += 1;
    let replay = || json!({"variant": V::NAME, "key_seed": hex(&k.seed), "msg": if msg.len() <= 4096 { hex(msg) } else { format!("shape:{}", shape) }, "shape": shape, "strategy": format!("{:?}", strat), "compress_failures": fails, "vseed": vseed, "label": label});
    let rng = ScriptedRng::new(vseed, label, strat.clone(), progress_budget(V::N));
    let out = sign_scripted::<V>(msg, &k.sk, rng, false, fails);
    let sig = match out.sig {
        Ok(s) => s,
        Err(p) if p.no_progress => {
            rep.violation("sign:no-progress", format!("{} sign consumed the randomness of 1000 honest attempts without returning (shape {}, strategy {}, {} norm rejects, {} compress failures)", V::NAME, shape, strat.name(), out.norm_rejects, out.compress_fails), replay());
            return;
        }
        Err(p) => {
            rep.violation(&format!("panic:sign@{}", short_loc(&p.location)), format!("{} sign panicked (shape {}, strategy {}): {}", V::NAME, shape, strat.name(), p.message), replay());
            return;
        }
    };
    let sb = V::sig_to_bytes(&sig);
    if let Strategy::ForcedSalt { salt } = strat {
        // steering evidence only (how the signer draws its salt is its own business)
        if sb.len() > 41 && sb[1..41] == salt[..] {
            rep.count("forced_salt_taken", 1);
        }
    }
    let v1 = monitored(|| V::verify(msg, &sig, &k.pk));
    let (v2, trace) = if sb.len() == V::SIG_LEN { spec::verify_traced(msg, &sb[1..41], &sb[41..], pk_h) } else { (false, spec::VerifyTrace::BadEncoding) };
    match v1 {
        Err(p) => rep.violation(&format!("panic:verify@{}", short_loc(&p.location)), p.message.clone(), replay()),
        Ok(v1) => {
            if !v1 || !v2 {
                let which = if out.compress_fails > 0 { "after-compress-retry" } else if out.norm_rejects > 0 { "after-norm-retry" } else { "first-attempt" };
                rep.violation(
                    &format!("sign:signature-rejected-{}", which),
                    format!("{} honest signature rejected: verify = {}, reference = {} ({:?}); shape {}, strategy {}, {} norm rejects, {} compress failures", V::NAME, v1, v2, trace, shape, strat.name(), out.norm_rejects, out.compress_fails),
                    replay(),
                );
            }
        }
    }
    // branch coverage evidence
    if out.norm_rejects >= 1 {
        rep.count("exec_with_norm_reject", 1);
    }
    if out.norm_rejects >= 3 {
        rep.count("exec_with_3plus_norm_rejects", 1);
    }
    if out.compress_fails >= 1 {
        rep.count("exec_with_compress_retry", 1);
        if fails == 0 {
            rep.count("natural_compress_retry", 1);
        }
    }
    if fails > 0 && out.compress_fails as u32 != fails && out.compress_fails < fails as usize {
        rep.inconclusive(format!("failpoint asked for {} compression failures, observed {}", fails, out.compress_fails));
    }
    let done = out.events.iter().filter(|e| matches!(e, Event::SignDone)).count();
    if done != 1 {
        rep.inconclusive(format!("sign hook events incomplete: {} SignDone", done));
    }
    rep.count("signatures_checked", 1);
    if out.norm_rejects + out.compress_fails > 0 {
        rep.nontrivial(format!("{}|{}|{}|{}|{}", V::NAME, hex(&k.seed[..6]), shape, strat.name(), fails).as_bytes());
    }
}

fn matrix_v<V: Fv>(ctx: &Ctx, nkeys: usize, rep: &mut Report) {
    let (keys, bad) = pool::keys::<V>(ctx.seed, "c01", nkeys);
    for (s, p) in bad {
        rep.violation(&format!("panic:keygen@{}", short_loc(&p.location)), p.message.clone(), json!({"variant": V::NAME, "key_seed": hex(&s)}));
    }
    let strats = strategies(V::N);
    let hs: Vec<Vec<i64>> = keys.iter().map(|k| spec::pk_fields(&V::pk_to_bytes(&k.pk)[1..])).collect();
    let jobs = keys.len() * MSG_SHAPES;
    let big = ctx.sz(1 << 20, 1 << 24);
    let r = par_for(jobs, ncpu(), |job, rep| {
        let ki = job % keys.len();
        let shape_i = job / keys.len();
        let mut rng = rng_for(ctx.seed, &format!("c01-msg-{}-{}", V::NAME, job));
        // the big message only for the first key (hashing cost)
        let (shape, msg) = if shape_i == MSG_SHAPES - 1 && ki != 0 { message(10, &mut rng, 0) } else { message(shape_i, &mut rng, big) };
        for (si, (st, fails)) in strats.iter().enumerate() {
            if msg.len() > 100_000 && si > 3 {
                continue;
            }
            check_sign::<V>(&keys[ki], &hs[ki], &msg, &shape, st, *fails, ctx.seed, &format!("c01-{}-{}-{}", V::NAME, job, si), rep);
        }
        if job == 0 {
            rep.sample(json!({"variant": V::NAME, "key_seed": hex(&keys[ki].seed), "message_shape": shape, "strategies": strats.iter().map(|(s, f)| format!("{}+{}fp", s.name(), f)).collect::<Vec<_>>()}));
        }
    });
    rep.merge(r);
}

/// Honest signatures whose (salt, message) pair hashes through an EXTREME chunk stream (many
/// rejected chunks early, long runs of rejections; selected with the reference SHAKE, see C14):
/// the salt is handed to the signer through the RNG hook. Signer and verifier must still agree.
fn extreme_salts<V: Fv>(ctx: &Ctx, rep: &mut Report) {
    let (keys, _bad) = pool::keys::<V>(ctx.seed, "c01-xs", 2);
    if keys.is_empty() {
        return;
    }
    let hs: Vec<Vec<i64>> = keys.iter().map(|k| spec::pk_fields(&V::pk_to_bytes(&k.pk)[1..])).collect();
    let xs = super::c14::extreme_inputs(ctx.seed ^ 0x101, ctx.sz(6_000_000, 200_000_000), ctx.sz(400, 6000));
    let r = par_for(xs.len(), ncpu(), |i, rep| {
        let (_, s) = &xs[i];
        let ki = i % keys.len();
        let strat = Strategy::ForcedSalt { salt: s[..40].to_vec() };
        check_sign::<V>(&keys[ki], &hs[ki], &s[40..], "extreme-hash", &strat, 0, ctx.seed, &format!("c01-xs-{}-{}", V::NAME, i), rep);
        rep.count("signatures_with_extreme_hash_streams", 1);
        rep.nontrivial(s);
    });
    rep.merge(r);
}

/// Tail-steered signatures (see steer.rs): honest signatures whose s2 has ONE coefficient far
/// in the tail (beyond six standard deviations, in either direction), made by steering the
/// integer sampler's outputs through the generator hook. They must verify like any other.
fn tail_steered<V: Fv>(ctx: &Ctx, nkeys: usize, per_key: usize, rep: &mut Report) {
    let (keys, _bad) = pool::keys::<V>(ctx.seed, "c01-tail", nkeys);
    let hs: Vec<Vec<i64>> = keys.iter().map(|k| spec::pk_fields(&V::pk_to_bytes(&k.pk)[1..])).collect();
    let r = par_for(keys.len() * per_key, ncpu(), |job, rep| {
        let ki = job % keys.len();
        let k = &keys[ki];
        let mut rng = rng_for(ctx.seed, &format!("c01-tail-{}-{}", V::NAME, job));
        use rand::Rng;
        let j = rng.gen_range(0..V::N);
        let msg = format!("tail-{}", job).into_bytes();
        for (flip, second_half) in [(false, true), (true, true), (false, false), (true, false)] {
            let bits = match crate::steer::plan_half::<V>(&k.sk, j, flip, second_half) {
                Some(b) => b,
                None => {
                    rep.inconclusive("steering plan could not be computed (reference sampler)".into());
                    return;
                }
            };
            let strat = Strategy::Directed { bits };
            let label = format!("c01-tail-{}-{}-{}-{}", V::NAME, job, flip, second_half);
            let srng = ScriptedRng::new(ctx.seed, &label, strat.clone(), progress_budget(V::N));
            let out = sign_scripted::<V>(&msg, &k.sk, srng, false, 0);
            rep.evaluations += 1;
            let replay = json!({"variant": V::NAME, "key_seed": hex(&k.seed), "msg": hex(&msg), "shape": "tail", "strategy": format!("directed: coefficient {} flip {}", j, flip), "compress_failures": 0, "vseed": ctx.seed, "label": label, "tail": {"j": j, "flip": flip}});
            let sig = match out.sig {
                Ok(s) => s,
                Err(p) if p.no_progress => {
                    rep.violation("sign:no-progress", format!("{} sign made no progress on a tail-steered sampler stream", V::NAME), replay);
                    return;
                }
                Err(p) => {
                    rep.violation(&format!("panic:sign@{}", short_loc(&p.location)), format!("{} sign panicked on a tail-steered sampler stream (coefficient {}): {}", V::NAME, j, p.message), replay);
                    return;
                }
            };
            let sb = V::sig_to_bytes(&sig);
            let s2 = if sb.len() == V::SIG_LEN { spec::decompress(&sb[41..], V::N) } else { None };
            let (mut mn, mut mx) = s2.as_ref().map(|v| (*v.iter().min().unwrap(), *v.iter().max().unwrap())).unwrap_or((0, 0));
            if !second_half {
                // the steered half is s1 = c - s2 h (recomputed with the reference ring)
                if let Some((s1, _)) = if sb.len() == V::SIG_LEN { spec::recover_s(&msg, &sb[1..41], &sb[41..], &hs[ki]) } else { None } {
                    mn = *s1.iter().min().unwrap();
                    mx = *s1.iter().max().unwrap();
                    rep.stat_min(&format!("min_s1_coefficient_{}", V::NAME), mn as f64);
                    rep.stat_max(&format!("max_s1_coefficient_{}", V::NAME), mx as f64);
                    let six = (6.0 * V::SIGMA).ceil() as i64;
                    if mn <= -six || mx >= six {
                        rep.count("signatures_with_s1_beyond_6_sigma", 1);
                    }
                }
            } else {
                rep.stat_min(&format!("min_s2_coefficient_{}", V::NAME), mn as f64);
                rep.stat_max(&format!("max_s2_coefficient_{}", V::NAME), mx as f64);
            }
            let v1 = monitored(|| V::verify(&msg, &sig, &k.pk));
            let (v2, trace) = if sb.len() == V::SIG_LEN { spec::verify_traced(&msg, &sb[1..41], &sb[41..], &hs[ki]) } else { (false, spec::VerifyTrace::BadEncoding) };
            match v1 {
                Err(p) => rep.violation(&format!("panic:verify@{}", short_loc(&p.location)), p.message.clone(), replay.clone()),
                Ok(v1) => {
                    if !v1 || !v2 {
                        rep.violation("sign:signature-rejected-tail-coefficient", format!("{} honest signature with an {} coefficient in the far tail (min {}, max {}) rejected: verify = {}, reference = {} ({:?}); {} norm rejects", V::NAME, if second_half { "s2" } else { "s1" }, mn, mx, v1, v2, trace, out.norm_rejects), replay.clone());
                    }
                }
            }
            if out.norm_rejects == 0 {
                rep.count("tail_steered_first_attempt_signatures", 1);
            }
            rep.count("tail_steered_signatures", 1);
            let six_sigma = (6.0 * V::SIGMA).ceil() as i64;
            if !second_half {
                rep.nontrivial(format!("tail-s1|{}|{}|{}|{}", V::NAME, hex(&k.seed[..6]), j, flip).as_bytes());
                continue;
            }
            if mn <= -six_sigma {
                rep.count("signatures_with_s2_below_minus_6_sigma", 1);
            }
            if mx >= six_sigma {
                rep.count("signatures_with_s2_above_6_sigma", 1);
            }
            if mn <= -1024 || mx >= 1024 {
                rep.count("signatures_with_s2_beyond_1024", 1);
            }
            rep.nontrivial(format!("tail|{}|{}|{}|{}", V::NAME, hex(&k.seed[..6]), j, flip).as_bytes());
        }
    });
    rep.merge(r);
}

/// Keys from the planted-candidate key generator of C04 (a candidate with an out-of-range
/// coefficient at the start of every second try): whatever key comes out must sign and verify.
fn planted_keys<V: Fv>(ctx: &Ctx, count: usize, rep: &mut Report) {
    let r = par_for(count, ncpu(), |i, rep| {
        if let Some((sk, pk)) = super::c04::planted_key::<V>(ctx.seed, 1000 + i) {
            let mut seed = [0u8; 32];
            seed[..8].copy_from_slice(&(i as u64).to_le_bytes());
            seed[31] = 0xfe; // label only: this key does not come from keygen(seed)
            let h = spec::pk_fields(&V::pk_to_bytes(&pk)[1..]);
            let k = Key::<V> { seed, sk, pk };
            for m in 0..2 {
                let msg = format!("planted-key-{}-{}", i, m).into_bytes();
                check_sign::<V>(&k, &h, &msg, "planted-key", &Strategy::Honest, 0, ctx.seed, &format!("c01-planted-{}-{}-{}", V::NAME, i, m), rep);
            }
            rep.count("keys_from_the_planted_candidate_generator", 1);
        }
    });
    rep.merge(r);
}

/// sk_from_bytes + sign + verify as the FIRST crate operations of a fresh process, by several
/// threads at once (see cold.rs).
pub fn cold_start(ctx: &Ctx, rep: &mut Report) {
    let (k5, _) = pool::keys::<F512>(ctx.seed, "c01-cold", 2);
    let (k10, _) = pool::keys::<F1024>(ctx.seed, "c01-cold", 1);
    let mut keys: Vec<Vec<String>> = vec![];
    for k in &k5 {
        keys.push(vec!["512".into(), hex(&F512::sk_to_bytes(&k.sk)), hex(&F512::pk_to_bytes(&k.pk))]);
    }
    for k in &k10 {
        keys.push(vec!["1024".into(), hex(&F1024::sk_to_bytes(&k.sk)), hex(&F1024::pk_to_bytes(&k.pk))]);
    }
    if keys.is_empty() {
        rep.inconclusive("no keys".into());
        return;
    }
    let kk = &keys;
    super::cold::parent(ctx, "C01", &["sign-verify"], &[1], ctx.sz(300, 3000), &|i| kk[i % kk.len()].clone(), rep);
    rep.require("cold_start_processes", 60);
}

/// The SAME salt (dictated through the generator hook) for consecutive signatures of messages
/// that have the same length, the same first and last bytes, and differ in the middle: whatever
/// the signer remembers about the previous hash input must not be keyed by parts of it.
fn same_salt_similar_messages<V: Fv>(ctx: &Ctx, rep: &mut Report) {
    let (keys, _bad) = pool::keys::<V>(ctx.seed, "c01-samesalt", 1);
    let k = match keys.first() {
        Some(k) => k,
        None => return,
    };
    let h = spec::pk_fields(&V::pk_to_bytes(&k.pk)[1..]);
    let mut rng = rng_for(ctx.seed, &format!("c01-samesalt-{}", V::NAME));
    use rand::Rng;
    for round in 0..ctx.sz(6, 60) {
        let salt: Vec<u8> = (0..40).map(|_| rng.gen()).collect();
        let len = [24usize, 64, 200, 1000][round % 4];
        let base: Vec<u8> = (0..len).map(|_| rng.gen()).collect();
        for j in 0..4 {
            let mut msg = base.clone();
            // only bytes in the middle change
            msg[len / 2] = j as u8;
            msg[len / 2 - 1] ^= (round * 7 + j) as u8;
            check_sign::<V>(k, &h, &msg, "same-salt-similar-message", &Strategy::ForcedSalt { salt: salt.clone() }, 0, ctx.seed, &format!("c01-samesalt-{}-{}-{}", V::NAME, round, j), rep);
            rep.count("same_salt_similar_message_signatures", 1);
        }
    }
}

pub fn matrix(ctx: &Ctx, rep: &mut Report) {
    same_salt_similar_messages::<F512>(ctx, rep);
    same_salt_similar_messages::<F1024>(ctx, rep);
    rep.require("same_salt_similar_message_signatures", 40);
    planted_keys::<F1024>(ctx, ctx.sz(64, 600), rep);
    planted_keys::<F512>(ctx, ctx.sz(16, 200), rep);
    rep.require("keys_from_the_planted_candidate_generator", 40);
    tail_steered::<F512>(ctx, 2, ctx.sz(12, 200), rep);
    tail_steered::<F1024>(ctx, 2, ctx.sz(6, 100), rep);
    rep.require("signatures_with_s2_below_minus_6_sigma", 8);
    rep.require("signatures_with_s2_above_6_sigma", 8);
    rep.require("signatures_with_s1_beyond_6_sigma", 8);
    extreme_salts::<F512>(ctx, rep);
    extreme_salts::<F1024>(ctx, rep);
    matrix_v::<F1024>(ctx, ctx.sz(4, 200), rep);
    matrix_v::<F512>(ctx, ctx.sz(12, 1000), rep);
    rep.require("exec_with_norm_reject", 20);
    rep.require("exec_with_3plus_norm_rejects", 5);
    rep.require("exec_with_compress_retry", 20);
    rep.require("signatures_checked", 500);
    rep.require("signatures_with_extreme_hash_streams", 100);
    rep.require("forced_salt_taken", 100);
}

/// The un-overridden path: thread_rng inside sign, events still observed.
fn native_v<V: Fv>(ctx: &Ctx, nkeys: usize, per_key: usize, rep: &mut Report) {
    let (keys, _bad) = pool::keys::<V>(ctx.seed, "c01-native", nkeys);
    let hs: Vec<Vec<i64>> = keys.iter().map(|k| spec::pk_fields(&V::pk_to_bytes(&k.pk)[1..])).collect();
    let chunk = 50;
    let r = par_for(keys.len() * (per_key / chunk), ncpu(), |job, rep| {
        let ki = job % keys.len();
        let k = &keys[ki];
        vh::set_sign_rng(None);
        // message-size sequences in one thread: equal lengths back to back with different
        // content, large then small (buffers kept between calls would mix messages up)
        if job < 2 * keys.len() {
            let lens = [70_000usize, 70_000, 65_496, 65_496, 10, 10, 0, 70_000, 1, 0];
            for (qi, &l) in lens.iter().enumerate() {
                let msg: Vec<u8> = (0..l).map(|x| (x * 7 + qi * 13 + job) as u8).collect();
                rep.evaluations += 1;
                match monitored(|| V::sign(&msg, &k.sk)) {
                    Err(p) => rep.violation(&format!("panic:sign@{}", short_loc(&p.location)), p.message.clone(), json!({"variant": V::NAME, "key_seed": hex(&k.seed), "msg": format!("shape:len{}", l), "native": true})),
                    Ok(sig) => {
                        let sb = V::sig_to_bytes(&sig);
                        let v1 = monitored(|| V::verify(&msg, &sig, &k.pk)).unwrap_or(false);
                        let v2 = spec::verify_traced(&msg, &sb[1..41], &sb[41..], &hs[ki]).0;
                        if !v1 || !v2 {
                            rep.violation("sign:signature-rejected-in-a-message-size-sequence", format!("{}: message {} of the sequence {:?} (length {}): verify = {}, reference = {}", V::NAME, qi, lens, l, v1, v2), json!({"variant": V::NAME, "key_seed": hex(&k.seed), "msg": format!("shape:len{}", l), "native": true}));
                        }
                        rep.count("message_size_sequence_signatures", 1);
                    }
                }
            }
        }
        for i in 0..chunk {
            let msg = format!("native-{}-{}", job, i).into_bytes();
            vh::take_events();
            vh::set_logging(true, false, false);
            let s = monitored(|| V::sign(&msg, &k.sk));
            vh::set_logging(false, false, false);
            let ev = vh::take_events();
            rep.evaluations += 1;
            let replay = json!({"variant": V::NAME, "key_seed": hex(&k.seed), "msg": hex(&msg), "native": true});
            match s {
                Err(p) => rep.violation(&format!("panic:sign@{}", short_loc(&p.location)), p.message.clone(), replay),
                Ok(sig) => {
                    let sb = V::sig_to_bytes(&sig);
                    let v1 = monitored(|| V::verify(&msg, &sig, &k.pk)).unwrap_or(false);
                    // the reference verifier on a sample (cost), the crate's verifier on all
                    let v2 = if i % 5 == 0 { spec::verify_traced(&msg, &sb[1..41], &sb[41..], &hs[ki]).0 } else { true };
                    let nr = ev.iter().filter(|e| matches!(e, Event::NormReject(_))).count();
                    let cf = ev.iter().filter(|e| matches!(e, Event::CompressFail)).count();
                    if !v1 || !v2 {
                        let which = if cf > 0 { "after-compress-retry" } else if nr > 0 { "after-norm-retry" } else { "first-attempt" };
                        rep.violation(&format!("sign:signature-rejected-{}", which), format!("{} (thread_rng path) honest signature rejected: verify = {}, reference = {}; {} norm rejects, {} compress failures; signature {}", V::NAME, v1, v2, nr, cf, hex(&sb[..48])), json!({"variant": V::NAME, "key_seed": hex(&k.seed), "msg": hex(&msg), "sig": hex(&sb), "native": true}));
                    }
                    if nr > 0 {
                        rep.count("native_norm_reject", 1);
                    }
                    if cf > 0 {
                        rep.count("natural_compress_retry", 1);
                        rep.nontrivial(format!("native-cf|{}|{}|{}", V::NAME, job, i).as_bytes());
                    }
                    rep.count("native_signatures", 1);
                }
            }
        }
        rep.nontrivial(format!("native|{}|{}", V::NAME, job).as_bytes());
    });
    rep.merge(r);
}

/// One step of a call history: sign with the key as held, or with the key / public key /
/// signature taken through their byte encodings first; the signature must verify.
fn history_step<V: Fv>(k: &Key<V>, h: &[i64], mode: u32, msg: &[u8], hist: &str, rep: &mut Report) {
    rep.evaluations += 1;
    let replay = json!({"variant": V::NAME, "key_seed": hex(&k.seed), "msg": hex(msg), "native": true, "history": hist});
    let r = monitored(|| {
        let sk = if mode & 1 == 1 { V::sk_from_bytes(&V::sk_to_bytes(&k.sk)).map_err(|e| format!("sk roundtrip: {}", e))? } else { k.sk.clone() };
        let sig = V::sign(msg, &sk);
        let sig = if mode & 2 == 2 { V::sig_from_bytes(&V::sig_to_bytes(&sig)).map_err(|e| format!("sig roundtrip: {}", e))? } else { sig };
        let pk = if mode & 4 == 4 { V::pk_from_bytes(&V::pk_to_bytes(&k.pk)).map_err(|e| format!("pk roundtrip: {}", e))? } else { k.pk.clone() };
        Ok::<_, String>((V::verify(msg, &sig, &pk), V::sig_to_bytes(&sig)))
    });
    match r {
        Err(p) => rep.violation(&format!("panic:history@{}", short_loc(&p.location)), format!("{} sign/verify panicked inside a call history ({}): {}", V::NAME, hist, p.message), replay),
        Ok(Err(e)) => rep.violation("history:roundtrip-fails", format!("{}: {} inside a call history ({})", V::NAME, e, hist), replay),
        Ok(Ok((v1, sb))) => {
            let v2 = sb.len() == V::SIG_LEN && spec::verify_traced(msg, &sb[1..41], &sb[41..], h).0;
            if !v1 || !v2 {
                rep.violation("sign:signature-rejected-in-a-call-history", format!("{}: honest signature rejected inside a call history ({}; step mode {}): verify = {}, reference = {}", V::NAME, hist, mode, v1, v2), replay);
            }
            rep.count("history_signatures", 1);
        }
    }
}

/// Call histories in fresh threads: both parameter sets, several keys, keys and signatures
/// passing through their encodings, the same message under different keys back to back.
fn histories(ctx: &Ctx, rep: &mut Report) {
    use rand::Rng;
    let (k5, _) = pool::keys::<F512>(ctx.seed, "c01-hist", 3);
    let (k10, _) = pool::keys::<F1024>(ctx.seed, "c01-hist", 2);
    if k5.len() < 3 || k10.len() < 2 {
        rep.inconclusive("no keys for the call histories".into());
        return;
    }
    let h5: Vec<Vec<i64>> = k5.iter().map(|k| spec::pk_fields(&F512::pk_to_bytes(&k.pk)[1..])).collect();
    let h10: Vec<Vec<i64>> = k10.iter().map(|k| spec::pk_fields(&F1024::pk_to_bytes(&k.pk)[1..])).collect();
    let nh = ctx.sz(32, 400);
    let r = par_for(nh, ncpu(), |hi, rep| {
        let (k5, k10, h5, h10) = (&k5, &k10, &h5, &h10);
        let vseed = ctx.seed;
        let out = std::thread::scope(|s| {
            s.spawn(move || {
                vh::set_sign_rng(None);
                let mut rep = Report::new();
                let mut rng = rng_for(vseed, &format!("c01-hist-{}", hi));
                let steps = 16;
                let mut msg: Vec<u8> = format!("history-{}", hi).into_bytes();
                for st in 0..steps {
                    // mostly a new message; sometimes the previous one again (other key)
                    if rng.gen_range(0..3) != 0 {
                        msg = format!("history-{}-{}", hi, st).into_bytes();
                    }
                    let mode = rng.gen_range(0..8u32);
                    let first_1024 = hi % 2 == 1;
                    let use1024 = if st == 0 { first_1024 } else { rng.gen_range(0..3) == 0 };
                    let hist = format!("history {} step {}", hi, st);
                    if use1024 {
                        let i = rng.gen_range(0..k10.len());
                        history_step::<F1024>(&k10[i], &h10[i], mode, &msg, &hist, &mut rep);
                    } else {
                        let i = rng.gen_range(0..k5.len());
                        history_step::<F512>(&k5[i], &h5[i], mode, &msg, &hist, &mut rep);
                    }
                }
                rep.count("call_histories", 1);
                rep.nontrivial(format!("hist|{}", hi).as_bytes());
                rep
            })
            .join()
        });
        match out {
            Ok(r) => rep.merge(r),
            Err(_) => rep.inconclusive("a history thread died".into()),
        }
    });
    rep.merge(r);
    rep.require("call_histories", 16);
}

/// OBJECT-COUNT histories, run before any other thread of this leg exists: verify under key A,
/// create W - 3 .. W + 3 other public-key objects (decoding is cheap), then a fresh object of
/// key B, and verify an honest signature of B on the same thread, for W = 2^8 and 2^16. A tag,
/// serial number or slot index that wraps after W objects makes B look like A.
fn object_count_histories<V: Fv>(ctx: &Ctx, rep: &mut Report) {
    let (keys, _) = pool::keys::<V>(ctx.seed, "c01-objcount", 2);
    if keys.len() < 2 {
        return;
    }
    let (a, b) = (&keys[0], &keys[1]);
    let (pa, pb) = (V::pk_to_bytes(&a.pk), V::pk_to_bytes(&b.pk));
    let hb = spec::pk_fields(&pb[1..]);
    let (ma, mb) = (b"object count A".to_vec(), b"object count B".to_vec());
    let (sa, sb) = match (monitored(|| V::sign(&ma, &a.sk)), monitored(|| V::sign(&mb, &b.sk))) {
        (Ok(x), Ok(y)) => (x, y),
        _ => return,
    };
    let sbb = V::sig_to_bytes(&sb);
    for w in [256usize, 65536] {
        if w == 65536 && V::N == 1024 && !ctx.thorough() {
            // the larger parameter set decodes more slowly; quick tier: Falcon-512 only
            continue;
        }
        let a_obj = match V::pk_from_bytes(&pa) {
            Ok(k) => k,
            Err(_) => return,
        };
        let _ = monitored(|| V::verify(&ma, &sa, &a_obj));
        // w - 4 other objects, then seven rounds of: verify under A, one fresh B object, verify B
        for _ in 0..w.saturating_sub(4) {
            let _ = V::pk_from_bytes(&pb);
        }
        for i in 0..7 {
            let _ = monitored(|| V::verify(&ma, &sa, &a_obj));
            let b_obj = match V::pk_from_bytes(&pb) {
                Ok(k) => k,
                Err(_) => return,
            };
            rep.evaluations += 1;
            let v1 = monitored(|| V::verify(&mb, &sb, &b_obj));
            let v2 = spec::verify_traced(&mb, &sbb[1..41], &sbb[41..], &hb).0;
            match v1 {
                Ok(true) if v2 => rep.count("object_count_history_verifications", 1),
                Ok(v) => rep.violation(
                    "sign:signature-rejected-in-an-object-count-history",
                    format!("{}: an honest signature is rejected (verify = {}, reference = {}) under a freshly decoded public key that is about the {}-th public-key object created since the key verified just before it on this thread (offset {})", V::NAME, v, v2, w, i),
                    json!({"variant": V::NAME, "key_seed": hex(&b.seed), "msg": hex(&mb), "native": true, "history": format!("object count {} offset {}", w, i)}),
                ),
                Err(p) => rep.violation(&format!("panic:verify@{}", short_loc(&p.location)), p.message.clone(), json!({"variant": V::NAME, "key_seed": hex(&b.seed), "msg": hex(&mb), "native": true})),
            }
        }
        rep.count("object_count_histories", 1);
        rep.nontrivial(format!("objcount|{}|{}", V::NAME, w).as_bytes());
    }
}

pub fn native(ctx: &Ctx, rep: &mut Report) {
    object_count_histories::<F512>(ctx, rep);
    object_count_histories::<F1024>(ctx, rep);
    rep.require("object_count_histories", 3);
    histories(ctx, rep);
    // Falcon-1024 compresses into a tight budget: about one signature in a thousand takes the
    // compression-retry branch naturally, so this leg signs enough to see it
    native_v::<F1024>(ctx, ctx.sz(4, 24), ctx.sz(4000, 60000), rep);
    native_v::<F512>(ctx, ctx.sz(4, 24), ctx.sz(1000, 40000), rep);
    rep.require("native_signatures", 10_000);
    rep.sample(json!({"path": "thread_rng (no override installed)", "natural_compress_retries_observed": rep.get("natural_compress_retry"), "native_norm_rejects": rep.get("native_norm_reject")}));
}

// ---------------------------------------------------------------------------
// concurrency: many threads share one secret key

fn concurrent_v<V: Fv>(ctx: &Ctx, threads: usize, per_thread: usize, rep: &mut Report) {
    let (keys, _bad) = pool::keys::<V>(ctx.seed, "c01-conc", 1);
    if keys.is_empty() {
        rep.inconclusive("no key".into());
        return;
    }
    let key = Arc::new(keys.into_iter().next().unwrap());
    let h = Arc::new(spec::pk_fields(&V::pk_to_bytes(&key.pk)[1..]));
    let barrier = Arc::new(Barrier::new(threads + 1));
    let t0 = Instant::now();
    let log: Arc<Mutex<Vec<(usize, u128, u128)>>> = Arc::new(Mutex::new(vec![]));
    let out: Arc<Mutex<Vec<(usize, Vec<u8>, Vec<u8>, bool)>>> = Arc::new(Mutex::new(vec![]));
    let panics = Arc::new(AtomicU64::new(0));
    let mut hs = vec![];
    for t in 0..threads {
        let (key, barrier, log, out, panics) = (key.clone(), barrier.clone(), log.clone(), out.clone(), panics.clone());
        let seed = ctx.seed;
        hs.push(std::thread::spawn(move || {
            crate::util::install_panic_hook();
            barrier.wait();
            for i in 0..per_thread {
                let msg = format!("conc-{}-{}-{}", seed, t, i).into_bytes();
                let a = t0.elapsed().as_nanos();
                let s = monitored(|| V::sign(&msg, &key.sk));
                let b = t0.elapsed().as_nanos();
                log.lock().unwrap().push((t, a, b));
                match s {
                    Ok(sig) => {
                        let ok = monitored(|| V::verify(&msg, &sig, &key.pk)).unwrap_or(false);
                        out.lock().unwrap().push((t, msg, V::sig_to_bytes(&sig), ok));
                    }
                    Err(_) => {
                        panics.fetch_add(1, Ordering::SeqCst);
                    }
                }
            }
        }));
    }
    // keygen running alongside in this thread
    barrier.wait();
    let mut side_keys = 0;
    while side_keys < 2 {
        let _ = monitored(|| V::keygen(crate::util::seed32(ctx.seed, &format!("c01-side-{}", side_keys))));
        side_keys += 1;
    }
    for h in hs {
        let _ = h.join();
    }
    let sigs = out.lock().unwrap();
    for (t, msg, sb, ok_in_thread) in sigs.iter() {
        rep.evaluations += 1;
        let v2 = spec::verify_traced(msg, &sb[1..41], &sb[41..], &h).0;
        let v3 = V::sig_from_bytes(sb).map(|s| V::verify(msg, &s, &key.pk)).unwrap_or(false);
        if !ok_in_thread || !v2 || !v3 {
            rep.violation("sign:concurrent-signature-rejected", format!("{}: signature made by thread {} of {} sharing one key rejected (in-thread {}, reference {}, main thread {})", V::NAME, t, threads, ok_in_thread, v2, v3), json!({"variant": V::NAME, "key_seed": hex(&key.seed), "msg": hex(msg), "sig": hex(sb), "threads": threads}));
        }
        rep.count("concurrent_signatures", 1);
    }
    if panics.load(Ordering::SeqCst) > 0 {
        rep.violation("panic:sign-concurrent", format!("{} sign calls panicked with {} threads sharing a key", panics.load(Ordering::SeqCst), threads), json!({"variant": V::NAME, "threads": threads}));
    }
    // overlap evidence: pairs of calls from different threads whose [call, return] intervals intersect
    let mut l = log.lock().unwrap().clone();
    l.sort_by_key(|x| x.1);
    let mut overlaps = 0u64;
    for i in 0..l.len() {
        for j in i + 1..l.len() {
            if l[j].1 >= l[i].2 {
                break;
            }
            if l[j].0 != l[i].0 {
                overlaps += 1;
            }
        }
    }
    rep.count("overlapping_call_pairs", overlaps);
    rep.count(&format!("threads_{}", threads), 1);
    rep.nontrivial(format!("conc|{}|{}", V::NAME, threads).as_bytes());
    rep.sample(json!({"variant": V::NAME, "threads": threads, "signatures": sigs.len(), "overlapping_call_pairs": overlaps, "side_keygens": side_keys}));
}

/// MANY signers (far more than cores, more than any plausible pool of scratch buffers) sharing one
/// key, each signing MULTI-MEGABYTE messages: hashing a message outlasts a scheduler slice, so
/// hundreds of threads are inside the hashing step of sign at the same moment. Process-wide
/// pools, arenas or staging buffers with a slow path for "all slots busy" are exercised only here.
/// The messages are overlapping windows of one shared buffer (no copies in the harness).
fn many_signers_long_messages<V: Fv>(ctx: &Ctx, threads: usize, msg_len: usize, per_thread: usize, rep: &mut Report) {
    let (keys, _bad) = pool::keys::<V>(ctx.seed, "c01-many", 1);
    if keys.is_empty() {
        rep.inconclusive("no key".into());
        return;
    }
    let key = Arc::new(keys.into_iter().next().unwrap());
    let h = Arc::new(spec::pk_fields(&V::pk_to_bytes(&key.pk)[1..]));
    let mut rng = rng_for(ctx.seed, "c01-many-buffer");
    let mut base = vec![0u8; msg_len + threads * per_thread + 64];
    rand::RngCore::fill_bytes(&mut rng, &mut base);
    let base = Arc::new(base);
    let barrier = Arc::new(Barrier::new(threads));
    let inflight = Arc::new(AtomicU64::new(0));
    let max_inflight = Arc::new(AtomicU64::new(0));
    let out: Arc<Mutex<Vec<(usize, usize, bool, Option<bool>, bool)>>> = Arc::new(Mutex::new(vec![]));
    let mut hs = vec![];
    for t in 0..threads {
        let (key, h, base, barrier, inflight, max_inflight, out) = (key.clone(), h.clone(), base.clone(), barrier.clone(), inflight.clone(), max_inflight.clone(), out.clone());
        let b = std::thread::Builder::new().stack_size(1 << 20);
        match b.spawn(move || {
            crate::util::install_panic_hook();
            barrier.wait();
            for i in 0..per_thread {
                let off = t * per_thread + i;
                let msg = &base[off..off + msg_len];
                let now = inflight.fetch_add(1, Ordering::SeqCst) + 1;
                max_inflight.fetch_max(now, Ordering::SeqCst);
                let s = monitored(|| V::sign(msg, &key.sk));
                inflight.fetch_sub(1, Ordering::SeqCst);
                match s {
                    Ok(sig) => {
                        let ok = monitored(|| V::verify(msg, &sig, &key.pk)).unwrap_or(false);
                        // the independent verifier on a sample (its SHAKE is slower)
                        let refv = if t % 8 == 0 || !ok {
                            let sb = V::sig_to_bytes(&sig);
                            Some(spec::verify_traced(msg, &sb[1..41], &sb[41..], &h).0)
                        } else {
                            None
                        };
                        out.lock().unwrap().push((t, off, ok, refv, false));
                    }
                    Err(_) => out.lock().unwrap().push((t, off, false, None, true)),
                }
            }
        }) {
            Ok(hd) => hs.push(hd),
            Err(_) => {
                rep.inconclusive(format!("could not start {} threads", threads));
                return;
            }
        }
    }
    for hd in hs {
        let _ = hd.join();
    }
    for (t, off, ok, refv, panicked) in out.lock().unwrap().iter() {
        rep.evaluations += 1;
        let replay = json!({"variant": V::NAME, "key_seed": hex(&key.seed), "threads": threads, "message": format!("window [{}, {}) of the shared buffer (ChaCha stream c01-many-buffer)", off, off + msg_len), "note": "re-run the leg with the recorded seed"});
        if *panicked {
            rep.violation("panic:sign-concurrent", format!("{}: sign panicked in thread {} of {} signing a {}-byte message", V::NAME, t, threads, msg_len), replay);
        } else if !ok || *refv == Some(false) {
            rep.violation("sign:concurrent-signature-rejected", format!("{}: signature on a {}-byte message made by thread {} of {} sharing one key rejected (crate verify {}, reference {:?})", V::NAME, msg_len, t, threads, ok, refv), replay);
        }
        rep.count("signatures_on_long_messages_by_many_signers", 1);
    }
    rep.stat_max("most_sign_calls_in_flight_at_once", max_inflight.load(Ordering::SeqCst) as f64);
    rep.nontrivial(format!("many|{}|{}|{}", V::NAME, threads, msg_len).as_bytes());
}

pub fn concurrent(ctx: &Ctx, rep: &mut Report) {
    if !crate::pool::keygen_responds::<F512>() {
        rep.inconclusive("key generation did not return within 180 s (canary); reported as inconclusive, never as a violation".into());
        return;
    }
    let per = ctx.sz(25, 200);
    for t in [2usize, 8, 16, 64] {
        concurrent_v::<F512>(ctx, t, per, rep);
    }
    for t in [2usize, 16] {
        concurrent_v::<F1024>(ctx, t, per, rep);
    }
    many_signers_long_messages::<F512>(ctx, ctx.sz(200, 320), ctx.sz(12 << 20, 16 << 20), 3, rep);
    many_signers_long_messages::<F1024>(ctx, ctx.sz(96, 200), ctx.sz(8 << 20, 16 << 20), 2, rep);
    rep.require("signatures_on_long_messages_by_many_signers", 30);
    rep.require("overlapping_call_pairs", 100);
    rep.require("concurrent_signatures", 500);
}

pub fn replay(r: &Value) -> bool {
    fn go<V: Fv>(r: &Value) -> bool {
        let mut seed = [0u8; 32];
        seed.copy_from_slice(&unhex(r["key_seed"].as_str().unwrap()));
        let (keys, _) = pool::keys_from::<V>(&[seed]);
        let k = match keys.into_iter().next() {
            Some(k) => k,
            None => {
                println!("keygen failed");
                return false;
            }
        };
        let h = spec::pk_fields(&V::pk_to_bytes(&k.pk)[1..]);
        let msg_s = r["msg"].as_str().unwrap_or("");
        if msg_s.starts_with("shape:") {
            println!("message too large to be stored: re-run the leg with the recorded seed");
            crate::util::not_replayable();
            return false;
        }
        let msg = unhex(msg_s);
        if let Some(sigs) = r["sig"].as_str() {
            let sb = unhex(sigs);
            let v1 = V::sig_from_bytes(&sb).map(|s| V::verify(&msg, &s, &k.pk));
            let v2 = spec::verify_traced(&msg, &sb[1..41], &sb[41..], &h);
            println!("recorded signature: verify = {:?}, reference = {:?}", v1, v2);
            return v1 == Ok(true) && v2.0;
        }
        // scripted case: rebuild the strategy from its debug form is not attempted; the
        // recorded label + seed regenerate the same stream through the matrix leg
        let strat_s = r["strategy"].as_str().unwrap_or("Honest");
        let strat = strategies(V::N).into_iter().map(|x| x.0).find(|s| format!("{:?}", s) == strat_s).unwrap_or(Strategy::Honest);
        let mut rep = Report::new();
        check_sign::<V>(&k, &h, &msg, r["shape"].as_str().unwrap_or("?"), &strat, r["compress_failures"].as_u64().unwrap_or(0) as u32, r["vseed"].as_u64().unwrap_or(1), r["label"].as_str().unwrap_or("replay"), &mut rep);
        println!("counters {:?}", rep.counters);
        crate::util::print_replay(&rep)
    }
    match r["variant"].as_str().unwrap_or("") {
        "falcon512" => go::<F512>(r),
        _ => go::<F1024>(r),
    }
}
