//! C08: every signature carries a fresh random 40-byte salt. Offline checker over the
//! recorded salt history of the real thread_rng path (no RNG override installed).

use serde_json::{json, Value};
use std::collections::{HashMap, HashSet};
use std::sync::{Arc, Barrier, Mutex};

use crate::fv::{Fv, F1024, F512};
use crate::pool;
use crate::util::{hex, monitored, unhex, Ctx, Report};
use falcon_rust::verif_hooks as vh;

#[derive(Clone)]
pub struct SaltRec {
    pub salt: Vec<u8>,
    pub sig_hash: u64,
    pub ctx: String, // workload / thread / key / message class
}

/// The history checker. `label` names the history in violation messages.
pub fn check_history(label: &str, recs: &[SaltRec], rep: &mut Report) {
    rep.evaluations += recs.len() as u64;
    let n = recs.len();
    if n == 0 {
        rep.inconclusive(format!("{}: empty salt history", label));
        return;
    }
    // 1. no duplicate salt
    let mut seen: HashMap<&[u8], usize> = HashMap::with_capacity(n);
    let mut dups = 0;
    for (i, r) in recs.iter().enumerate() {
        if r.salt.len() != 40 {
            rep.violation("salt:wrong-length", format!("{}: salt of {} bytes", label, r.salt.len()), json!({"history": label}));
            return;
        }
        if let Some(j) = seen.insert(&r.salt[..], i) {
            dups += 1;
            if dups <= 3 {
                rep.violation("salt:repeated", format!("{}: sign calls #{} ({}) and #{} ({}) returned the same salt {}", label, j, recs[j].ctx, i, r.ctx, hex(&r.salt)), json!({"history": label, "first": j, "second": i, "salt": hex(&r.salt)}));
            }
        }
    }
    rep.count("salts_checked", n as u64);
    rep.count("distinct_salts", seen.len() as u64);
    // 2. no constant byte position; each position takes many values
    if n >= 1000 {
        let mut min_distinct = 256;
        for pos in 0..40 {
            let mut vals = [false; 256];
            for r in recs {
                vals[r.salt[pos] as usize] = true;
            }
            let d = vals.iter().filter(|&&b| b).count();
            min_distinct = min_distinct.min(d);
            if d < 32 {
                rep.violation("salt:byte-position-not-varying", format!("{}: byte {} of the salt takes only {} distinct values over {} signatures", label, pos, d, n), json!({"history": label, "position": pos}));
            }
        }
        rep.stat_min("distinct_values_per_position_min", min_distinct as f64);
        // 3. per-bit balance
        let mut worst = 0.0f64;
        for bit in 0..320 {
            let ones = recs.iter().filter(|r| (r.salt[bit / 8] >> (bit % 8)) & 1 == 1).count() as f64;
            let z = (ones - n as f64 / 2.0) / (n as f64 / 4.0).sqrt();
            worst = worst.max(z.abs());
            if z.abs() > 6.0 {
                rep.violation("salt:bit-biased", format!("{}: bit {} of the salt is set in {} of {} signatures (z = {:.1})", label, bit, ones, n, z), json!({"history": label, "bit": bit}));
            }
        }
        rep.stat_max("bit_balance_abs_z_max", worst);
    }
    // 4. the same (message, key) never yields the same signature twice
    let mut sigs: HashSet<u64> = HashSet::with_capacity(n);
    for r in recs {
        if !sigs.insert(r.sig_hash) {
            rep.violation("sig:repeated", format!("{}: two sign calls returned byte-identical signatures ({})", label, r.ctx), json!({"history": label}));
            break;
        }
    }
}

fn collect<V: Fv>(ctx: &Ctx, total: usize, rep: &mut Report) -> Vec<SaltRec> {
    let (keys, _bad) = pool::keys::<V>(ctx.seed, "c08", 2);
    if keys.len() < 2 {
        rep.inconclusive("keygen failed".into());
        return vec![];
    }
    if !crate::signer::canary::<V>(&keys[0].sk) {
        rep.inconclusive("sign does not terminate or panics on a fresh key (reported by C01); no salt history can be recorded".into());
        return vec![];
    }
    let keys = Arc::new(keys);
    let threads = 16;
    let per = total / threads;
    let out: Arc<Mutex<Vec<SaltRec>>> = Arc::new(Mutex::new(Vec::with_capacity(total)));
    let barrier = Arc::new(Barrier::new(threads));
    let mut hs = vec![];
    for t in 0..threads {
        let (keys, out, barrier) = (keys.clone(), out.clone(), barrier.clone());
        hs.push(std::thread::spawn(move || {
            vh::set_sign_rng(None); // the real thread_rng path
            let mut local = Vec::with_capacity(per);
            barrier.wait();
            for i in 0..per {
                // three workloads interleaved: same message + same key (all threads), distinct
                // messages, second key
                let (msg, k, cls): (Vec<u8>, usize, &str) = match i % 3 {
                    0 => (b"the very same message".to_vec(), 0, "same-msg-same-key"),
                    1 => (format!("m-{}-{}", t, i).into_bytes(), 0, "distinct-msg"),
                    _ => (b"the very same message".to_vec(), 1, "same-msg-other-key"),
                };
                if let Ok(sig) = monitored(|| V::sign(&msg, &keys[k].sk)) {
                    let b = V::sig_to_bytes(&sig);
                    if b.len() >= 41 {
                        local.push(SaltRec { salt: b[1..41].to_vec(), sig_hash: crate::util::hash64(&b), ctx: format!("{} thread {} call {} {}", V::NAME, t, i, cls) });
                    }
                }
            }
            out.lock().unwrap().extend(local);
        }));
    }
    for h in hs {
        let _ = h.join();
    }
    let v = out.lock().unwrap().clone();
    v
}

pub fn salts(ctx: &Ctx, rep: &mut Report) {
    if !crate::pool::keygen_responds::<F512>() {
        rep.inconclusive("key generation did not return within 180 s (canary); reported as inconclusive, never as a violation".into());
        return;
    }
    // one LONG-LIVED thread that signs for the whole duration of the leg and beyond (a signing
    // daemon): per-thread generator state with an output budget, a reseed interval or a counter
    // that runs out only after tens of thousands of signatures shows up here and nowhere else
    let long_n = ctx.sz(42_000, 400_000);
    let long_seed = ctx.seed;
    let long = std::thread::spawn(move || {
        vh::set_sign_rng(None);
        let (keys, _) = pool::keys::<F1024>(long_seed, "c08-long", 1);
        let mut out: Vec<SaltRec> = Vec::with_capacity(long_n);
        if let Some(k) = keys.first() {
            for i in 0..long_n {
                let msg = (i as u64).to_le_bytes();
                match monitored(|| F1024::sign(&msg, &k.sk)) {
                    Ok(sig) => {
                        let b = F1024::sig_to_bytes(&sig);
                        out.push(SaltRec { salt: b[1..41].to_vec(), sig_hash: crate::util::hash64(&b), ctx: format!("long-lived thread, call {}", i) });
                    }
                    Err(_) => break,
                }
            }
        }
        out
    });
    let n512 = ctx.sz(48_000, 1_000_000);
    let n1024 = ctx.sz(16_000, 200_000);
    let mut all = collect::<F512>(ctx, n512, rep);
    let h1024 = collect::<F1024>(ctx, n1024, rep);
    check_history("falcon512, 16 threads", &all, rep);
    check_history("falcon1024, 16 threads", &h1024, rep);
    // per-workload sub-histories (a salt derived from (message, key) repeats inside these)
    let same: Vec<SaltRec> = all.iter().filter(|r| r.ctx.ends_with("same-msg-same-key")).cloned().collect();
    check_history("falcon512, same message and key", &same, rep);
    rep.nontrivial_s("history|512");
    rep.nontrivial_s("history|1024");
    rep.nontrivial_s("history|512-same");
    // both variants together: salts must not repeat across keys/variants either
    all.extend(h1024);
    check_history("both variants", &all, rep);
    rep.nontrivial_s("history|all");
    if let Some(r) = all.first() {
        rep.sample(json!({"first_salt": hex(&r.salt), "context": r.ctx, "history_size": all.len()}));
    }
    // thread churn: many short-lived threads, each signing once or twice (a thread-per-request
    // server); per-thread generator state that is derived from a small counter repeats here
    let (keys2, _) = pool::keys::<F512>(ctx.seed, "c08", 2);
    if keys2.len() == 2 {
        let keys2 = Arc::new(keys2);
        let total_threads = ctx.sz(1600, 20_000);
        let churn: Arc<Mutex<Vec<SaltRec>>> = Arc::new(Mutex::new(vec![]));
        let mut started = 0;
        while started < total_threads {
            let wave = 64.min(total_threads - started);
            let mut hs = vec![];
            for w in 0..wave {
                let (keys2, churn) = (keys2.clone(), churn.clone());
                let id = started + w;
                hs.push(std::thread::spawn(move || {
                    vh::set_sign_rng(None);
                    for j in 0..1 + id % 2 {
                        let msg = format!("churn-{}-{}", id, j).into_bytes();
                        if let Ok(sig) = monitored(|| F512::sign(&msg, &keys2[id % 2].sk)) {
                            let b = F512::sig_to_bytes(&sig);
                            churn.lock().unwrap().push(SaltRec { salt: b[1..41].to_vec(), sig_hash: crate::util::hash64(&b), ctx: format!("short-lived thread {} call {}", id, j) });
                        }
                    }
                }));
            }
            for h in hs {
                let _ = h.join();
            }
            started += wave;
        }
        let c = churn.lock().unwrap().clone();
        rep.count("short_lived_threads", total_threads as u64);
        check_history("short-lived threads (one or two signatures each)", &c, rep);
        rep.nontrivial_s("history|thread-churn");
        all.extend(c);
    }
    match long.join() {
        Ok(l) => {
            rep.count("long_lived_thread_signatures", l.len() as u64);
            check_history("one long-lived thread (Falcon-1024)", &l, rep);
            rep.nontrivial_s("history|long-lived");
            all.extend(l);
        }
        Err(_) => rep.inconclusive("the long-lived signing thread died".into()),
    }
    check_history("everything together", &all, rep);
    rep.require("long_lived_thread_signatures", long_n as u64);
    // a sign call that PANICS and is caught, between ordinary signatures on the same thread (a
    // worker pool that survives panicking jobs): a generator hook that unwinds makes one call of
    // sign panic. Salts before and after must all be different.
    {
        let (kp, _) = pool::keys::<F512>(ctx.seed, "c08-panic", 1);
        let (kp2, _) = pool::keys::<F1024>(ctx.seed, "c08-panic", 1);
        if let (Some(k5), Some(k10)) = (kp.first(), kp2.first()) {
            let mut recs: Vec<SaltRec> = vec![];
            let mut hs = vec![];
            for t in 0..ctx.sz(8, 64) {
                let (sk5, sk10) = (k5.sk.clone(), k10.sk.clone());
                hs.push(std::thread::spawn(move || {
                    vh::set_sign_rng(None);
                    let mut out: Vec<SaltRec> = vec![];
                    let mut unwound = 0;
                    for round in 0..4 {
                        for j in 0..3 {
                            let msg = format!("panic-history-{}-{}-{}", t, round, j).into_bytes();
                            let b = if (t + j) % 2 == 0 { monitored(|| F512::sig_to_bytes(&F512::sign(&msg, &sk5))) } else { monitored(|| F1024::sig_to_bytes(&F1024::sign(&msg, &sk10))) };
                            if let Ok(b) = b {
                                out.push(SaltRec { salt: b[1..41].to_vec(), sig_hash: crate::util::hash64(&b), ctx: format!("thread {} round {} call {} (a caught panic of sign precedes every round but the first)", t, round, j) });
                            }
                        }
                        // the panicking call: a generator (RNG hook) that unwinds on first use
                        struct Boom;
                        impl rand::RngCore for Boom {
                            fn next_u32(&mut self) -> u32 {
                                panic!("generator unwinds")
                            }
                            fn next_u64(&mut self) -> u64 {
                                panic!("generator unwinds")
                            }
                            fn fill_bytes(&mut self, _d: &mut [u8]) {
                                panic!("generator unwinds")
                            }
                            fn try_fill_bytes(&mut self, _d: &mut [u8]) -> Result<(), rand::Error> {
                                panic!("generator unwinds")
                            }
                        }
                        vh::set_sign_rng(Some(Box::new(Boom)));
                        let r = monitored(|| F512::sign(b"unwinding generator", &sk5)).is_err();
                        vh::set_sign_rng(None);
                        if r {
                            unwound += 1;
                        }
                    }
                    (out, unwound)
                }));
            }
            let mut unwound_total = 0;
            for h in hs {
                if let Ok((o, u)) = h.join() {
                    recs.extend(o);
                    unwound_total += u;
                }
            }
            rep.count("sign_calls_that_unwound_between_signatures", unwound_total as u64);
            rep.count("signatures_around_caught_panics", recs.len() as u64);
            check_history("signatures before and after caught panics of sign", &recs, rep);
            rep.nontrivial_s("history|caught-panics");
            all.extend(recs);
        }
    }
    rep.require("sign_calls_that_unwound_between_signatures", 8);
    // signatures made WHILE A THREAD IS UNWINDING (a guard object whose destructor signs, e.g. an
    // audit record written on failure): several threads panic at the same moment, each guard
    // signs twice; all salts must differ
    {
        struct SignOnDrop {
            sk: <F512 as Fv>::Sk,
            id: usize,
            out: Arc<Mutex<Vec<SaltRec>>>,
        }
        impl Drop for SignOnDrop {
            fn drop(&mut self) {
                for j in 0..2 {
                    let msg = format!("unwinding-{}-{}", self.id, j).into_bytes();
                    if let Ok(b) = std::panic::catch_unwind(std::panic::AssertUnwindSafe(|| F512::sig_to_bytes(&F512::sign(&msg, &self.sk)))) {
                        self.out.lock().unwrap().push(SaltRec { salt: b[1..41].to_vec(), sig_hash: crate::util::hash64(&b), ctx: format!("signed in a destructor while thread {} was unwinding (call {})", self.id, j) });
                    }
                }
            }
        }
        let (ku, _) = pool::keys::<F512>(ctx.seed, "c08-unwind", 1);
        if let Some(k) = ku.first() {
            let out: Arc<Mutex<Vec<SaltRec>>> = Arc::new(Mutex::new(vec![]));
            for wave in 0..ctx.sz(6, 40) {
                let mut hs = vec![];
                for t in 0..8 {
                    let (sk, out) = (k.sk.clone(), out.clone());
                    hs.push(std::thread::spawn(move || {
                        vh::set_sign_rng(None);
                        let _g = SignOnDrop { sk, id: wave * 8 + t, out };
                        panic!("unwinding on purpose");
                    }));
                }
                for h in hs {
                    let _ = h.join();
                }
            }
            let recs = out.lock().unwrap().clone();
            rep.count("signatures_made_during_unwinding", recs.len() as u64);
            check_history("signatures made in destructors while their threads were unwinding", &recs, rep);
            rep.nontrivial_s("history|unwinding");
            all.extend(recs);
        }
    }
    rep.require("signatures_made_during_unwinding", 40);
    // COPIES OF A USED KEY: a key object that has already signed is cloned (and re-decoded from
    // its bytes) at several points of its life; the original and every copy then sign in turn, in
    // this thread and in fresh threads. Per-object signing state that a copy inherits (a
    // generator or counter stored in the key) repeats salts here and nowhere else.
    {
        fn copies<V: Fv>(ctx: &Ctx, rep: &mut Report, all: &mut Vec<SaltRec>) {
            let (kp, _) = pool::keys::<V>(ctx.seed, "c08-copies", 2);
            for (ki, k) in kp.iter().enumerate() {
                let mut recs: Vec<SaltRec> = vec![];
                let mut push = |b: Vec<u8>, who: String| recs.push(SaltRec { salt: b[1..41].to_vec(), sig_hash: crate::util::hash64(&b), ctx: who });
                vh::set_sign_rng(None);
                // a fresh object for this history (the pool's own object may have been used)
                let original = match V::sk_from_bytes(&V::sk_to_bytes(&k.sk)) {
                    Ok(o) => o,
                    Err(_) => continue,
                };
                let mut objects: Vec<(String, V::Sk)> = vec![];
                objects.push(("clone taken before the first signature".into(), original.clone()));
                for stage in 0..ctx.sz(4, 12) {
                    // the original signs a little ...
                    for j in 0..(1 + stage % 3) {
                        let msg = format!("copies-{}-{}-{}", ki, stage, j).into_bytes();
                        if let Ok(b) = monitored(|| V::sig_to_bytes(&V::sign(&msg, &original))) {
                            push(b, format!("{} key {}: original object, stage {} call {}", V::NAME, ki, stage, j));
                        }
                    }
                    // ... then is copied
                    objects.push((format!("clone taken after stage {}", stage), original.clone()));
                    if let Ok(o) = V::sk_from_bytes(&V::sk_to_bytes(&original)) {
                        objects.push((format!("re-decoded from bytes after stage {}", stage), o));
                    }
                    if let Some((_, last)) = objects.last() {
                        let again = last.clone();
                        objects.push((format!("clone of a copy after stage {}", stage), again));
                    }
                    // every copy made so far signs the SAME message, half of them in fresh threads
                    let msg = format!("copies-{}-{}-all", ki, stage).into_bytes();
                    let mut hs = vec![];
                    for (oi, (what, o)) in objects.iter().enumerate() {
                        if oi % 2 == 0 {
                            if let Ok(b) = monitored(|| V::sig_to_bytes(&V::sign(&msg, o))) {
                                push(b, format!("{} key {}: {} (same thread, stage {})", V::NAME, ki, what, stage));
                            }
                        } else {
                            let (o2, m2, what2) = (o.clone(), msg.clone(), what.clone());
                            hs.push((what2, std::thread::spawn(move || {
                                vh::set_sign_rng(None);
                                // the thread's copy signs, and so does the object it was cloned from later on
                                monitored(|| V::sig_to_bytes(&V::sign(&m2, &o2)))
                            })));
                        }
                    }
                    for (what, h) in hs {
                        if let Ok(Ok(b)) = h.join() {
                            push(b, format!("{} key {}: clone of [{}] moved to a fresh thread (stage {})", V::NAME, ki, what, stage));
                        }
                    }
                }
                rep.count("signatures_by_copies_of_used_keys", recs.len() as u64);
                rep.count("key_objects_copied_after_use", objects.len() as u64);
                check_history(&format!("{}: original and copies of a used key object", V::NAME), &recs, rep);
                rep.nontrivial_s(&format!("history|copies|{}|{}", V::NAME, ki));
                all.extend(recs);
            }
        }
        copies::<F512>(ctx, rep, &mut all);
        copies::<F1024>(ctx, rep, &mut all);
        rep.require("signatures_by_copies_of_used_keys", 100);
    }
    // how much of the generator's output the salt carries: two generator streams (RNG hook) that
    // agree ONLY on a window of at most 32 output positions and are independent everywhere else
    // cannot lead to the same 40-byte salt, wherever in the stream the salt is drawn from; a salt
    // derived from a few of the drawn bytes (a truncating "whitening" step, a short seed) repeats
    {
        let (kw, _) = pool::keys::<F512>(ctx.seed, "c08-window", 1);
        let (kw2, _) = pool::keys::<F1024>(ctx.seed, "c08-window", 1);
        if let (Some(k5), Some(k10)) = (kw.first(), kw2.first()) {
            let windows: [(u64, u64); 14] = [(0, 1), (0, 2), (0, 4), (0, 5), (0, 8), (0, 16), (0, 24), (0, 32), (8, 40), (20, 40), (32, 40), (36, 68), (40, 72), (3, 35)];
            for (wi, &(lo, hi)) in windows.iter().enumerate() {
                for r_ in 0..ctx.sz(6, 24) {
                    let shared_seed = ctx.seed.wrapping_mul(1000) + (wi * 100 + r_) as u64;
                    // the shared positions hold random bytes, or all 0x00, or all 0xff (a
                    // generator "health test" that looks at part of the output must not end up
                    // replacing a live draw)
                    let strat = match r_ % 3 {
                        0 => crate::gen::Strategy::SharedWindow { lo, hi, shared_seed },
                        1 => crate::gen::Strategy::ConstWindow { lo, hi, byte: 0x00 },
                        _ => crate::gen::Strategy::ConstWindow { lo, hi, byte: 0xff },
                    };
                    let msg = b"window".to_vec();
                    let mut salts: Vec<Vec<u8>> = vec![];
                    for side in 0..2 {
                        let label = format!("c08-window-{}-{}-{}", wi, r_, side);
                        let rng = crate::gen::ScriptedRng::new(ctx.seed, &label, strat.clone(), crate::signer::progress_budget(1024));
                        let out = if r_ % 2 == 0 { crate::signer::sign_scripted::<F512>(&msg, &k5.sk, rng, false, 0).sig.map(|s| F512::sig_to_bytes(&s)) } else { crate::signer::sign_scripted::<F1024>(&msg, &k10.sk, rng, false, 0).sig.map(|s| F1024::sig_to_bytes(&s)) };
                        if let Ok(b) = out {
                            salts.push(b[1..41].to_vec());
                        }
                    }
                    rep.evaluations += 1;
                    if salts.len() == 2 {
                        rep.count("generator_window_pairs", 1);
                        if salts[0] == salts[1] {
                            rep.violation(
                                "salt:does-not-carry-40-generator-bytes",
                                format!("two signatures made with generator streams that agree only on output positions [{}, {}) and are independent everywhere else carry the same salt {}", lo, hi, hex(&salts[0])),
                                json!({"kind": "window", "lo": lo, "hi": hi, "shared_seed": shared_seed, "variant": if r_ % 2 == 0 { "falcon512" } else { "falcon1024" }}),
                            );
                        }
                        rep.nontrivial(format!("window|{}|{}|{}", lo, hi, r_).as_bytes());
                    }
                }
            }
        }
        vh::set_sign_rng(None);
    }
    rep.require("generator_window_pairs", 10);
    // the retry paths of sign (compression failure forced by the failpoint, real randomness):
    // a salt that is re-drawn, cleared or reused when signing restarts shows up here
    let (keys3, _) = pool::keys::<F512>(ctx.seed, "c08", 2);
    let (keys4, _) = pool::keys::<F1024>(ctx.seed, "c08", 1);
    if keys3.len() == 2 && keys4.len() == 1 {
        let mut retry: Vec<SaltRec> = vec![];
        vh::set_sign_rng(None);
        for i in 0..ctx.sz(300, 5000) {
            let fails = 1 + (i % 3) as u32;
            let msg = if i % 2 == 0 { b"retry path, same message".to_vec() } else { format!("retry-{}", i).into_bytes() };
            vh::set_compress_failures(fails);
            let b = if i % 4 == 3 { monitored(|| F1024::sig_to_bytes(&F1024::sign(&msg, &keys4[0].sk))) } else { monitored(|| F512::sig_to_bytes(&F512::sign(&msg, &keys3[i % 2].sk))) };
            vh::set_compress_failures(0);
            if let Ok(b) = b {
                retry.push(SaltRec { salt: b[1..41].to_vec(), sig_hash: crate::util::hash64(&b), ctx: format!("sign call {} with {} forced compression failure(s)", i, fails) });
            }
        }
        rep.count("signatures_through_the_compression_retry_path", retry.len() as u64);
        check_history("signatures that went through the compression-retry path", &retry, rep);
        rep.nontrivial_s("history|compress-retry-path");
        all.extend(retry);
        check_history("everything together (incl. retry path)", &all, rep);
    }
    // message-size classes signed back to back in one thread: equal lengths in a row (same and
    // different content), across keys and variants, from empty to 200 kB (buffers kept between
    // calls, keyed by length, show up here)
    let (keys5, _) = pool::keys::<F512>(ctx.seed, "c08", 2);
    let (keys6, _) = pool::keys::<F1024>(ctx.seed, "c08", 1);
    if keys5.len() == 2 && keys6.len() == 1 {
        let mut sized: Vec<SaltRec> = vec![];
        vh::set_sign_rng(None);
        let lens = [0usize, 1, 95, 4096, 65495, 65496, 70000, 200_000];
        for round in 0..ctx.sz(2, 12) {
            for &l in &lens {
                let m1: Vec<u8> = (0..l).map(|i| (i * 31 + round) as u8).collect();
                let m2: Vec<u8> = (0..l).map(|i| (i * 17 + 5 + round) as u8).collect();
                let calls: Vec<(&Vec<u8>, u8)> = vec![(&m1, 0), (&m1, 0), (&m2, 0), (&m2, 1), (&m1, 2), (&m2, 2), (&m1, 0)];
                for (ci, (m, which)) in calls.iter().enumerate() {
                    let b = match which {
                        0 => monitored(|| F512::sig_to_bytes(&F512::sign(m, &keys5[0].sk))),
                        1 => monitored(|| F512::sig_to_bytes(&F512::sign(m, &keys5[1].sk))),
                        _ => monitored(|| F1024::sig_to_bytes(&F1024::sign(m, &keys6[0].sk))),
                    };
                    if let Ok(b) = b {
                        sized.push(SaltRec { salt: b[1..41].to_vec(), sig_hash: crate::util::hash64(&b), ctx: format!("message of {} bytes, call {} of the equal-length sequence (key/variant {})", l, ci, which) });
                    }
                }
            }
        }
        rep.count("signatures_in_equal_length_sequences", sized.len() as u64);
        check_history("equal-length message sequences (0 B .. 200 kB) in one thread", &sized, rep);
        rep.nontrivial_s("history|equal-length-sequences");
        all.extend(sized);
    }
    // back-to-back in one thread
    let (keys, _) = pool::keys::<F512>(ctx.seed, "c08", 1);
    if let Some(k) = keys.first() {
        vh::set_sign_rng(None);
        let a = F512::sig_to_bytes(&F512::sign(b"twice", &k.sk));
        let b = F512::sig_to_bytes(&F512::sign(b"twice", &k.sk));
        rep.evaluations += 2;
        if a[1..41] == b[1..41] || a == b {
            rep.violation("salt:repeated", "signing the same message twice in a row gave the same salt".into(), json!({"history": "back-to-back", "salt": hex(&a[1..41])}));
        }
        rep.count("back_to_back_pairs", 1);
    }
    rep.require("salts_checked", 10_000);
}

/// Child mode: sign the same (message, key) `count` times and print the salts.
pub fn child(ctx: &Ctx, rep: &mut Report) {
    let count: usize = ctx.args.first().and_then(|s| s.parse().ok()).unwrap_or(50);
    let (keys, _) = pool::keys_from::<F512>(&[crate::util::counter_seed(8)]);
    vh::set_sign_rng(None);
    if let Some(k) = keys.first() {
        for _ in 0..count {
            let b = F512::sig_to_bytes(&F512::sign(b"same message in every process", &k.sk));
            rep.samples.push(json!(hex(&b[1..41])));
            rep.evaluations += 1;
        }
    }
}

/// K processes started together, each signing the same (message, key).
pub fn processes(ctx: &Ctx, rep: &mut Report) {
    let k = ctx.sz(6, 16);
    let per = ctx.sz(60, 400);
    let exe = std::env::current_exe().expect("exe");
    let dir = std::env::temp_dir().join(format!("vf-c08-{}", std::process::id()));
    let _ = std::fs::create_dir_all(&dir);
    let mut children = vec![];
    for i in 0..k {
        let out = dir.join(format!("child-{}.json", i));
        let c = std::process::Command::new(&exe)
            .args(["run", "C08", "child", "--seed", &ctx.seed.to_string(), "--out", out.to_str().unwrap(), "--", &per.to_string()])
            .spawn();
        match c {
            Ok(c) => children.push((c, out)),
            Err(e) => rep.inconclusive(format!("cannot spawn child: {}", e)),
        }
    }
    let mut recs = vec![];
    for (i, (mut c, out)) in children.into_iter().enumerate() {
        let st = c.wait();
        let text = std::fs::read_to_string(&out).unwrap_or_default();
        let v: Value = serde_json::from_str(&text).unwrap_or(Value::Null);
        match v["samples"].as_array() {
            Some(a) if st.map(|s| s.success()).unwrap_or(false) => {
                // the Report keeps every sample pushed directly
                for (j, s) in a.iter().enumerate() {
                    recs.push(SaltRec { salt: unhex(s.as_str().unwrap_or("")), sig_hash: (i * 1_000_000 + j) as u64, ctx: format!("process {} call {}", i, j) });
                }
                rep.count("child_processes", 1);
            }
            _ => rep.inconclusive(format!("child {} produced no salts", i)),
        }
    }
    let _ = std::fs::remove_dir_all(&dir);
    check_history(&format!("{} processes signing the same (message, key)", k), &recs, rep);
    rep.nontrivial_s("history|processes");
    for i in 0..k {
        rep.nontrivial_s(&format!("process|{}", i));
    }
    rep.sample(json!({"processes": k, "salts_per_process": per, "distinct_salts": rep.get("distinct_salts")}));
    rep.require("child_processes", 2);
}

/// Salts recorded by the hook-free build (harness-plain): one hex salt per line.
pub fn check_file(ctx: &Ctx, rep: &mut Report) {
    let path = match ctx.args.first() {
        Some(p) => p.clone(),
        None => {
            rep.inconclusive("no salt file given".into());
            return;
        }
    };
    let text = std::fs::read_to_string(&path).unwrap_or_default();
    let recs: Vec<SaltRec> = text
        .lines()
        .filter(|l| l.len() >= 80)
        .enumerate()
        .map(|(i, l)| {
            let mut it = l.split_whitespace();
            let salt = unhex(it.next().unwrap_or(""));
            let sh = it.next().and_then(|s| u64::from_str_radix(s, 16).ok()).unwrap_or(i as u64);
            SaltRec { salt, sig_hash: sh, ctx: format!("plain build line {}", i) }
        })
        .collect();
    check_history("hook-free build (verif-hooks feature off)", &recs, rep);
    rep.nontrivial_s("history|plain-build");
    rep.nontrivial_s("history|plain-build-2");
    if let Some(r) = recs.first() {
        rep.sample(json!({"build": "falcon-rust without the verif-hooks feature", "first_salt": hex(&r.salt), "history_size": recs.len()}));
    }
    rep.require("salts_checked", 1000);
}
