//! Monitoring the monitors: known answers for the reference models. A failure here makes
//! a check *inconclusive* (the oracle cannot be trusted), never a violation.

use rand::Rng;

use crate::fv::{reframe_to_pq, Fv, F1024, F512};
use crate::gen;
use crate::refs::{keccak, sampler as rs, spec};
use crate::util::{hex, rng_for, Ctx, Report};

fn expect(rep: &mut Report, name: &str, ok: bool) {
    rep.evaluations += 1;
    if ok {
        rep.count("selftest_ok", 1);
        rep.nontrivial_s(name);
    } else {
        rep.inconclusive(format!("selftest failed: {}", name));
    }
}

pub fn run(ctx: &Ctx, rep: &mut Report) {
    // SHAKE-256 known answers (generated with python hashlib / OpenSSL)
    expect(rep, "shake-empty", hex(&keccak::shake256(b"", 32)) == "46b9dd2b0ba88d13233b3feb743eeb243fcd52ea62b81b82b50c27646ed5762f");
    expect(rep, "shake-abc", hex(&keccak::shake256(b"abc", 32)) == "483366601360a8771c6863080cc4114d8db44530f8f1e1ee4f94ea37e78b5739");
    expect(rep, "shake-abc-200", hex(&keccak::shake256(b"abc", 200)[184..]) == "e6f3b5d710ed3b677513771af6bfe119");
    let m: Vec<u8> = (0..768).map(|i| (i % 256) as u8).collect();
    expect(rep, "shake-135", hex(&keccak::shake256(&m[..135], 16)) == "c45dae624ad8a2f5aa7bac9d7557737f");
    expect(rep, "shake-136", hex(&keccak::shake256(&m[..136], 16)) == "b7ff4073b3f5a8eabd6e17705ca7f676");
    expect(rep, "shake-137", hex(&keccak::shake256(&m[..137], 16)) == "01d90952c642a5eb2a8fc9d713f843a4");
    expect(rep, "shake-272", hex(&keccak::shake256(&m[..272], 16)) == "8379a36d10791291fbc946794bf80095");
    // HashToPoint: first coefficients quoted in the specification's test vectors
    let h = spec::hash_to_point(b"", 512);
    expect(rep, "h2p-empty-512", h[..8] == [5816, 7463, 2984, 11537, 9019, 4074, 5180, 11040]);
    let h = spec::hash_to_point(b"", 1024);
    expect(rep, "h2p-empty-1024", h[1016..] == [5408, 12128, 8291, 10636, 6756, 8679, 7585, 9091]);
    let h = spec::hash_to_point(b"falcon", 512);
    expect(rep, "h2p-falcon-512", h[508..] == [1198, 10448, 5032, 9043]);

    // reference codec round trip
    let mut rng = rng_for(ctx.seed, "selftest");
    let mut ok = true;
    for _ in 0..200 {
        let n = rng.gen_range(1..40);
        let v: Vec<i64> = (0..n)
            .map(|_| {
                let mag = if rng.gen_bool(0.2) { rng.gen_range(0..12160) } else { rng.gen_range(0..400) };
                if rng.gen() {
                    mag
                } else {
                    -mag
                }
            })
            .collect();
        let bits = spec::compressed_bits(&v);
        let l = (bits + 7) / 8 + rng.gen_range(0..3);
        let x = spec::compress(&v, l);
        ok &= x.is_some() && spec::decompress(x.as_ref().unwrap(), n) == Some(v.clone());
        if bits > 8 {
            ok &= spec::compress(&v, (bits - 1) / 8).is_none() || (bits - 1) / 8 * 8 >= bits;
        }
    }
    expect(rep, "codec-roundtrip", ok);
    expect(rep, "codec-negzero", spec::decompress(&[0x80, 0x80], 1).is_none());
    expect(rep, "codec-padding", spec::decompress(&[0x00, 0xC0], 1).is_none() && spec::decompress(&[0x00, 0x80], 1) == Some(vec![0]));

    // ring arithmetic: psi, dft/idft, inverse
    let mut ok = true;
    for &n in &[2usize, 8, 64, 512] {
        let psi = spec::find_psi(n);
        ok &= spec::powm(psi, n as i64) == spec::Q - 1;
        let a: Vec<i64> = (0..n).map(|_| rng.gen_range(0..spec::Q)).collect();
        let b: Vec<i64> = (0..n).map(|_| rng.gen_range(0..spec::Q)).collect();
        ok &= spec::idft_q(&spec::dft_q(&a, psi), psi) == a;
        let ab = spec::negamul_mod(&a, &b);
        let ha = spec::dft_q(&a, psi);
        let hb = spec::dft_q(&b, psi);
        let hab: Vec<i64> = ha.iter().zip(hb.iter()).map(|(x, y)| x * y % spec::Q).collect();
        ok &= spec::idft_q(&hab, psi) == ab;
        if let Some(inv) = spec::ring_inverse(&a) {
            let one = spec::negamul_mod(&a, &inv);
            ok &= one[0] == 1 && one[1..].iter().all(|&x| x == 0);
        }
    }
    expect(rep, "ring", ok);

    // RCDT transcription sanity: tail sums of the half-Gaussian of sigma_max, scaled 2^72
    let sm = rs::SIGMA_MAX;
    let w: Vec<f64> = (0..40).map(|k| (-((k * k) as f64) / (2.0 * sm * sm)).exp()).collect();
    let tot: f64 = w.iter().sum();
    let mut ok = true;
    let two72 = 4722366482869645213696.0f64;
    for i in 0..18 {
        let tail: f64 = w[i + 1..].iter().sum::<f64>() / tot;
        let want = tail * two72;
        let got = rs::RCDT[i] as f64;
        let rel = ((got - want) / want).abs();
        ok &= rel < 1e-6 || (got - want).abs() <= 2.0;
    }
    expect(rep, "rcdt-sanity", ok);
    // ApproxExp against 2^63 * ccs * exp(-x)
    let mut ok = true;
    let mut worst = 0.0f64;
    for _ in 0..2000 {
        let x = rng.gen::<f64>() * rs::LN2;
        let ccs = 0.3 + 0.7 * rng.gen::<f64>();
        let got = rs::approx_exp(x, ccs) as f64;
        let want = 9223372036854775808.0 * ccs * (-x).exp();
        let rel = ((got - want) / want).abs();
        worst = worst.max(rel);
        ok &= rel < 1e-13; // 2^-44 = 5.7e-14 is the design accuracy; f64 reference adds ~1e-16
    }
    rep.stat_set("selftest_approx_exp_worst_rel", worst);
    expect(rep, "approx-exp", ok);
    let (_, p) = rs::pmf(0.3, 1.5, 40);
    expect(rep, "pmf-sums-to-1", (p.iter().sum::<f64>() - 1.0).abs() < 1e-12);
    expect(rep, "chi2-p", (rs::chi2_p(10.0, 10) - 0.440493).abs() < 1e-4 && (rs::chi2_p(30.0, 10) - 0.000857).abs() < 1e-5);

    // spec_verify against PQClean on honest, mutated and exact-boundary triples
    #[cfg(feature = "pq")]
    {
        pq_cross::<F512>(ctx, rep);
        if ctx.thorough() {
            pq_cross::<F1024>(ctx, rep);
        }
    }
    let _ = reframe_to_pq;
    let _ = gen::MSG_SHAPES;
    let _ = F1024::N;
}

#[cfg(feature = "pq")]
fn pq_cross<V: Fv>(ctx: &Ctx, rep: &mut Report) {
    let mut rng = rng_for(ctx.seed, "selftest-pq");
    let n = V::N;
    // honest PQClean signatures under a PQClean key, and mutated ones
    let (pk, sk) = V::pq_keypair();
    let h = spec::pk_fields(&pk[1..]);
    let mut agree = true;
    let mut accepts = 0;
    let mut rejects = 0;
    for i in 0..24 {
        let msg: Vec<u8> = (0..i * 7).map(|x| x as u8).collect();
        let sig = V::pq_sign(&msg, &sk).unwrap();
        let mut body = sig[41..].to_vec();
        body.resize(V::SIG_LEN - 41, 0);
        let r0 = spec::verify_traced(&msg, &sig[1..41], &body, &h).0;
        let p0 = V::pq_verify(&sig, &msg, &pk) == Some(true);
        agree &= r0 == p0 && r0;
        accepts += r0 as u32;
        // mutate one bit of the message / salt
        let mut m2 = msg.clone();
        m2.push(1);
        let r1 = spec::verify_traced(&m2, &sig[1..41], &body, &h).0;
        let p1 = V::pq_verify(&sig, &m2, &pk) == Some(true);
        agree &= r1 == p1;
        rejects += (!r1) as u32;
    }
    expect(rep, &format!("spec-verify-vs-pqclean-honest-{}", V::NAME), agree && accepts == 24 && rejects == 24);
    // exact boundary: PQClean accepts norm = bound, rejects bound+1
    let mut ok = true;
    let mut built = 0;
    for (k, d) in [-1i64, 0, 1, -1, 0, 1].iter().enumerate() {
        if let Some(c) = gen::craft_exact(n, V::BOUND + d, k as u32 % 2, &mut rng) {
            if c.s2.iter().any(|x| x.abs() > 2047) {
                continue;
            }
            built += 1;
            let body = spec::compress(&c.s2, V::SIG_LEN - 41).unwrap();
            let pkb = spec::pk_encode(&c.h);
            let r = spec::verify_traced(&c.msg, &c.salt, &body, &c.h);
            let mut sig = vec![0x30 + V::LOGN];
            sig.extend_from_slice(&c.salt);
            sig.extend_from_slice(&body);
            while *sig.last().unwrap() == 0 {
                sig.pop();
            }
            let p = V::pq_verify(&sig, &c.msg, &pkb);
            ok &= r.0 == (*d <= 0) && p == Some(*d <= 0) && r.1 == spec::VerifyTrace::Norm(V::BOUND + d);
        }
    }
    expect(rep, &format!("spec-verify-vs-pqclean-boundary-{}", V::NAME), ok && built >= 4);
    let _ = F512::N;
}
