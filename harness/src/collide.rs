//! Fingerprint collisions. A cache, memo or "same as last time?" shortcut that recognises its
//! input by anything less than the whole input returns stale results for two different inputs
//! with the same fingerprint. Random workloads meet such a pair with probability 2^-32 or less;
//! this module *searches* pairs that collide under the cheap fingerprints a programmer reaches
//! for (length is always equal): byte sum, byte xor, std's DefaultHasher truncated to either
//! 32-bit half (fed with `write` or through `Hash for [u8]`), FNV-1a-32, CRC-32, Adler-32, djb2,
//! first/last 8 bytes. Only the harness uses these functions; nothing here is an oracle.

use std::collections::HashMap;
use std::hash::{Hash, Hasher};

fn dh_write(b: &[u8]) -> u64 {
    #[allow(deprecated)]
    let mut h = std::collections::hash_map::DefaultHasher::new();
    h.write(b);
    h.finish()
}

fn dh_hash(b: &[u8]) -> u64 {
    let mut h = std::collections::hash_map::DefaultHasher::new();
    b.hash(&mut h);
    h.finish()
}

fn dh_vec(b: &[u8]) -> u64 {
    let mut h = std::collections::hash_map::DefaultHasher::new();
    b.to_vec().hash(&mut h);
    h.finish()
}

fn fnv1a32(b: &[u8]) -> u32 {
    let mut h: u32 = 0x811c9dc5;
    for &x in b {
        h ^= x as u32;
        h = h.wrapping_mul(0x01000193);
    }
    h
}

fn crc32(b: &[u8]) -> u32 {
    let mut c: u32 = !0;
    for &x in b {
        c ^= x as u32;
        for _ in 0..8 {
            c = if c & 1 == 1 { (c >> 1) ^ 0xEDB88320 } else { c >> 1 };
        }
    }
    !c
}

fn adler32(b: &[u8]) -> u32 {
    let (mut a, mut s) = (1u32, 0u32);
    for &x in b {
        a = (a + x as u32) % 65521;
        s = (s + a) % 65521;
    }
    (s << 16) | a
}

fn djb2(b: &[u8]) -> u32 {
    let mut h: u32 = 5381;
    for &x in b {
        h = h.wrapping_mul(33).wrapping_add(x as u32);
    }
    h
}

pub const NAMES: [&str; 13] = ["byte-sum", "byte-xor", "siphash-write-lo32", "siphash-write-hi32", "siphash-hash-lo32", "siphash-hash-hi32", "fnv1a32", "crc32", "adler32", "djb2", "first8", "head32+tail8", "sum+xor"];

/// All fingerprints of a byte string, in the order of `NAMES`.
pub fn fingerprints(b: &[u8]) -> [u64; 13] {
    let sum: u64 = b.iter().map(|&x| x as u64).sum();
    let xor = b.iter().fold(0u8, |a, &x| a ^ x) as u64;
    let w = dh_write(b);
    let h = dh_hash(b);
    debug_assert_eq!(h, dh_vec(b));
    let first8 = b.iter().take(8).fold(0u64, |a, &x| (a << 8) | x as u64);
    // first 32 and last 8 bytes together (the middle of the string is ignored); for strings of
    // at most 40 bytes this is the whole string
    let last8 = {
        let mut h = std::collections::hash_map::DefaultHasher::new();
        h.write(&b[..b.len().min(32)]);
        h.write(&b[b.len().saturating_sub(8)..]);
        h.finish()
    };
    [sum, xor, w & 0xffff_ffff, w >> 32, h & 0xffff_ffff, h >> 32, fnv1a32(b) as u64, crc32(b) as u64, adler32(b) as u64, djb2(b) as u64, first8, last8, (sum << 8) | xor]
}

/// Among `cands` (all of one length, pairwise different) find up to `per` colliding pairs for
/// every fingerprint. Returns (fingerprint name, index a, index b).
pub fn pairs(cands: &[Vec<u8>], per: usize) -> Vec<(&'static str, usize, usize)> {
    let mut out = vec![];
    let fps: Vec<[u64; 13]> = cands.iter().map(|c| fingerprints(c)).collect();
    for (k, name) in NAMES.iter().enumerate() {
        let mut seen: HashMap<u64, usize> = HashMap::new();
        let mut found = 0;
        for (i, f) in fps.iter().enumerate() {
            match seen.get(&f[k]) {
                Some(&j) if cands[j] != cands[i] => {
                    out.push((*name, j, i));
                    found += 1;
                    if found >= per {
                        break;
                    }
                }
                Some(_) => {}
                None => {
                    seen.insert(f[k], i);
                }
            }
        }
    }
    out
}

/// Generic version over caller-supplied numeric fingerprints (e.g. sums of coefficients).
pub fn pairs_by<T, F: Fn(&T) -> Vec<u64>>(cands: &[T], names: &[&'static str], f: F, per: usize) -> Vec<(&'static str, usize, usize)> {
    let fps: Vec<Vec<u64>> = cands.iter().map(|c| f(c)).collect();
    let mut out = vec![];
    for (k, name) in names.iter().enumerate() {
        let mut seen: HashMap<u64, usize> = HashMap::new();
        let mut found = 0;
        for (i, fp) in fps.iter().enumerate() {
            match seen.get(&fp[k]) {
                Some(&j) => {
                    out.push((*name, j, i));
                    found += 1;
                    if found >= per {
                        break;
                    }
                }
                None => {
                    seen.insert(fp[k], i);
                }
            }
        }
    }
    out
}

/// Streaming version: candidate `i` is produced by `gen(i)` (None = no such candidate) and not
/// kept; only the fingerprints are stored. Candidates must be regenerated by the caller for the
/// returned index pairs. Pairs whose regenerated strings are equal must be skipped by the caller.
pub fn pairs_streaming<F: Fn(usize) -> Option<Vec<u8>> + Sync>(n: usize, gen: F, per: usize) -> Vec<(&'static str, usize, usize)> {
    let table: std::sync::Mutex<Vec<(usize, [u64; 13], u64)>> = std::sync::Mutex::new(Vec::with_capacity(n));
    let chunks = 64usize;
    crate::util::par_for(chunks, crate::util::ncpu(), |ch, _| {
        let mut local = vec![];
        for i in (ch..n).step_by(chunks) {
            if let Some(b) = gen(i) {
                // a strong hash of the whole string tells equal candidates from colliding ones
                local.push((i, fingerprints(&b), crate::util::hash64(&b)));
            }
        }
        table.lock().unwrap().extend(local);
    });
    let mut t = table.into_inner().unwrap();
    t.sort_by_key(|x| x.0);
    let mut out = vec![];
    for (k, name) in NAMES.iter().enumerate() {
        let mut seen: HashMap<u64, (usize, u64)> = HashMap::new();
        let mut found = 0;
        for (i, f, strong) in t.iter() {
            match seen.get(&f[k]) {
                Some(&(j, sj)) if sj != *strong => {
                    out.push((*name, j, *i));
                    found += 1;
                    if found >= per {
                        break;
                    }
                }
                Some(_) => {}
                None => {
                    seen.insert(f[k], (*i, *strong));
                }
            }
        }
    }
    out
}
