#!/bin/bash
# usage: tools/try_mutant.sh <patch.diff> <tier> <prop> [<prop>...]
# Runs the registered checks of the given properties against /repo with the patch applied.
set -u
patch="$(readlink -f "$1")"; tier="$2"; shift 2
if ! git -C /repo diff --quiet; then echo "refusing: /repo working tree is dirty" >&2; exit 9; fi
git -C /repo apply "$patch" || { echo "patch does not apply" >&2; exit 9; }
mkdir -p /tmp/vf_ev_backup && cp -a /verif/evidence/. /tmp/vf_ev_backup/ 2>/dev/null
for p in "$@"; do
  out=$(cd /verif && ./vf check "$p" "$tier" 2>&1); rc=$?
  echo "[$p rc=$rc] $(echo "$out" | grep -E "VIOLATION|INCONCLUSIVE|KNOWN" | head -3 | tr '\n' ' ')"
  echo "$out" | grep -E "^  \[" | head -3
  echo "$out" | tail -1
done
git -C /repo checkout -- .
cp -a /tmp/vf_ev_backup/. /verif/evidence/ 2>/dev/null; rm -rf /tmp/vf_ev_backup
