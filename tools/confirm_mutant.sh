#!/bin/bash
# usage: tools/confirm_mutant.sh <worktree> <demo-file-in-OUT> [cargo test args for the demo]
# Confirms in the scratch worktree: patch applies to clean HEAD, builds with and without the
# feature, the crate's suite passes with it, the demo fails with it and passes without it.
set -u
wt="$1"; demo="$2"
cd "$wt" || exit 9
git checkout -q -- . 2>/dev/null; git clean -qfd falcon-rust/tests 2>/dev/null
git apply --check OUT/patch.diff || { echo "CONFIRM: patch does not apply"; exit 1; }
mkdir -p falcon-rust/tests; cp "OUT/$demo" falcon-rust/tests/vf_demo.rs
echo "--- demo WITHOUT patch"; cargo test --offline --release -p falcon-rust --features verif-hooks --test vf_demo 2>&1 | grep -E "^test |test result|error" | head -20
git apply OUT/patch.diff
echo "--- builds WITH patch"; cargo build --offline -p falcon-rust 2>&1 | grep -E "^error|Finished" ; cargo build --offline -p falcon-rust --features verif-hooks 2>&1 | grep -E "^error|Finished"
echo "--- demo WITH patch"; cargo test --offline --release -p falcon-rust --features verif-hooks --test vf_demo 2>&1 | grep -E "^test |test result|error" | head -20
rm -f falcon-rust/tests/vf_demo.rs
echo "--- suite WITH patch"; cargo test --offline -p falcon-rust --lib 2>&1 | grep -E "test result|FAILED|failed" | head
