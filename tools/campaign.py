#!/usr/bin/env python3
"""Mutation campaign: applies each hand-written mutant (a single textual edit of /repo) in turn,
runs the quick check(s) of the property it should break, restores /repo, and records whether a
VIOLATION was printed. Results: /verif/seeded/campaign_results.json.

usage: tools/campaign.py [name-substring ...]     (default: all)
The mutants are realistic slips (off-by-one, wrong constant, dropped check); each compiles.
They are NOT checked against the repository's own test-suite here (see DESIGN.md section 8 for
which ones survive it); the point is to measure what the monitors see.
"""
import json, os, subprocess, sys, time

R = "/repo/falcon-rust/src/"
M = [
    # name, property list, file, old, new
    ("c01-t1-sign", ["C01"], "falcon.rs", "let t1 = -c_over_q_fft.hadamard_mul(&f_fft);", "let t1 = c_over_q_fft.hadamard_mul(&f_fft);"),
    ("c01-s1-uses-g", ["C01"], "falcon.rs", "let s1 = t0_min_z0.hadamard_mul(&f_fft) + t1_min_z1.hadamard_mul(&capital_f_fft);", "let s1 = t0_min_z0.hadamard_mul(&g_fft) + t1_min_z1.hadamard_mul(&capital_f_fft);"),
    ("c01-norm-loop-no-continue", ["C01", "C10"], "falcon.rs", "if length_squared > (bound as f64) {", "if length_squared > (bound as f64) * 4.0 {"),
    ("c01-compress-budget", ["C01", "C05", "C16"], "falcon.rs", "params.sig_bytelen - 41,\n        );", "params.sig_bytelen - 40,\n        );"),
    ("c01-floor-s2", ["C01"], "falcon.rs", ".map(|a| a.re.round() as i16)", ".map(|a| a.re.floor() as i16)"),
    ("c02-bound-plus1", ["C02"], "falcon.rs", "sig_bound: 34034726,", "sig_bound: 34034727,"),
    ("c02-other-variants-bound", ["C02"], "falcon.rs", "sig_bound: 70265242,", "sig_bound: 70265243,"),
    ("c02-uncentred-s1", ["C02", "C01"], "falcon.rs", ".map(|i| i.balanced_value() as i64)\n        .map(|i| (i * i))", ".map(|i| i.value() as i64)\n        .map(|i| (i * i))"),
    ("c02-norm-s2-only", ["C02"], "falcon.rs", "        + s2.iter().map(|&i| i as i64).map(|i| (i * i)).sum::<i64>();\n    length_squared <= params.sig_bound", "        * 0 + s2.iter().map(|&i| i as i64).map(|i| (i * i)).sum::<i64>();\n    length_squared <= params.sig_bound"),
    ("c02-hash-m-then-r", ["C02", "C16"], "falcon.rs", "let r_cat_m = [sig.r.to_vec(), m.to_vec()].concat();", "let r_cat_m = [m.to_vec(), sig.r.to_vec()].concat();"),
    ("c03-sig-len-check", ["C03"], "falcon.rs", "let salt: [u8; 40] = byte_vector[1..=40].try_into().unwrap();", "let salt: [u8; 40] = byte_vector[1..=40].try_into().unwrap();\n        let _probe = byte_vector[byte_vector[0] as usize * 8];"),
    ("c03-sk-short", ["C03"], "falcon.rs", "if byte_vector.len() < 2 {", "if byte_vector.len() < 1 {"),
    ("c03-decompress-early-guard", ["C03", "C07"], "encoding.rs", "    for _ in 0..n - 1 {\n        // early return if\n        if index + 8 >= bitvector.len() {", "    for _ in 0..n - 1 {\n        // early return if\n        if index + 8 > bitvector.len() {"),
    ("c03-unary-guard", ["C03", "C07"], "encoding.rs", "if high_bits == 95 || index + 1 == bitvector.len() {", "if high_bits == 95 || index + 1 > bitvector.len() {"),
    ("c04-sqrt-dropped", ["C04", "C10", "C09"], "ffsampling.rs", "vector[0] = Complex::new(sigma / vector[0].re.sqrt(), 0.0);", "vector[0] = Complex::new(sigma / vector[0].re, 0.0);"),
    ("c04-gs-bound-relaxed", ["C04"], "math.rs", "if gamma > 1.3689f64 * (Q as f64) {", "if gamma > 1.45f64 * (Q as f64) {"),
    ("c04-basis-order", ["C04", "C01"], "falcon.rs", "[g, -f, capital_g, -capital_f]", "[g, -f, capital_g, capital_f]"),
    ("c04-pk-f-over-g", ["C04", "C01", "C16"], "falcon.rs", "let h_ntt = g_ntt.hadamard_div(&f_ntt);", "let h_ntt = f_ntt.hadamard_div(&g_ntt);"),
    ("c05-f-width", ["C05", "C16"], "falcon.rs", "                1024 => 5,\n                512 => 6,", "                1024 => 5,\n                512 => 7,"),
    ("c05-g-sign-on-decode", ["C05", "C04"], "falcon.rs", "            capital_g.map(|f| f.balanced_value()),\n            -capital_f.map(|f| f.balanced_value()),", "            -capital_g.map(|f| f.balanced_value()),\n            -capital_f.map(|f| f.balanced_value()),"),
    ("c06-header-lenient", ["C06"], "falcon.rs", "        if (header >> 4) != 5 {", "        if (header >> 5) != 2 {"),
    ("c06-reserved-accepted", ["C06"], "falcon.rs", "        if bits[0] && bits.iter().skip(1).all(|b| !b) {\n            return Err(FalconDeserializationError::BadFieldElementEncoding);\n        }", "        if false && bits[0] && bits.iter().skip(1).all(|b| !b) {\n            return Err(FalconDeserializationError::BadFieldElementEncoding);\n        }"),
    ("c06-pk-logn-lenient", ["C06"], "falcon.rs", "        if header != l as u8 {", "        if header & 0x0f != l as u8 {"),
    ("c06-sig-fixed-bit", ["C06"], "falcon.rs", "if (header >> 7) != 0 || ((header >> 4) & 1) == 0 {", "if ((header >> 4) & 1) == 0 {"),
    ("c07-negzero-dropped", ["C07", "C02"], "encoding.rs", "    if abort || (low_bits == 0 && high_bits == 0 && sign == -1) {", "    if abort {"),
    ("c07-padding-check-dropped", ["C07", "C02"], "encoding.rs", "    for &byte in x.iter().skip(index_div_8 + 1 - (index_mod_8 == 0) as usize) {\n        if byte != 0 {", "    for &byte in x.iter().skip(index_div_8 + 2 - (index_mod_8 == 0) as usize) {\n        if byte != 0 {"),
    ("c07-budget-compare", ["C07"], "encoding.rs", "    if total_length > byte_length * 8 {", "    if total_length >= byte_length * 8 {"),
    ("c08-salt-32-bytes", ["C08"], "falcon.rs", "    rng.fill_bytes(&mut r);\n\n    let params", "    rng.fill_bytes(&mut r[..32]);\n\n    let params"),
    ("c08-salt-from-msg", ["C08"], "falcon.rs", "    rng.fill_bytes(&mut r);\n\n    let params", "    rng.fill_bytes(&mut r);\n    for (i, b) in m.iter().take(40).enumerate() { r[i] = *b; }\n    if m.len() < 40 { for b in r.iter_mut().skip(m.len()) { *b = 7; } }\n\n    let params"),
    ("c09-rcdt-tail-entry", ["C09"], "samplerz.rs", "        28824,\n        198,", "        28824,\n        199,"),
    ("c09-rcdt-mid-entry", ["C09"], "samplerz.rs", "        8867391802663976,", "        8867391802663977,"),
    ("c09-c-constant", ["C09"], "samplerz.rs", "0x000680681CF796E3u64,", "0x000680681CF796E4u64,"),
    ("c09-round-mu", ["C09", "C10"], "samplerz.rs", "    let s = f64::floor(mu);", "    let s = f64::round(mu);"),
    ("c09-inv-2sigma", ["C09", "C10"], "samplerz.rs", "const SIGMA_MAX: f64 = 1.8205;", "const SIGMA_MAX: f64 = 1.8305;"),
    ("c09-no-rejection", ["C09", "C10"], "samplerz.rs", "        if ber_exp(x, ccs, rng.gen()) {", "        if ber_exp(x, ccs, rng.gen()) || true {"),
    ("c10-other-sigma", ["C10", "C04"], "falcon.rs", "                n: 512,\n                sigma: 165.7366171829776,", "                n: 512,\n                sigma: 168.38857144654395,"),
    ("c10-wrong-leaf", ["C10"], "ffsampling.rs", "let z1 = sampler_z(t.1.coefficients[0].re, value[0].re, parameters.sigmin, rng);", "let z1 = sampler_z(t.1.coefficients[0].re, value[0].re * 1.03, parameters.sigmin, rng);"),
    ("c11-table-entry", ["C11"], "fast_fft.rs", "    Felt::new(8246),\n    Felt::new(5146),", "    Felt::new(8246),\n    Felt::new(5147),"),
    ("c11-ninv", ["C11"], "fast_fft.rs", "const FELT_NINV_64: Felt = Felt::new(12097);", "const FELT_NINV_64: Felt = Felt::new(12098);"),
    ("c12-add-reduce", ["C12"], "falcon_field.rs", "        let (r, _) = d.overflowing_add(Q * (n as u32));\n        Felt(r)", "        let (r, _) = d.overflowing_add(Q * ((n && s != Q - 1) as u32));\n        Felt(r)"),
    ("c12-balanced", ["C12"], "falcon_field.rs", "let g = (value > ((Q as i16) / 2)) as i16;", "let g = (value >= ((Q as i16) / 2)) as i16;"),
    ("c13-ifft-no-conj", ["C13"], "fast_fft.rs", "            .take(n)\n            .map(|c| Complex64::new(c.re, -c.im))\n            .collect_vec();\n        let ninv", "            .take(n)\n            .map(|c| Complex64::new(c.re, -c.im * 0.9999999))\n            .collect_vec();\n        let ninv"),
    ("c14-threshold-le", ["C14"], "polynomial.rs", "        if t < K * Q {", "        if t <= K * Q {"),
    ("c14-little-endian", ["C14", "C16"], "polynomial.rs", "let t = ((randomness[0] as u32) << 8) | (randomness[1] as u32);", "let t = ((randomness[1] as u32) << 8) | (randomness[0] as u32);"),
    ("c15-seed-prefix", ["C15"], "falcon.rs", "    pub(crate) fn gen_b0(seed: [u8; 32]) -> [Polynomial<i16>; 4] {\n        let mut rng: StdRng = SeedableRng::from_seed(seed);", "    pub(crate) fn gen_b0(seed: [u8; 32]) -> [Polynomial<i16>; 4] {\n        let mut seed = seed;\n        seed[31] &= 0x7f;\n        let mut rng: StdRng = SeedableRng::from_seed(seed);"),
    ("c15-thread-rng-mixed", ["C15"], "math.rs", "            .map(|_| sampler_z(mu, sigma_star, sigma_star - 0.001, rng))", "            .map(|_| sampler_z(mu + (rand::random::<u8>() == 255 && rand::random::<u8>() > 250) as u8 as f64, sigma_star, sigma_star - 0.001, rng))"),
    ("c17-round-to-floor", ["C17"], "math.rs", "        let k_ntt = quotient.map(|f| U32Field::new(f.re.round() as i32)).fft();", "        let k_ntt = quotient.map(|f| U32Field::new(f.re.floor() as i32)).fft();"),
    ("c17-plain-value", ["C17", "C04"], "math.rs", "        let kf = kf_ntt.map(|p| p.balanced_value());", "        let kf = kf_ntt.map(|p| p.value());"),
    ("c17-bigint-sign", ["C17"], "math.rs", "        *capital_g -= shifted_kg;", "        *capital_g -= shifted_kg.clone();\n        if counter == 7 { *capital_g -= shifted_kg; }"),
]


def sh(cmd, **kw):
    return subprocess.run(cmd, shell=True, stdout=subprocess.PIPE, stderr=subprocess.STDOUT, text=True, **kw)


def main():
    sel = sys.argv[1:]
    out_path = "/verif/seeded/campaign_results.json"
    results = json.load(open(out_path)) if os.path.exists(out_path) else {}
    lock = "/tmp/vf_campaign.lock"
    if os.path.exists(lock) and os.path.exists("/proc/%s" % open(lock).read().strip()):
        print("another campaign is running")
        return 1
    open(lock, "w").write(str(os.getpid()))
    if sh("git -C /repo diff --quiet").returncode != 0:
        print("refusing: /repo dirty")
        return 1
    sh("mkdir -p /tmp/vf_ev_backup && cp -a /verif/evidence/. /tmp/vf_ev_backup/")
    for name, props, f, old, new in M:
        if sel and not any(s in name for s in sel):
            continue
        path = R + f
        src = open(path).read()
        if src.count(old) != 1:
            print("%-28s SKIP: pattern occurs %d times" % (name, src.count(old)))
            results[name] = {"status": "pattern-mismatch"}
            continue
        open(path, "w").write(src.replace(old, new))
        t0 = time.time()
        b = sh("cd /repo && cargo build --offline -p falcon-rust --features verif-hooks 2>&1 | grep -E '^error' | head -3")
        entry = {"file": f, "props": {}, "old": old, "new": new}
        if b.stdout.strip():
            entry["status"] = "does-not-compile"
            print("%-28s does not compile: %s" % (name, b.stdout.strip()[:100]))
        else:
            for p in props:
                r = sh("cd /verif && timeout 900 ./vf check %s quick" % p)
                lines = [l for l in r.stdout.splitlines() if l.startswith("VIOLATION") or l.startswith("INCONCLUSIVE")]
                detail = [l.strip() for l in r.stdout.splitlines() if l.startswith("  [")][:1]
                verdict = "caught" if any(l.startswith("VIOLATION") for l in lines) else ("inconclusive" if lines else "missed")
                entry["props"][p] = {"verdict": verdict, "first": (detail[0][:220] if detail else "")}
                print("%-28s %s: %-12s %s" % (name, p, verdict, (detail[0][:150] if detail else "")))
            entry["status"] = "ran"
        entry["wall_s"] = round(time.time() - t0, 1)
        results[name] = entry
        open(path, "w").write(src)
        sh("git -C /repo checkout -- .")
        json.dump(results, open(out_path, "w"), indent=1)
    sh("cp -a /tmp/vf_ev_backup/. /verif/evidence/; rm -rf /tmp/vf_ev_backup")
    return 0


if __name__ == "__main__":
    sys.exit(main())
