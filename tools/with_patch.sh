#!/bin/bash
# usage: tools/with_patch.sh <patch.diff> <command...>
# Applies a seeded change to /repo's working tree, runs the command, and always restores.
set -u
patch="$(readlink -f "$1")"; shift
if ! git -C /repo diff --quiet; then echo "refusing: /repo working tree is dirty" >&2; exit 9; fi
git -C /repo apply "$patch" || { echo "patch does not apply" >&2; exit 9; }
"$@"; rc=$?
git -C /repo checkout -- . 
exit $rc
