#!/bin/bash
# usage: tools/leg.sh <prop> <leg> [profile] [tier]   -- compact summary of one leg (no rebuild)
prof=${3:-release}; tier=${4:-quick}
/usr/bin/time -f "%es %MKB" /verif/harness/target/$prof/vfh run $1 $2 --tier $tier --seed ${VERIF_SEED:-1} --profile $prof > /tmp/leg_out.json || { echo "leg failed"; exit 1; }
python3 -c "
import json,sys; d=json.load(open('/tmp/leg_out.json')); print(d['leg'], 'evals',d['evaluations'], 'distinct',d['distinct_nontrivial'], d['counters'], d['stats'], 'VIOL',d['violation_counts'], 'INC',d['inconclusive'])
for v in d['violations'][:6]: print('  ',v['signature'], v['detail'][:300])"
