#!/usr/bin/env python3
"""usage: tools/keep_mutant.py <id> <property> <demo file in OUT> "<needs>" "<what I ran / result>"
Copies a confirmed seeded change from its scratch worktree /tmp/mut/<id>/OUT into /verif/seeded/<id>/."""
import json, os, shutil, sys
mid, prop, demo, needs, ran = sys.argv[1:6]
src = "/tmp/mut/%s/OUT" % mid
dst = "/verif/seeded/%s" % mid
os.makedirs(dst, exist_ok=True)
shutil.copy(os.path.join(src, "patch.diff"), os.path.join(dst, "patch.diff"))
shutil.copy(os.path.join(src, demo), os.path.join(dst, demo))
if os.path.exists(os.path.join(src, "NOTES.md")):
    shutil.copy(os.path.join(src, "NOTES.md"), os.path.join(dst, "NOTES.md"))
meta = {"id": mid, "breaks_property": prop, "origin": "independent sub-agent given only the property text and a scratch worktree",
        "demonstration": demo, "needs_to_manifest": needs, "confirmed_by_me": ran}
json.dump(meta, open(os.path.join(dst, "meta.json"), "w"), indent=1)
print("kept", dst)
