#!/usr/bin/env python3
"""usage: tools/mk_prompt.py <new-id> [<new-id> ...]   e.g. C08d
Creates a scratch worktree /tmp/mut/<id> of /repo HEAD and writes /tmp/mut/prompt_<id>.txt: the
template, the property's text (only), and the situations earlier seeded changes needed."""
import glob, json, os, subprocess, sys
HERE = os.path.dirname(os.path.abspath(__file__))
T = open(HERE + "/PROMPT_TEMPLATE.txt").read()
PROPS = {json.loads(l)["id"]: json.loads(l) for l in open("/verif/properties.jsonl") if l.strip()}
os.makedirs("/tmp/mut", exist_ok=True)
for mid in sys.argv[1:]:
    prop = mid[:3]
    wt = "/tmp/mut/%s" % mid
    if not os.path.exists(wt):
        subprocess.check_call(["git", "-C", "/repo", "worktree", "add", "--detach", "-q", wt, "HEAD"])
    os.makedirs(wt + "/OUT", exist_ok=True)
    text = "%s\n%s\n(%s)" % (PROPS[prop]["title"], PROPS[prop]["statement"], PROPS[prop]["quantifier"]["text"])
    prev = []
    for d in sorted(glob.glob("/verif/seeded/%s*/meta.json" % prop)) + sorted(glob.glob("/verif/seeded/revert-*/meta.json")):
        m = json.load(open(d))
        if m.get("breaks_property") == prop:
            prev.append(m["needs_to_manifest"])
    p = T.replace("WORKTREE", wt).replace("PROPERTY_TEXT", text)
    p += "\n\nADDITIONAL REQUIREMENT for this instance: several engineers have already produced changes for this property. The situations THEIR changes needed in order to manifest were: " + " || ".join(prev) + ". Yours must be of a DIFFERENT kind, live in a different mechanism/site, and need a DIFFERENT kind of situation. Make it HARD to find: prefer a defect that needs two cooperating conditions, a particular sequence of calls, state carried between calls, a value at the exact edge of a range in one variant or one size only, or two code sites that each look fine alone. Assume the checker already uses: exhaustive small cases, boundary values of every field, structured hostile inputs, forced retry branches, call histories mixing both parameter sets and all operations in fresh threads, searches for inputs that collide under cheap fingerprints (byte sums, std hashers, CRCs), long-lived threads with tens of thousands of calls, child processes with different environments and CPU sets, values steered to the exact edge of every documented range (including key-generation candidates and signature coefficients steered into their far tails through the randomness source), keys and inputs of one parameter set re-used in the other (zero-padded, doubled, truncated), fresh processes whose first operation is made by many threads at once, sizes far beyond what the library itself uses (10^5 elements, 10^5-bit encodings), objects compared and re-encoded after they have been used, every input offered twice in a row and rejected inputs followed by valid ones, operations run while a thread is being torn down, builds of the library without optimisation, complete key-generation candidates dictated through the randomness source (including ones that vanish at a chosen NTT slot or have a chosen norm), generator streams that agree only on small windows, tens of thousands of fresh processes, hundreds of thousands of repetitions of one call, inputs placed at odd memory offsets, shared objects first used by many threads at once, caught panics between calls, processes paused for minutes, counts of created objects around powers of two, complex-valued and nearly-symmetric transform inputs, operands solved from congruences to hit carry edges, every message length up to 8 KiB, signatures made while a thread unwinds, centres a hair below integers, single tall coefficients around every bound, many threads, several hundred keys, and statistical tests over thousands of signatures. It must still be demonstrable by your test in reasonable time (a few minutes at most). IMPORTANT: base your work on the current HEAD of the worktree (it already contains extra commits that only add code under the verif-hooks feature)."
    open("/tmp/mut/prompt_%s.txt" % mid, "w").write(p)
    print(mid, len(prev), "previous")
