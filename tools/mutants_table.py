#!/usr/bin/env python3
"""Print the markdown tables of DESIGN.md section 8.4 from seeded/*/meta.json and
seeded/campaign_results.json."""
import json, os, glob
root = "/verif/seeded"
print("| id | breaks | origin | needs to manifest | caught by |")
print("|---|---|---|---|---|")
for d in sorted(glob.glob(root + "/*/meta.json")):
    m = json.load(open(d))
    caught = m.get("caught_by") or m.get("confirmed_by_me", "")
    org = "sub-agent" if "sub-agent" in m.get("origin", "") else "reverse of a fix: commit"
    print("| %s | %s | %s | %s | %s |" % (m["id"], m["breaks_property"], org, m.get("needs_to_manifest", "").replace("|", "/"), caught.replace("|", "/")))
print()
p = root + "/campaign_results.json"
if os.path.exists(p):
    r = json.load(open(p))
    print("| hand-written mutant | file | result per property (quick tier) |")
    print("|---|---|---|")
    for k, v in r.items():
        if v.get("status") != "ran":
            print("| %s | %s | %s |" % (k, v.get("file", ""), v.get("status")))
            continue
        res = "; ".join("%s: %s" % (p_, x["verdict"]) for p_, x in v["props"].items())
        print("| %s | %s | %s |" % (k, v["file"], res))
