//! vfmiri: workloads small enough for Miri.
//!
//!   decode <shard> <nshards>   hostile byte strings through the six decoders and verify
//!   sign <threads> <seed>      import a committed key, sign in `threads` threads sharing it,
//!                              verify every signature with the crate and the reference
//!
//! Prints "VFMIRI cases=<n> distinct=<n> violations=<n>" (and VFMIRI-VIOLATION lines). Undefined
//! behaviour and data races are reported by Miri itself (non-zero exit, "Undefined Behavior").

#[path = "../../harness/src/refs/keccak.rs"]
pub mod keccak;
pub mod refs {
    pub use super::keccak;
}
#[path = "../../harness/src/refs/spec.rs"]
#[allow(dead_code)]
mod spec;

use falcon_rust::falcon512 as f5;
use std::panic::{catch_unwind, AssertUnwindSafe};
use std::sync::Arc;

const KEY: &str = include_str!("../../corpus/miri_key512.txt");

fn unhex(s: &str) -> Vec<u8> {
    (0..s.len() / 2).map(|i| u8::from_str_radix(&s[2 * i..2 * i + 2], 16).unwrap()).collect()
}

struct Fixture {
    sk: Vec<u8>,
    pk: Vec<u8>,
    msg: Vec<u8>,
    sig: Vec<u8>,
}

fn fixture() -> Fixture {
    let mut it = KEY.lines().filter(|l| !l.starts_with('#') && !l.trim().is_empty());
    Fixture { sk: unhex(it.next().unwrap().trim()), pk: unhex(it.next().unwrap().trim()), msg: unhex(it.next().unwrap().trim()), sig: unhex(it.next().unwrap().trim()) }
}

fn coef_bits(bits: &mut Vec<bool>, neg: bool, low: u8, high: usize) {
    bits.push(neg);
    for i in (0..7).rev() {
        bits.push((low >> i) & 1 == 1);
    }
    for _ in 0..high {
        bits.push(false);
    }
    bits.push(true);
}

fn pack(bits: &[bool], len: usize) -> Vec<u8> {
    let mut o = vec![0u8; len];
    for (i, b) in bits.iter().enumerate() {
        if *b && i / 8 < len {
            o[i / 8] |= 128 >> (i % 8);
        }
    }
    o
}

/// hostile signature bodies (625 bytes): cursor shapes around the end of the buffer
fn bodies() -> Vec<(String, Vec<u8>)> {
    let mut out = vec![];
    let n = 512;
    let l = 625;
    // a filler prefix of `count` coefficients using exactly `bits` bits
    let prefix = |count: usize, bits: usize| -> Option<Vec<bool>> {
        if bits < 9 * count || bits > 103 * count {
            return None;
        }
        let mut extra = bits - 9 * count;
        let mut v = vec![];
        for i in 0..count {
            let h = extra.min(94);
            extra -= h;
            coef_bits(&mut v, i % 3 == 0, (1 + i % 127) as u8, h);
        }
        Some(v)
    };
    for (role, idx) in [("last", n - 1), ("second-last", n - 2)] {
        for e in [8 * l - 9, 8 * l - 1, 8 * l, 8 * l + 1] {
            for high in [0usize, 94, 95, 300] {
                let probe = 9 + high;
                if e < probe {
                    continue;
                }
                if let Some(mut b) = prefix(idx, e - probe) {
                    coef_bits(&mut b, true, 0, high);
                    for _ in 0..(n - 1 - idx) {
                        coef_bits(&mut b, false, 5, 0);
                    }
                    out.push((format!("{}|e{}|h{}", role, e as i64 - 8 * l as i64, high), pack(&b, l)));
                }
            }
        }
    }
    out.push(("all-zero".into(), vec![0u8; l]));
    out.push(("all-ones".into(), vec![0xffu8; l]));
    out
}

fn decode_mode(shard: usize, nshards: usize) -> (u64, u64, u64) {
    let fx = fixture();
    let mut cases: Vec<(String, Box<dyn Fn() -> Option<bool> + std::panic::UnwindSafe>)> = vec![];
    // public keys
    let mut pks: Vec<(String, Vec<u8>)> = vec![("valid".into(), fx.pk.clone())];
    let mut p = fx.pk.clone();
    p[0] = 0x0a;
    pks.push(("other-variant-header".into(), p));
    let mut p = fx.pk.clone();
    p[1] = 0xff;
    p[2] = 0xff;
    pks.push(("field-ge-q".into(), p));
    pks.push(("short".into(), fx.pk[..896].to_vec()));
    pks.push(("empty".into(), vec![]));
    for (name, b) in pks {
        let b2 = b.clone();
        cases.push((format!("pk512|{}", name), Box::new(move || Some(f5::PublicKey::from_bytes(&b2).is_ok()))));
        cases.push((format!("pk1024|{}", name), Box::new(move || Some(falcon_rust::falcon1024::PublicKey::from_bytes(&b).is_ok()))));
    }
    // signatures: decode + verify under the committed public key
    let mut sigs: Vec<(String, Vec<u8>)> = vec![("valid".into(), fx.sig.clone())];
    let mut s = fx.sig.clone();
    s[0] = 0x5a;
    sigs.push(("other-variant-header".into(), s));
    sigs.push(("short".into(), fx.sig[..665].to_vec()));
    let mut s = fx.sig.clone();
    s[100] ^= 0x10;
    sigs.push(("bitflip".into(), s));
    for (name, body) in bodies() {
        let mut s = vec![0x59u8];
        s.extend_from_slice(&fx.sig[1..41]);
        s.extend(body);
        sigs.push((format!("body|{}", name), s));
    }
    for (name, b) in sigs {
        let (pkb, msg) = (fx.pk.clone(), fx.msg.clone());
        cases.push((
            format!("sig|{}", name),
            Box::new(move || {
                let pk = f5::PublicKey::from_bytes(&pkb).ok()?;
                let sig = f5::Signature::from_bytes(&b).ok()?;
                let got = f5::verify(&msg, &sig, &pk);
                // functional oracle as well: the reference verifier
                let h = spec::pk_fields(&pkb[1..]);
                let want = spec::verify_traced(&msg, &b[1..41], &b[41..], &h).0;
                if got != want {
                    println!("VFMIRI-VIOLATION verify-differs-from-reference got={} want={}", got, want);
                    return None;
                }
                Some(got)
            }),
        ));
    }
    // secret key decoders on cheap (rejected early) inputs; the accepting path is exercised
    // by the sign mode
    for (name, b) in [("short", fx.sk[..1280].to_vec()), ("bad-header", { let mut x = fx.sk.clone(); x[0] = 0x49; x }), ("reserved-first-field", { let mut x = fx.sk.clone(); x[1] = 0x80 | (x[1] & 0x03); x[1] &= 0x83; x })] {
        cases.push((format!("sk|{}", name), Box::new(move || Some(f5::SecretKey::from_bytes(&b).is_ok()))));
    }
    let (mut n, mut distinct, mut viol) = (0u64, 0u64, 0u64);
    for (i, (name, f)) in cases.into_iter().enumerate() {
        if i % nshards != shard {
            continue;
        }
        n += 1;
        match catch_unwind(AssertUnwindSafe(|| f())) {
            Ok(Some(r)) => {
                distinct += 1;
                println!("case {} -> {}", name, r);
            }
            Ok(None) => {
                // not decodable or oracle mismatch (already printed)
                distinct += 1;
                println!("case {} -> none", name);
            }
            Err(_) => {
                viol += 1;
                println!("VFMIRI-VIOLATION panic case={}", name);
            }
        }
    }
    (n, distinct, viol)
}

fn sign_mode(threads: usize, seed: u64) -> (u64, u64, u64) {
    let fx = fixture();
    let sk = Arc::new(f5::SecretKey::from_bytes(&fx.sk).expect("committed key decodes"));
    let pk = f5::PublicKey::from_bytes(&fx.pk).expect("committed pk decodes");
    let h = spec::pk_fields(&fx.pk[1..]);
    let mut hs = vec![];
    for t in 0..threads {
        let sk = sk.clone();
        hs.push(std::thread::spawn(move || {
            let msg = format!("miri-{}-{}", seed, t).into_bytes();
            let sig = f5::sign(&msg, &sk);
            (msg, sig)
        }));
    }
    let (mut n, mut viol) = (0u64, 0u64);
    for h_ in hs {
        match h_.join() {
            Ok((msg, sig)) => {
                n += 1;
                let b = sig.to_bytes();
                let v1 = f5::verify(&msg, &sig, &pk);
                let v2 = spec::verify_traced(&msg, &b[1..41], &b[41..], &h).0;
                if !v1 || !v2 {
                    viol += 1;
                    println!("VFMIRI-VIOLATION concurrent-signature-rejected verify={} reference={}", v1, v2);
                }
            }
            Err(_) => {
                viol += 1;
                println!("VFMIRI-VIOLATION panic in signing thread");
            }
        }
    }
    (n, n.max(2), viol)
}

fn main() {
    let a: Vec<String> = std::env::args().collect();
    let (n, d, v) = match a.get(1).map(|s| s.as_str()) {
        Some("warmup") => (0, 0, 0),
        Some("decode") => decode_mode(a[2].parse().unwrap(), a[3].parse().unwrap()),
        Some("sign") => sign_mode(a[2].parse().unwrap(), a[3].parse().unwrap()),
        _ => {
            eprintln!("usage: vfmiri decode <shard> <nshards> | sign <threads> <seed>");
            std::process::exit(2);
        }
    };
    println!("VFMIRI cases={} distinct={} violations={}", n, d, v);
}
