"""Per-property configuration of the checks: legs, build profiles, evidence texts."""

BOTH = ["release", "checked"]

CHECKS = {
    "C12": {
        "title": "arithmetic modulo q is exact and canonical",
        "rule": "Exhaustive differential monitor: every i16 through Felt::new, every residue through neg/inverse/centred "
                "representative, every pair (a,b) in [0,q)^2 through add/sub/mul/multiply and (b != 0) division, compared with i64 arithmetic "
                "mod 12289 under a panic monitor, in the release and in the overflow-checked build; batch inversion on "
                "seeded vectors with zeros at every position; a concurrency leg in which all cores invert and divide different "
                "residues at the same time (every result checked). distinct_nontrivial = number of distinct left operands a "
                "whose complete row of q right operands was checked (all of them are non-trivial: each row exercises "
                "the conditional reductions on both sides of q).",
        "assumptions": ["the harness's own i64 % 12289 arithmetic", "operands enter through Felt::new (itself checked exhaustively)"],
        "exhaustive": True,
        "exhaustive_scope": "all 65536 conversions, all 12289 residues (unary), all 12289^2 pairs (add, sub, mul, multiply, div with b != 0); batch inversion is sampled",
        "legs": [{"name": "exhaustive", "profiles": BOTH}, {"name": "concurrent"}],
        "technique": "exhaustive differential monitor (reference-model oracle) + panic monitor on release and overflow-checked builds",
        "level_text": "Every input of the finite domain is executed on the real code and compared with an i64 reference; "
                      "complete for conversions, unary and binary operations, sampled for batch inversion.",
        "level_note": "trusted: the harness's i64 modular arithmetic; the wrappers construct operands with Felt::new",
    },
}

CHECKS["C07"] = {
    "title": "compression is lossless and canonical",
    "rule": "Differential monitor of the crate's compress/decompress against a bit-at-a-time reference of Algorithms 17/18 "
            "(values as i64), under a panic monitor, on release and overflow-checked builds. Legs: (1) exhaustive: every byte "
            "string of length 0..3 decoded as 1, 2 and 3 coefficients; (2) compress: every value |v|<12160 into budgets 0..14, "
            "boundary grids for n=2,3, production sizes (512/625, 1024/1239) with vectors engineered to need exactly 8L+d bits; "
            "(3) cursor sweep at production sizes: a probe coefficient in last/second-last/third-last/middle role ending at every "
            "bit position in [8L-26, 8L+10], unary lengths {0..2,7,93..96,127,128,255..257,300,390,511,512,640}, negative zero, "
            "tails. Oracle: accepted => reference accepts the same integer vector and re-compression reproduces the string; "
            "rejected => reference rejects or some |v_i| >= 12160. distinct_nontrivial = distinct accepted strings (leg 1) + "
            "distinct (size, role, end position, unary length, sign/low, tail) cells (leg 3) + distinct compress rows (leg 2).",
    "assumptions": ["reference codec in harness/src/refs/spec.rs (self-tested on every run)", "a decompressor may reject |v_i| >= 12160 (outside the property's domain)"],
    "exhaustive": True,
    "exhaustive_scope": "decompress: all strings of length <= 3 for n in {1,2,3}; compress: n=1, all 24319 values x budgets 0..14. Production sizes are structured samples.",
    "legs": [{"name": "small-exhaustive", "profiles": BOTH}, {"name": "compress-sweep", "profiles": BOTH}, {"name": "cursor", "profiles": BOTH}],
    "technique": "differential monitor against a bit-level reference codec (exhaustive on small sizes, structured cursor sweep at production sizes) + panic monitor, release and overflow-checked builds",
    "level_text": "Complete enumeration of the small domain and a structured sweep of every guard of the decompressor at production sizes; "
                  "each execution of the real code is compared with the reference and re-encoded.",
    "level_note": "trusted: reference Algorithms 17/18 in the harness; hooks only re-export the crate-private functions",
}

CHECKS["C03"] = {
    "title": "decoders and verify never panic",
    "rule": "Panic monitor (catch_unwind + hook recording message and file:line) around the six from_bytes decoders and "
            "around Signature::from_bytes + verify, on the release and the overflow-checked (opt3 + overflow-checks + "
            "debug-assertions) builds. Workload: mutations of real and synthetic encodings (all 256 header bytes, truncation, "
            "extension, other variant's lengths, bit flips, field edits incl. q-1/q/q+1/16383 and the reserved secret-key "
            "pattern, all-zero/all-one bodies), every length 0..2400 x 8 headers, each string fed to all three decoders of the "
            "variant; for verify: the cursor sweep of C07 at production sizes under four public keys (honest, zero, all q-1, "
            "random), bit-flipped honest signatures, sparse random bodies; (verify-crafted) verify on hash-aware crafted triples whose public key is solved from the hash so that s1 takes chosen values: enormous norms in several mass layouts (spread, front-/back-loaded, one aligned block, two-step), every s1 coefficient at +-6144, exact-boundary and lopsided norms; (hash-extremes) verify on (salt, message) pairs whose hash stream rejects unusually many chunks (selected with the reference hash from 6e6 candidates). distinct_nontrivial = distinct (variant, decoder, "
            "mutation family, outcome) cells + distinct (variant, public key, cursor cell) cells.",
    "assumptions": ["a panic is the only failure mode of safe Rust here (no unsafe in the crate); allocation failure is not exercised"],
    "legs": [{"name": "decoders", "profiles": BOTH}, {"name": "verify-hostile", "profiles": BOTH}, {"name": "hash-extremes", "profiles": BOTH}, {"name": "verify-crafted", "profiles": BOTH},
             {"name": "miri-decode", "external": "miri", "tiers": ["thorough"], "shards": [["decode", i, 16] for i in range(16)]},
             {"name": "fuzz", "external": "fuzz", "tiers": ["thorough"], "seconds": 180}],
    "technique": "panic monitor (sanitizer for safe Rust) over structure-aware hostile inputs on release and overflow-checked builds; Miri leg in the thorough tier",
    "level_text": "Executions of the real decoders and verifier on hostile inputs under a panic monitor in two build profiles; "
                  "every guard of the decompressor is made the only thing between the input and an out-of-range index at least once.",
    "level_note": "inputs outside the generated families are not covered; no functional oracle here (C02/C06/C07 have those)",
}

CHECKS["C02"] = {
    "title": "verify accepts exactly what the specification accepts",
    "rule": "Differential monitor: every (msg, sig, pk) accepted by both from_bytes goes through the crate's verify and through "
            "an independent Algorithm 16 (own SHAKE-256/HashToPoint, bit-level Algorithm 18, schoolbook product, centred s1, "
            "norm <= floor(beta^2)); PQClean's verifier is a second oracle wherever it can parse the input (an oracle conflict "
            "is inconclusive). Classes: honest signatures over 12 message shapes; single-bit flips in salt / s / message / pk; "
            "another message; the same s2 with one coefficient moved by +-q (same residues, norm far above the bound); the C07 "
            "cursor sweep of malformed/edge encodings under honest, zero, all-(q-1), monomial and random public keys; crafted "
            "triples whose norm is EXACTLY bound+d for d in {-3..3, +-1000, +-q}: s2 chosen NTT-invertible (dense, sparse, "
            "large, and lopsided: s2 alone carries more than half of the bound), s1 with coefficients at +-6144/+-6143 in one style and completed by a four-square decomposition, "
            "h = (c - s1)/s2; triples whose TRUE norm is enormous but small modulo 2^31 / 2^32 / 3*2^32 in four mass layouts (spread, front-loaded, back-loaded, two-step: a first region just below 2^31 followed by one aligned block of 16/32/64 coefficients that alone adds more than 2^31 using s1 at the range edge and s2 coefficients near 12159); an interleaved pass alternates both variants in one thread, re-uses and revisits public keys (A, B, A) and swaps keys between signatures. distinct_nontrivial = distinct triples whose class is non-trivial (honest accepted, mutated, "
            "aliased, malformed cell, exact-norm) counted by (class, variant, case id).",
    "assumptions": ["reference Algorithm 16 in harness/src/refs (self-tested against SHAKE known answers and against PQClean at the exact boundary on every run)"],
    "legs": [{"name": "differential"}, {"name": "boundary", "profiles": BOTH}],
    "technique": "differential monitor against an independent reference verifier (second oracle: PQClean), with crafted exact-norm triples at bound-1/bound/bound+1",
    "level_text": "Sampled equivalence with the specification's verifier on structured adversarial triples, including exact-boundary norms that no honest signer produces.",
    "level_note": "equivalence is sampled, not proved; triples outside the generated classes are not covered",
}

CHECKS["C05"] = {
    "title": "fixed sizes and exact round trip of keys and signatures",
    "rule": "Per seed (committed regression seeds first, then seeds derived from VERIF_SEED, then counter seeds): keygen under "
            "the panic monitor; lengths 1281/897/666 resp. 2305/1793/1280; the in-memory basis (hook) must fit the field widths "
            "and sk.to_bytes() must equal the reference encoder's header|f|g|F; from_bytes(to_bytes(x)) must equal x by "
            "PartialEq, by re-encoded bytes and by basis (so the recomputed G is compared); then, only if the round trip was "
            "equal, 5 messages of varying shape are signed with the DECODED key (seeded honest randomness, logical-step "
            "progress bound) and each signature must have the right length, survive its own round trip and be accepted by "
            "verify and by the reference verifier under the ORIGINAL public key. Second leg, boundary-steered keys: from a generated (f,g,F,G), "
            "(F + k f, G + k g) with k = c x^j is another completion of the same (f,g) with the same public key and the same "
            "tree leaves; k is searched so that the extreme coefficient of F' or G' is EXACTLY +127 / -127 (the edge of the "
            "8-bit field, which generated keys reach about once in 10^4 seeds); the reference encoding of such a key must "
            "decode, re-encode identically, give the same basis (incl. recomputed G') and public key, and sign. "
            "distinct_nontrivial = distinct seeds whose key completed the round-trip comparison + distinct boundary keys.",
    "assumptions": ["reference key encoders in harness/src/refs/spec.rs", "seeds not generated are not covered (rare events below ~1/keys explored are invisible)",
                    "boundary leg assumes a decoder must accept every valid NTRU completion whose coefficients fit the format (these keys have the same quality as the generated one)"],
    "legs": [{"name": "roundtrip"}, {"name": "boundary-keys"}],
    "technique": "round-trip invariant monitor over generated keys (hook: read-only basis accessor) with regression seeds, reference encoder and reference verifier as oracles",
    "level_text": "Every generated key and signature is pushed through encode/decode and compared at byte, object and basis level; the decoded key is exercised by signing.",
    "level_note": "quantifier over 2^256 seeds is sampled (about 280 keys quick, about 18000 thorough)",
}

CHECKS["C06"] = {
    "title": "decoding is strict and canonical",
    "rule": "Invariant monitor on every accepted string: from_bytes(b) = Ok(x) => x.to_bytes() == b, plus must-reject oracle from "
            "reference format decoders (wrong length, wrong header byte, public-key field >= q, reserved secret-key pattern). "
            "Workload: mutations of real and synthetic encodings of all three types and both variants (256 header bytes, "
            "truncation/extension, other variant's lengths, bit flips, field edits q-1/q/q+1/16383 and reserved/max/min at "
            "first/middle/last position of every polynomial, all-zero/one, random bodies); secret keys synthesised with every "
            "field drawn from its full legal range; each variant's encodings offered to the other variant's decoders and to the "
            "other types' decoders. distinct_nontrivial = distinct accepted strings + distinct (variant, type, must-reject "
            "class, mutation class) rejected cells.",
    "assumptions": ["reference format decoders in harness/src/refs/spec.rs", "signature bodies are judged by verify (C02/C07), not by Signature::from_bytes"],
    "legs": [{"name": "canonical", "profiles": BOTH}],
    "technique": "re-encode-and-compare invariant monitor + reference format oracle over structure-aware mutated encodings",
    "level_text": "Sampled: each accepted string is re-encoded and compared; each listed malformed class is generated many times and must be rejected.",
    "level_note": "strings outside the mutation families are not covered",
}

CHECKS["C09"] = {
    "title": "the integer sampler is total and follows D_{Z,mu,sigma'}",
    "rule": "Four monitors. (1) blocks, exact: base_sampler(u) == #{i: u < RCDT[i]} (table transcribed from PQClean) at every "
            "threshold +-2, 0, 2^72-1, all 2^k and 2^k-1, and seeded random u (half of them with random leading zeros so small "
            "entries are approached); approx_exp == reference ApproxExp on [0,ln2]x(0,1] incl. corners; ber_exp == reference "
            "lazy BerExp on random inputs, on ties of the first k<7 bytes followed by +-1, and on exact 7-byte ties (must not "
            "panic; result must be producible by some eighth byte). (2) totality: sampler_z under all-zero, all-0xFF, counter, "
            "constructed seven-byte-tie, zero-Bernoulli and largest-z0 prefixes followed by honest bytes, over 12 centres x 7 "
            "(sigma', sigma_min) pairs; panic monitor and a draw-count progress bound (10^4 honest iterations). (3) distribution: "
            "9 centres x 5 widths, N seeded samples each: chi-square against the exact pmf (cells merged to expectation >= 10, "
            "alarm at p < 1e-9), z-tests of mean and second moment (alarm at |z| > 6), and a same-randomness comparison with the "
            "specification's SamplerZ that is used as an oracle only if >= 99% of calls agree (i.e. the implementation consumes "
            "randomness in the same pattern). (4) in situ: every sampler call made by ffsampling during real signing (hook event) "
            "must satisfy sigma_min <= sigma' <= 1.8205; pooled first and second moments of (z-mu)/sigma'. Blocks and totality run "
            "on the release and the overflow-checked build. distinct_nontrivial = distinct threshold points + 7-byte ties + "
            "(config, stream, iteration) cells + distribution configs + instrumented signatures.",
    "assumptions": ["RCDT and ApproxExp constants transcribed from PQClean (sanity-checked against the f64 half-Gaussian on every run)", "statistical resolution about 1e-3 relative on cells of mass >= 1e-5 in the quick tier", "centres are taken from |mu| <= 2e4 (the sampler returns an i16; signing uses centres of a few thousand)"],
    "legs": [{"name": "blocks", "profiles": BOTH + ["native"]}, {"name": "totality", "profiles": BOTH}, {"name": "distribution", "profiles": ["release", "native"]}, {"name": "in-situ", "skip_if_violated": True}],
    "technique": "exact differential monitors for the building blocks, panic + logical-step progress monitor under hostile byte streams, goodness-of-fit monitors (chi-square, moments) with alarm thresholds below 1e-6 family-wise, in-situ precondition monitor at a hook",
    "level_text": "Blocks are compared exactly on boundary and random inputs; the distribution is decided statistically with stated resolution; tails are covered only by the exact block monitors.",
    "level_note": "deviations below the statistical resolution and isochrony are not observable",
}

CHECKS["C01"] = {
    "title": "every honest signature verifies (both variants, any thread count)",
    "rule": "Each monitored execution is one sign call on the real code followed by the crate's verify AND an independent "
            "Algorithm 16; sign runs under the panic monitor and a logical-step progress bound (the harness RNG unwinds a "
            "call that consumed the randomness of 1000 honest attempts). Legs: (matrix) key pool x 12 message shapes (empty, "
            "1 byte, lengths around the SHAKE rate, 4 KiB, 1 MiB/16 MiB) x 14 randomness strategies driven through the "
            "SignRng hook (honest; Bernoulli bytes forced to accept at rates 12-100% for 1-4 attempts -> norm-rejection "
            "branch; reject bursts; z0=0; constant and counter prefixes) x failpoint forcing 0/1/2/5 compression failures; hook events record which retry branch each execution took. (native) "
            "the un-overridden thread_rng path (with message-size sequences in one thread: equal lengths back to back with different content, 70 kB down to empty), enough Falcon-1024 signatures to see NATURAL compression retries (~1/1000). "
            "(concurrent) 2/8/16/64 threads behind a barrier sharing one key while keygen runs alongside; every signature "
            "verified in-thread, by the main thread and by the reference; call/return timestamps give the number of "
            "overlapping call pairs. distinct_nontrivial = distinct (variant, key, message shape, strategy, failpoint) cells "
            "whose execution took at least one retry branch + native chunks and natural retries + thread configurations.",
    "assumptions": ["reference verifier (self-tested)", "scripted randomness steers by the current 40+32+17-per-iteration draw pattern; if the pattern changes the required branch counters drop to zero and the run is inconclusive, not a violation"],
    "legs": [{"name": "matrix"},
             {"name": "native", "skip_if_violated": True, "timeout": {"quick": 300, "thorough": 3600}},
             {"name": "concurrent", "skip_if_violated": True, "timeout": {"quick": 300, "thorough": 3600}},
             {"name": "tsan", "external": "tsan", "tiers": ["thorough"], "sublegs": [["C01", "concurrent"]], "scale": "20"},
             {"name": "miri-sign", "external": "miri", "tiers": ["thorough"],
              "shards": [["sign", 2, 1], ["sign", 2, 2], ["sign", 2, 3], ["sign", 3, 4]]}],
    "technique": "end-to-end oracle (crate verify + reference verifier) over executions steered by scripted randomness and failpoints at hooks, branch-coverage events, concurrency stress with overlap evidence; ThreadSanitizer and Miri legs in the thorough tier",
    "level_text": "Executions of the real signer over hostile randomness, forced retry branches and shared-key concurrency, each checked by two verifiers.",
    "level_note": "sampler outcomes not reachable by the strategies and unbounded thread counts are not covered",
}

CHECKS["C04"] = {
    "title": "every generated key is a valid NTRU trapdoor with in-range leaves",
    "rule": "Per seed: keygen under the panic monitor, then on the in-memory key (hook accessors): f*G - g*F == q exactly over "
            "Z[X]/(X^n+1) (i128 schoolbook); basis layout [g,-f,G,-F] against the serialised (f,g,F); h decoded from the public "
            "key bytes with h*f == g mod q (reference ring) and f invertible mod q; exactly n leaves, each in "
            "[sigma_min, 1.8205] with zero imaginary part; sum over leaves of 2 ln(sigma/leaf) == n ln q (product of "
            "Gram-Schmidt norms = q^n) to 1e-6; first leaf == sigma/||(g,-f)||; for a few keys per run every leaf is recomputed "
            "from an independent f64 Gram-Schmidt of the 2n x 2n rotation basis in the tree's (bit-reversed) row order and must "
            "agree to 1e-7. The in-situ side (every sampler call during signing has sigma' in range) is monitored by C09's "
            "in-situ leg. Seeds: derived from VERIF_SEED, counter seeds, and the regression seeds of C05. "
            "distinct_nontrivial = distinct seeds whose key passed through all oracles.",
    "assumptions": ["i128 / reference-ring arithmetic of the harness", "about 730 keys quick, 9600 thorough out of 2^256 seeds"],
    "legs": [{"name": "keys"}],
    "technique": "invariant monitor at read-only hooks (basis and tree leaves) with exact integer oracles and an independent Gram-Schmidt cross-check",
    "level_text": "Sampled over seeds; each sampled key is checked exactly (integer identities) and numerically (leaf range, determinant identity, independent Gram-Schmidt).",
    "level_note": "seeds not generated are not covered",
}

CHECKS["C11"] = {
    "title": "NTT multiplication in Z_q[X]/(X^n+1) is exact",
    "rule": "(tables, exhaustive) psi := forward table[512] must satisfy psi^1024 = -1; all 1024 forward entries == psi^bitrev10(i), "
            "all 1024 inverse entries == psi^-bitrev10(i), all 11 stored n^-1 constants (entry 0 and unused entries included, through "
            "the accessor hook). (products) for every n in {1,2,4,...,1024}: all n unit impulses times a random polynomial and times "
            "a negated impulse, all-(q-1), alternating, zero, and seeded random pairs: intt(ntt(a)) == a, (cross-size) one thread walks through all sizes in ascending, descending and shuffled order with the SAME low-degree coefficients embedded in every length (constants, zero, short polynomials), so that state kept between transforms is exposed; (inverse-structured) the inverse transform applied directly to structured transform-domain vectors (blocks of values near q-1 next to blocks near 0 at every alignment, periodic and extreme vectors), checked by linearity against its own impulse responses and by the round trip; products and inverse-structured also run on the overflow-checked build; "
            "intt(ntt(a) .* ntt(b)) == schoolbook negacyclic product mod q, outputs canonical. distinct_nontrivial = table entries + "
            "(n, impulse index) cells + sizes.",
    "assumptions": ["reference schoolbook product and modular exponentiation in the harness"],
    "exhaustive": True,
    "exhaustive_scope": "the twiddle tables and n^-1 constants are checked completely; the transforms are linear, so the n impulses per size determine them given exact field arithmetic (C12); random pairs are samples",
    "legs": [{"name": "tables"}, {"name": "products", "profiles": BOTH}, {"name": "cross-size"}, {"name": "inverse-structured", "profiles": BOTH}],
    "technique": "exhaustive table monitor + differential monitor against a schoolbook reference over all impulses and random pairs for every size",
    "level_text": "Tables complete; transforms checked on a basis of the input space plus random samples for all 11 sizes.",
    "level_note": "relies on C12 for the exactness of the field operations used inside the butterflies",
}

CHECKS["C13"] = {
    "title": "floating-point FFT accuracy, split/merge inverse",
    "rule": "(table, exhaustive) every entry of the complex twiddle table within 2^-50 of exp(i*pi*bitrev10(k)/1024). (accuracy) for "
            "every n in {2,...,1024}: all n impulses of magnitude 2^14 times a random b, constant +-2^14 x 2^10, alternating signs, and "
            "seeded random integer vectors with |a_i| <= 2^14, |b_i| <= 2^10 (and smaller ranges) and random non-integer reals with 20 fractional bits in the same range (exact product still computable in i128), and full-magnitude operands steered (by +-1 nudges of b) so that the exact product has one tiny non-zero coefficient next to coefficients of size 2^29: ||ifft(fft(a)) - a||_inf <= 2^-30 ||a||, "
            "||ifft(fft(a).fft(b)) - a*b||_inf <= 2^-30 ||a|| ||b|| where a*b is the exact integer negacyclic product (i128), "
            "merge(split(F)) == F and split(fft(a)) == (fft(a_even), fft(a_odd)) to 2^-30 relative. The worst observed relative "
            "errors are reported (about 1e-15 on the unchanged tree, i.e. the tolerance is 2^20 times the observed error). "
            "distinct_nontrivial = table entries + (n, impulse) cells + sizes.",
    "assumptions": ["libm cos/sin accurate to a few ulp for the table reference", "inputs are integer-valued so the exact product is computable"],
    "legs": [{"name": "table"}, {"name": "accuracy", "profiles": ["release", "native"]}, {"name": "cross-size"}],
    "technique": "differential monitor against exact integer arithmetic with the property's error bound; exhaustive table monitor",
    "level_text": "Table complete; accuracy sampled over all sizes with extreme and random inputs in the stated magnitude range.",
    "level_note": "real inputs are dyadic rationals with 20 fractional bits; other reals are covered through linearity",
}

CHECKS["C14"] = {
    "title": "HashToPoint equals the SHAKE-256 rejection sampler",
    "rule": "Differential monitor of hash_to_point(s, 512) and (s, 1024) against Algorithm 3 over an own Keccak-f[1600]/SHAKE-256 "
            "(known-answer self-test on every run): all lengths 0..300 x {zeros, 0xFF, random}, lengths around multiples of the "
            "136-byte rate, 4 KiB, 64 KiB, 1 MiB (16 MiB thorough), and a search leg over counter strings that keeps going until "
            "the reference's 16-bit chunk stream has contained the exact boundary values 61444 (largest accepted), 61445 (smallest "
            "rejected), 65535, 12288, 12289 at least 100 times each. Also: every coefficient in [0,q), two calls agree, the 512 "
            "point is the prefix of the 1024 point. Second leg (extremes): 1.2e7 (6e8 thorough) candidate inputs are scanned with the "
            "REFERENCE SHAKE only and the 4000 (80000) whose chunk stream rejects the most chunks early or has the longest runs of consecutive rejected chunks are hashed by the real code - inputs "
            "that stress buffering / refill logic, which typical inputs never do. distinct_nontrivial = lengths + long inputs + inputs whose stream contained a "
            "boundary chunk.",
    "assumptions": ["own SHAKE-256 (self-tested against OpenSSL-generated known answers)"],
    "legs": [{"name": "differential"}, {"name": "extremes"}],
    "technique": "differential monitor against an independent SHAKE-256 + Algorithm 3 with boundary-chunk coverage counters",
    "level_text": "Sampled over inputs; the rejection threshold is exercised at its exact boundary hundreds of times per run.",
    "level_note": "inputs not generated are not covered",
}

CHECKS["C08"] = {
    "title": "every signature carries a fresh 40-byte salt",
    "rule": "Offline history checker over recorded salts (bytes 1..41 of to_bytes()) of the REAL thread_rng path (no RNG override "
            "installed). Histories: 16 threads behind a barrier signing the same message under one key, distinct messages, and a "
            "second key, for both variants; 1600 (20000 thorough) short-lived threads signing once or twice each (thread-per-request "
            "pattern); a few hundred signatures forced through the compression-retry path by the failpoint (real randomness); sequences of equal-length messages from 0 B to 200 kB signed back to back in one thread (same/different content, keys, variants); K child processes started together signing the same (message, key); the same message twice back to back; and "
            "a history produced by a build of falcon-rust WITHOUT the verif-hooks feature through the public API only. Checks per "
            "history and on the union: no salt occurs twice (hash map, witness = the two calls), every one of the 40 byte positions "
            "takes >= 32 distinct values, each of the 320 bits is balanced within 6 sigma, no two calls return byte-identical "
            "signatures. distinct_nontrivial = number of distinct histories checked (threads x workloads, thread churn, processes, "
            "hook-free build).",
    "assumptions": ["predictability of a non-repeating generator is not observable from its outputs", "history sizes: about 2e5 salts quick, 1.6e6 thorough"],
    "legs": [{"name": "salts"}, {"name": "processes", "skip_if_violated": True}, {"name": "plain-build", "external": "plain-salts", "skip_if_violated": True},
             {"name": "tsan", "external": "tsan", "tiers": ["thorough"], "sublegs": [["C08", "salts"]], "scale": "10"}],
    "technique": "offline checker over a recorded event log (salt multiset: uniqueness, per-position variability, per-bit balance) from multi-thread, thread-churn and multi-process histories, incl. a hook-free build",
    "level_text": "History-based: every recorded sign call contributes its salt; the checker decides uniqueness exactly and bias statistically on the histories produced.",
    "level_note": "a repeat outside the recorded histories is not observable",
}

CHECKS["C15"] = {
    "title": "key generation is a deterministic function of the seed; every bit matters",
    "rule": "History table seed -> fingerprint(sk bytes + in-memory basis incl. G, pk bytes). A pool of seeds (96 + 24 quick, 1200 + 240 thorough) is generated twice on different worker threads; the seeds "
            "whose key search took longest (longest generator streams) plus a few fixed ones are then generated (a) in the main "
            "thread with unrelated thread_rng draws in between, (b) by 8 concurrent threads walking the seeds in different orders "
            "while signing with other keys in between, (c) by two child processes started with different environment (TZ, LANG, "
            "environment size), (d) for a few seeds: both variants from the SAME seed back to back in one thread versus fresh "
            "threads - all fingerprints of a seed must be identical. Bit flips: for a base seed (randomly chosen ones in the bitflips leg, and the pool seeds with the LONGEST key searches in the determinism leg, ranked by the hook's candidate counter: 1 quick, 12 + 6 thorough), the 257 keys of the seed "
            "and its 256 single-bit neighbours must be pairwise distinct in both secret and public key (one Falcon-512 neighbourhood "
            "quick; 5 Falcon-512 + 1 Falcon-1024 thorough). distinct_nontrivial = seeds with a multi-context history + bit-flip "
            "neighbours generated.",
    "assumptions": ["machine state that does not vary inside this sandbox (CPU model, libm) cannot be observed"],
    "legs": [{"name": "determinism"}, {"name": "bitflips", "skip_if_violated": True},
             {"name": "tsan", "external": "tsan", "tiers": ["thorough"], "sublegs": [["C15", "determinism"]], "scale": "50"}],
    "technique": "history checker over a seed -> key table filled from threads, interleaved activity and separate processes; exhaustive single-bit neighbourhood of sampled seeds",
    "level_text": "Each seed is executed in about 11 contexts and compared; all 256 single-bit neighbours of sampled seeds are generated.",
    "level_note": "seeds not sampled are not covered; cross-machine determinism is out of reach here",
}

CHECKS["C17"] = {
    "title": "Babai reduction preserves the NTRU equation; both versions agree",
    "rule": "Differential + invariant monitor on babai_reduce_i32 and babai_reduce_bigint: same Ok/Err and identical (F',G'); "
            "f*G' - g*F' == f*G - g*F exactly (i128); a second reduction of an Ok result is the identity in both versions. "
            "Inputs: the committed witnesses of the known finding first; n in {2,...,1024}, (f,g) Gaussian of the key-generation "
            "width and of widths 0.6..6, (F,G) = (F0,G0) + k*(f,g) with |F0|,|G0| <= 127 and k dense/sparse/spiky/zero of magnitude "
            "2^2..2^20 (also (F,G) shorter than (f,g): tiny (F0,G0) with k = 0, and truncated fractions c*(f,g)), scaled until all coefficients are below 2^24, incl. (F,G) = 0 and quotients k that are single terms c*x^j or a dense even part plus c*x; a field-level leg (u32-field, hooks) checks the 30-bit prime field underneath the 32-bit version exactly: element operations against i128 arithmetic on all pairs of ~120 boundary operands (powers of two +-1 up to 2^30, the modulus and its half, 16-bit edges) and random operands of every bit length, and its transforms (round trip, product against a schoolbook product) on single terms of every magnitude, even-part-plus-c*x, constants and random polynomials for n = 2..1024; plus the PRODUCTION inputs captured by a hook "
            "event at the call site inside key generation (unreduced pairs of size about 2^20). An Err is classified as the known "
            "finding babai-tie-cycle only with its certificate (both versions Err with identical states; three consecutive calls "
            "give S1, S2, S1, S1 != S2; equation preserved); any other Err, disagreement, equation or idempotence failure is a "
            "violation. distinct_nontrivial = distinct inputs completely checked.",
    "assumptions": ["exact i128 products of the harness", "inputs outside the stated domain ((F,G) = 0, coefficients >= 2^24) are not generated"],
    "legs": [{"name": "synthetic"}, {"name": "u32-field", "profiles": BOTH}, {"name": "captured", "skip_if_violated": True}],
    "technique": "differential monitor between the two implementations + exact-integer invariant (NTRU form) + idempotence, on synthetic and hook-captured production inputs",
    "level_text": "Sampled over the stated input domain and over inputs captured from real key generation; each execution checked exactly.",
    "level_note": "known findings babai-tie-cycle and babai-i32-quotient-saturation are reported as KNOWN-FINDING, each only with its exact run-time certificate (see known_findings.txt)",
}

CHECKS["C16"] = {
    "title": "keys and signatures interoperate with the reference implementation",
    "rule": "PQClean (pqcrypto-falcon 0.3.0, built offline from the cargo registry) is the independent implementation. Re-framing "
            "exactly as the property states: header 0x59/0x5A <-> 0x39/0x3A, zero padding stripped/added. Direction A (own keys: "
            "the C05 regression seeds first, then seeds from VERIF_SEED): PQClean must import pk.to_bytes() and sk.to_bytes(); every "
            "falcon-rust signature over 12 message shapes must be accepted by PQClean; PQClean signs with the exported secret key "
            "and both verifiers must accept. Direction B (fresh PQClean key pairs): falcon-rust must import both keys, re-encode them "
            "byte-identically and derive the same public key from the imported secret key; falcon-rust signatures under the imported "
            "key must be accepted by PQClean and PQClean signatures by falcon-rust. distinct_nontrivial = distinct keys (own seeds + "
            "reference key pairs) taken through the whole protocol.",
    "assumptions": ["PQClean as built by pqcrypto-falcon is correct (it is the reference)", "PQClean's own randomness is not seeded: failing cases are recorded with full bytes"],
    "legs": [{"name": "interop"}],
    "technique": "differential monitor against an independent implementation (PQClean) in both directions, keys and signatures, with regression seeds",
    "level_text": "Sampled over keys, messages and both sides' randomness; every exchanged object is checked by the other implementation.",
    "level_note": "the C side runs uninstrumented: it is the oracle, not the subject",
}

CHECKS["C10"] = {
    "title": "signatures are spherical Gaussian (no leakage of the basis)",
    "rule": "Offline statistical checker over recorded transcripts. Per key (2 Falcon-512 + 1 Falcon-1024 quick; 6 + 3 thorough), M "
            "signatures on distinct messages are produced by the real signer with seeded honest randomness (SignRng hook, so a run "
            "is reproducible); (s1, s2) is recovered from the signature BYTES with the reference codec, hash and ring (s1 = c - s2 h "
            "centred); the secret basis comes from the serialised key (G recomputed with the reference ring, cross-checked with the "
            "in-memory basis). Directions: the 2n normalised rows of the rotation basis of (g,-f),(G,-F) and their 2n Gram-Schmidt "
            "vectors (independent f64 Gram-Schmidt in the tree's row order), also grouped into 16 bins by Gram-Schmidt norm. Tests: "
            "E||s||^2 = 2n sigma^2; pooled second moments along both row families and along the Gram-Schmidt directions = sigma^2 "
            "(z-scores with EMPIRICAL standard errors from per-signature values, alarm |z| >= 6); each of the 16 bins (6.5); every "
            "single direction's second moment (chi-square with M dof) and mean (7); every emitted signature within the bound. "
            "Family-wise false-alarm probability per run below 1e-6. Second leg (ffsampling-trace, deterministic): the hook log gives centre, width and output of every "
            "integer-sampler call of a signing attempt; an independent Algorithm 11 (own natural-order FFT, split/merge and ffLDL tree "
            "built from the basis) is replayed on the recorded OUTPUTS and must predict every recorded centre (1e-6 relative) and "
            "width (1e-9): an exact oracle for the tree (L entries and leaves) and the recursion, including attempts after forced "
            "norm rejections; in addition the s2 decoded from the signature must equal -(z0 f + z1 F) computed exactly over "
            "Z[X]/(X^n+1) from the recorded sampler outputs (the emitted vector is the sampled lattice point). distinct_nontrivial = distinct (key, direction) pairs tested + signing attempts replayed.",
    "assumptions": ["resolution: about 0.5% on pooled second moments, 1% per bin, 10% per single direction (quick); 3x finer thorough", "reference codec/hash/ring and f64 Gram-Schmidt of the harness (the latter cross-validated against the tree leaves in C04)"],
    "legs": [{"name": "transcripts"}, {"name": "ffsampling-trace"}],
    "technique": "offline statistical checker over a recorded transcript of signature vectors: moment tests along the secret basis rows and Gram-Schmidt directions with empirical standard errors",
    "level_text": "Distributional property decided statistically on transcripts of thousands of signatures per key, in 4n directions per key.",
    "level_note": "anisotropy below the stated resolution, directions outside the 4n tested and keys outside the pool are not observable",
}

# ---------------------------------------------------------------------------
# workloads added in the sixth round of seeded changes (state carried between calls,
# fingerprint collisions, steered near-boundary values); appended to the evidence rules
_EXTRA = {
    "C01": " Sixth round: signatures whose salt is forced (RNG hook) to the extreme (salt, message) pairs found by C14's search, so "
           "signer and verifier hash a stream with unusually many rejected chunks (counter forced_salt_taken); call histories in fresh "
           "threads mixing both parameter sets, several keys, and keys / signatures / public keys passing through their encodings.",
    "C02": " Sixth round: fingerprint-colliding call sequences (collide.rs: byte sum/xor, both halves of std's DefaultHasher fed either "
           "way, FNV-1a, CRC-32, Adler-32, djb2, prefix/suffix, coefficient sums): pairs of different crafted public keys with a valid "
           "signature each, verified A,B,A,cross,B on one thread, and pairs of different messages under one salt (valid for the first, "
           "rejected for the second); NTT-domain boundary triples (s2 = b, s1 = a constants, h = (c-a)/b, salts searched so that NTT(c) "
           "holds a + b v at some index) for v in {0,1,2,q-1,q-2,(q+-1)/2}, b in {+-1,+-2}, a in {0,+-1,+-2}. Replay files of sequence "
           "findings carry the triple verified just before.",
    "C04": " Sixth round: call histories in fresh threads (512 then 1024, 1024 then 512, decode then generate, sign then generate, "
           "alternating); every key generated inside a history gets all oracles.",
    "C05": " Sixth round: pairs of different valid secret keys (lattice variants F + c x^j f) whose encodings agree in length and byte "
           "sum (preferably also xor; also across public keys), decoded A,B,A,B,B,A on one thread; every result must be the key offered.",
    "C06": " Sixth round: the reserved field value inside an otherwise valid NTRU basis (g' = g + c x^j f with G' = G + c x^j F, and the "
           "analogue for f), constructed from generated keys and re-checked by the harness; checksum-preserving edits (byte swap, +1/-1 on "
           "two bytes, the same bit in two bytes, rotation) offered right after the valid string on the same thread.",
    "C07": " Sixth round: several negative zeros in one string (every subset of positions for n <= 6; pairs, triples, quadruples, all but "
           "the last and all at production sizes).",
    "C08": " Sixth round: one long-lived thread signing Falcon-1024 for the whole leg (42 000 signatures quick, 400 000 thorough); its "
           "history is checked alone and merged with all others.",
    "C11": " Sixth round: forward transforms of sparse inputs (monomials c x^k and two-term polynomials, c over all residues incl. "
           "boundary values) against a linearity oracle built from the forward impulse responses; call histories of (operation, size) "
           "in fresh threads (inverse before any forward transform, products first at large sizes).",
    "C13": " Sixth round: call histories in fresh threads: split, inverse(forward), merge and product at random sizes in random order, "
           "in particular split before the first inverse at that size; each operation has its own oracle.",
    "C14": " Sixth round: call sequences on one thread (a permutation, an extension, a truncation of the previous input, the previous "
           "input again) and fingerprint-colliding pairs of equal length (1.2e6 candidates per quick run searched for collisions in byte "
           "sum/xor, DefaultHasher halves, FNV-1a, CRC-32, Adler-32, djb2, prefix/suffix), hashed A,B,A.",
    "C15": " Sixth round: the fingerprint covers the bit patterns of the tree leaves; two more child processes run under a restricted "
           "CPU set (taskset: CPU 0; CPUs 0-2).",
    "C17": " Sixth round: near ties at production amplitude: (F,G) = K (f,g) + R with K as large as the 2^24 domain allows and the small "
           "pair R steered (greedy digit-by-digit adjustment of far-away entries plus a meet-in-the-middle finish, all in double "
           "precision on small numbers) so that ONE coefficient of the exact quotient is at 1/2 -+ delta, delta in {2e-10 .. 1.6e-8}, "
           "every other coefficient at least 1e-4 away from a tie; n = 512 and 1024, 1500 inputs per quick run.",
}
for _k, _v in _EXTRA.items():
    CHECKS[_k]["rule"] += _v

# seventh round
_EXTRA7 = {
    "C02": " Seventh round: call sequences over RELATED keys of the two parameter sets (for an accepted Falcon-512 triple with key h: "
           "the Falcon-1024 keys h||0^512, h||h, h(x^2); for a Falcon-1024 triple: its first half and its even coefficients as "
           "Falcon-512 keys), before and after the valid triple, every sequence in a fresh thread.",
    "C03": " Seventh round: the related-variant key sequences of C02 under the panic monitor (fresh thread per sequence).",
    "C05": " Seventh round: round trips AFTER use: a public key that has verified and a secret key that has signed must still equal "
           "(crate's ==, both directions) their freshly decoded encodings and an unused decoded copy; fingerprint-colliding secret-key "
           "pairs now come from two-parameter lattice variants searched with collide.rs (byte sum/xor, DefaultHasher halves, FNV, CRC-32, "
           "Adler-32, djb2, prefix).",
    "C06": " Seventh round: lattice variants of valid secret keys (F + c x^j f, in range) must re-encode to themselves; fingerprint-"
           "colliding pairs of valid public-key and signature encodings decoded A,B,A.",
    "C07": " Seventh round: LARGE encodings (n = 512..16384; coefficients at the edge, uniform, small, zero) whose bit length crosses "
           "2^15, 2^16 and 2^17, with budgets exactly fitting, one byte short and generous, and the decoder on these strings with "
           "single-bit flips, a set padding bit and one byte cut off.",
    "C08": " Seventh round: generator-window pairs (RNG hook): two generator streams that agree only on a window of at most 32 output "
           "positions ([0,1) .. [0,32), [8,40), [36,68), ...) and are independent everywhere else must give different salts, wherever "
           "the salt is drawn from.",
    "C09": " Seventh round: BerExp at every multiple of ln 2 moved by up to 4 ulps either way (k = 0..70), with the bytes at, next to, "
           "at half of and at twice the threshold.",
}
for _k, _v in _EXTRA7.items():
    CHECKS[_k]["rule"] += _v

# cold-start legs (first use of an operation in a fresh process by several threads at once)
for _k in ["C01", "C02", "C09", "C11", "C12", "C13", "C14"]:
    CHECKS[_k]["legs"].append({"name": "cold-start"})
    CHECKS[_k]["rule"] += (" Cold-start leg: hundreds of short child processes in which the FIRST crate operation (the property's own: "
                           "inverse/forward transform or product at a random size, HashToPoint, batch inversion, verify on a crafted triple, the sampler's building blocks, import of a key followed by sign and verify) "
                           "is made by 2..16 threads released together by a barrier; inputs and expected results are computed beforehand "
                           "with the harness' reference code only, so lazily initialised process-wide state is hit in its first-use window.")

_EXTRA7B = {
    "C01": " Seventh round: tail-steered signatures (steer.rs): one run of the reference fast-Fourier sampler on e_{n+j} B^-1 gives, in call "
           "order, the sign of every Gram-Schmidt vector at coefficient j of s2; the generator hook makes every integer-sampler call return "
           "floor(mu) or floor(mu)+1 accordingly, so that s2_j lands beyond six standard deviations (about -1400/+1480 for Falcon-512, "
           "-1950/+2070 for Falcon-1024) in a first-attempt signature whose norm is far below the bound; keys from the planted-candidate "
           "key generator of C04 sign and verify as well.",
    "C04": " Seventh round: SecretKey::generate() keys; planted key candidates: math::ntru_gen driven by a scripted generator that polls the "
           "candidate-counter hook and forces the first coefficient of every second candidate f to +-16 (Falcon-1024) / +-32 (Falcon-512), "
           "just outside the secret-key field; the key finally returned is imported through its byte encoding and gets all oracles.",
    "C12": " Seventh round: long batch inversions (255 .. 200000 elements, around 2^8, 2^15, 2^16, 2^17), with and without zeros.",
    "C15": " Seventh round: rare-branch histories: the committed regression seeds (whose key search discards a candidate with F or G "
           "outside 8 bits) all in one thread, twice over, both parameter-set orders, against the same seeds alone in fresh threads.",
    "C16": " Seventh round: tail-steered falcon-rust signatures (one s2 coefficient beyond six standard deviations, at most +-2047) must be "
           "accepted by the reference verifier.",
    "C17": " Seventh round: the same low-degree basis zero-padded to every ring size, reduced back to back on one thread. The known "
           "rounding-tie finding is now certified in two ways: the periodic orbit (with the exact rational quotient for n <= 8) or, for any "
           "n, the exact integer identity (f f* + g g*) M = 2 (F f* + G g*) with every |M_i| <= 1 and some M_i odd at the returned state.",
}
for _k, _v in _EXTRA7B.items():
    CHECKS[_k]["rule"] += _v

# C09: long rejection chains, also on a build of the crate WITHOUT optimisation
CHECKS["C09"]["legs"].append({"name": "deep-rejection", "profiles": ["release", "dev0"]})
CHECKS["C09"]["rule"] += (" Deep-rejection leg: one sampler call whose first 10^3 .. 3*10^6 (thorough: 10^7) candidates fail the Bernoulli test, "
                          "in child processes (main thread and a 2 MiB spawned thread), on the release build and on the dev0 profile (the crate compiled "
                          "at opt-level 0, as `cargo build` / `cargo test` do by default): a process abort (stack overflow) is a totality violation.")

# eighth round
_EXTRA8 = {
    "C01": " Eighth round: the tail-steered signer also steers coefficients of s1 (the half the verifier recomputes) beyond six standard "
           "deviations.",
    "C03": " Eighth round: transform-domain residual patterns: s2 = 1 and h = c - intt(T) (inverse computed by the harness in the crate's "
           "slot order) make the vector that verify inverse-transforms exactly T, for square waves of period 2..256 in both phases, noisy "
           "variants, constants and saws.",
    "C04": " Eighth round: COMPLETE scripted candidates: every sample of the first two key candidates is dictated through the generator: "
           "f' = f + two small changes such that f' vanishes modulo q at one chosen slot of the crate's NTT (slots 0,1,2,n/2-1,n/2,n-3..n-1 "
           "and random ones), then the valid key's own (f,g); a correct generator discards the first and returns the second.",
    "C05": " Eighth round: one signature per Falcon-1024 key under a wide-candidate generator stream (norm rejections and GENUINE "
           "compression failures, which the failpoint cannot reproduce).",
    "C06": " Eighth round: every string is offered twice in a row.",
    "C07": " Eighth round: every unary run length (0..95) at every bit offset (k zero coefficients in front), low parts {0,1,127}, both signs, "
           "alone, twice in a row and inside a production-size vector.",
    "C08": " Eighth round: generator windows with constant content (0x00, 0xff) besides random content.",
}
for _k, _v in _EXTRA8.items():
    CHECKS[_k]["rule"] += _v

_EXTRA8B = {
    "C10": " Eighth round: every traced message is signed eight more times with the identical generator stream while the other worker "
           "threads sign with other keys: the signature is a function of (key, message, stream) and must come out byte-identical.",
    "C12": " Eighth round: the cold-start leg runs 20000 fresh processes per quick run (150000 thorough): state drawn once per process "
           "(a blinding mask, a lazily chosen constant) is sampled that many times.",
    "C13": " Eighth round: operations during thread exit (a probe thread-local registered before the thread's first transform runs split, "
           "inverse(forward), merge and product with their oracles from its destructor, after the crate's own per-thread state is gone).",
    "C14": " Eighth round: the reference scan (40 million candidates per quick run) also keeps inputs in which a threshold chunk (61445 = 5q "
           "or 61444) lies among the last chunks consumed for 512 coefficients, beyond position n + n/16, latest first.",
    "C15": " Eighth round: sign-then-generate histories with LEAF-STEERED signing keys: candidates (f,g) of a chosen squared norm (the value "
           "that puts the first tree leaf sigma/||(f,g)|| on the width 1.43300980528773 key generation samples with, and its neighbours) "
           "are hill-climbed to a flat spectrum so that the generator accepts them, made into keys by the scripted generator of C04, and "
           "used to sign right before every key generation of the history.",
    "C16": " Eighth round: eight signatures per Falcon-1024 key under a wide-candidate generator stream (genuine compression failures "
           "before the successful attempt) must be accepted by the reference.",
    "C17": " Eighth round: ACCUMULATING transform inputs for the 30-bit field: dense random data adjusted in k+1 places so that slot 0 of a "
           "radix-2 butterfly network accumulates u + v_1 + ... + v_k with every term congruent to Q - e for tiny e's of a chosen total "
           "(k = 1..6; totals around 49156 = 4Q - 2^32); the network's shape and twiddles are read off the crate's own transform of x and "
           "the family is used only if a harness-side simulation of all layers reproduces the crate's transform.",
}
for _k, _v in _EXTRA8B.items():
    CHECKS[_k]["rule"] += _v

# ninth round
_EXTRA9 = {
    "C01": " Ninth round: object-count histories (verify under A, W-4 decodes of other public keys, then seven rounds of verify-A / fresh "
           "object of B / verify-B, W = 2^8 and 2^16, before any other thread of the leg exists).",
    "C02": " Ninth round: valid triples on extreme-hash inputs from the reference scan (s2 = 1, h = c - s1); verify while a thread is being "
           "torn down; one valid and one invalid triple verified 120000 times each on all cores (3e6 thorough).",
    "C03": " Ninth round: shared-first-use rounds: a freshly decoded public key handed to 2..16 threads behind a barrier, each verifying with it.",
    "C05": " Ninth round: decode volume: the same valid secret-key bytes decoded 160000 (Falcon-512) / 48000 (Falcon-1024) times per quick "
           "run on all cores (3e6 / 1.2e6 thorough); every result must equal the original.",
    "C06": " Ninth round: semantic extensions (the secret key followed by an 8-bit section holding its own G, F, -G, its public key, itself "
           "again; the public key followed by itself), each offered twice.",
    "C08": " Ninth round: signatures around CAUGHT PANICS of sign (a generator hook that unwinds makes one sign call per round panic).",
    "C09": " Ninth round: limb carry edges of the wide products in ApproxExp: for the final product (z from ccs, y from x) and the first one "
           "(z from x, y = C[0]) the controlled operand is solved from a congruence modulo 2^32 so that the middle column of a 32-bit-limb "
           "product sums to 2^32-1, 2^32-2, 2^32 or 2^32+1, with or without the carry of the lowest partial product.",
    "C11": " Ninth round: rejected-length probes followed by valid operations; operations during thread exit.",
    "C12": " Ninth round: a division by zero (panics; outside the domain) followed by valid operations on the same thread.",
    "C13": " Ninth round: histories that start with a transform of an unsupported length (outcome ignored).",
    "C14": " Ninth round: HashToPoint during thread exit; one input hashed 200000 times on all cores.",
}
for _k, _v in _EXTRA9.items():
    CHECKS[_k]["rule"] += _v

_EXTRA9B = {
    "C02": " Ninth round (second half): exact-fit signatures with a quiet tail (s2 fills its buffer to the last bit; last 8..40 coefficients "
           "below 128; the unary mass in front; norm well inside the bound).",
    "C04": " Ninth round (second half): every second scripted candidate changes g as well, so that f' and g' share a root of X^n+1 modulo q.",
    "C07": " Ninth round (second half): every compress call is repeated on copies of the vector placed 2, 4 and 6 bytes into an allocation "
           "(misaligned slices).",
    "C10": " Ninth round (second half): 120 traced Falcon-1024 signatures per quick run (bottom nodes whose right half samples to zero occur "
           "in 4.5% of them).",
    "C11": " Ninth round (second half): operands whose transform has one or two non-zero slots (c intt(e_i), boundary and random slots), in "
           "both operand positions.",
    "C12": " Ninth round (second half): call sequences over small operand pools (2..4 divisors, 12 calls, every result checked).",
    "C13": " Ninth round (second half): complex-valued inputs: a real polynomial plus an imaginary part of relative size 1e-12 .. 1 (eleven "
           "scales): nearly conjugate-symmetric spectra; oracles for split, merge(split) and inverse(forward).",
    "C14": " Ninth round (second half): every input is hashed as 512, 1024, 512, 1024 in a row.",
    "C15": " Ninth round (second half): one child process is PAUSED (SIGSTOP ... SIGCONT, 70 s quick / 150 s thorough) in the middle of a series "
           "of Falcon-1024 key generations.",
    "C16": " Ninth round (second half): crafted exact-fit signatures with a quiet tail: the reference verifier's verdict and falcon-rust's must agree.",
    "C17": " Ninth round (second half): quotients holding aligned blocks (u, -u), up to k = u (1 - x^(n/2)).",
}
for _k, _v in _EXTRA9B.items():
    CHECKS[_k]["rule"] += _v

# tenth round
_EXTRA10 = {
    "C01": " Tenth round: runs of messages that differ only in the middle, signed under one dictated salt, each judged by the reference as well.",
    "C02": " Tenth round: single-tall-coefficient triples (k around the square roots of both bounds, s1 = 0); a valid crafted triple for "
           "every message length 0..=8448.",
    "C08": " Tenth round: signatures made in destructors while their threads are unwinding (8 threads per wave, each guard signs twice).",
    "C09": " Tenth round: centres a hair below an integer (-5e-324, -1e-17, 1 - 2^-53, ...) in the totality and distribution legs.",
    "C14": " Tenth round: fingerprint 'first 32 and last 8 bytes' (strings that differ only in the middle).",
    "C16": " Tenth round: message-length sweep (every length 3968..=4224, every 61st up to 20000), own and reference signatures.",
}
for _k, _v in _EXTRA10.items():
    CHECKS[_k]["rule"] += _v

_EXTRA11 = {
    "C15": " Eleventh round: every pool key is regenerated (4 threads Falcon-512 x 10 rounds over 6 seeds / 6 rounds over 42 seeds, 2 threads Falcon-1024) while twenty "
           "threads loop the key generator's core at n = 4, 8, 16, and compared with its quiet-time fingerprint.",
    "C17": " Eleventh round: ill-conditioned bases (f, g multiples of (1+x) or (1+x)^2) with alternating (F,G) whose amplitude is chosen from "
           "the exact quotient so that the largest quotient coefficient lands at 2^28.5 .. 2^31.8; a disagreement is attributed to the "
           "known finding babai-i32-quotient-saturation only when the exact first quotient exceeds 2^31.",
}
for _k, _v in _EXTRA11.items():
    CHECKS[_k]["rule"] += _v

_EXTRA12 = {
    "C03": " Twelfth round: the transform-slot boundary triples of C02 (s2^, h^ in {0, 1, 2, q-1, q-2, (q+-1)/2} with the matching hash slot) under the panic monitor.",
    "C05": " Twelfth round: the same seed for both parameter sets, back to back in a fresh thread, in both orders.",
    "C06": " Twelfth round: lattice variants of a valid key whose F is in range while the implied, not serialized G leaves the 8-bit range.",
    "C08": " Twelfth round: an object that has already signed is cloned, re-decoded and cloned again at several stages; original and copies sign in the same and in fresh threads.",
    "C10": " Twelfth round: the generator records the bytes drawn by the signer's sampler and every recorded sampler output is compared with the "
           "specification's SamplerZ on those bytes; 128 (512 thorough) Falcon-1024 keys are scanned for the largest sampler centres and the top ones join the trace keys.",
    "C11": " Twelfth round: tower binomials c x^e (x^t - r) for every level t of the splitting of x^n+1 (one spectrum block zero, its sibling a single term), alone and plus a dense multiple of x^2t - r^2.",
    "C16": " Twelfth round: signatures over reference-selected (salt, message) pairs with many early hash rejections, the salt dictated through the generator hook, judged by the reference.",
}
for _k, _v in _EXTRA12.items():
    CHECKS[_k]["rule"] += _v

_EXTRA13 = {
    "C09": " Thirteenth round: the blocks and distribution legs also run on a build compiled with -C target-cpu=native (FMA, AVX2 enabled): "
           "code selected by cfg(target_feature) exists only in such builds.",
    "C01": " Thirteenth round: 200 (320) threads sharing one key sign 12 (16) MiB windows of one buffer, three each (Falcon-1024: 96 (200) threads, 8 (16) MiB): "
           "hundreds of sign calls are inside the hashing step at once (in-flight counter in the evidence).",
    "C14": " Thirteenth round: the reference scan (128e6 candidates per quick run) also keeps inputs whose stream contains two equal adjacent aligned 4-byte words.",
    "C13": " Thirteenth round: the accuracy leg also runs on the -C target-cpu=native build; inverse transforms of spectra whose results are subnormal.",
}
for _k, _v in _EXTRA13.items():
    CHECKS[_k]["rule"] += _v

NOT_APPLICABLE = {}

ENGINES = [
    {"name": "vfh", "path": "harness/", "serves_properties": sorted(CHECKS.keys()),
     "kind_free_text": "Rust harness linked against /repo's falcon-rust with the verif-hooks feature: reference models, "
                       "workload generators, panic monitor, differential/invariant/history/statistical monitors; one process per leg"},
    {"name": "vf", "path": "vf", "serves_properties": sorted(CHECKS.keys()),
     "kind_free_text": "python driver: rebuilds, runs legs under watchdogs, merges leg reports into evidence, known-findings handling, replay"},
]

