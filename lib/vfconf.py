"""Per-property configuration of the checks: legs, build profiles, evidence texts."""

BOTH = ["release", "checked"]

CHECKS = {
    "C12": {
        "title": "arithmetic modulo q is exact and canonical",
        "rule": "Exhaustive differential monitor: every i16 through Felt::new, every residue through neg/inverse/centred "
                "representative, every pair (a,b) in [0,q)^2 through add/sub/mul/multiply, compared with i64 arithmetic "
                "mod 12289 under a panic monitor, in the release and in the overflow-checked build; batch inversion on "
                "seeded vectors with zeros at every position. distinct_nontrivial = number of distinct left operands a "
                "whose complete row of q right operands was checked (all of them are non-trivial: each row exercises "
                "the conditional reductions on both sides of q).",
        "assumptions": ["the harness's own i64 % 12289 arithmetic", "operands enter through Felt::new (itself checked exhaustively)"],
        "exhaustive": True,
        "exhaustive_scope": "all 65536 conversions, all 12289 residues (unary), all 12289^2 pairs (binary); batch inversion is sampled",
        "legs": [{"name": "exhaustive", "profiles": BOTH}],
        "technique": "exhaustive differential monitor (reference-model oracle) + panic monitor on release and overflow-checked builds",
        "level_text": "Every input of the finite domain is executed on the real code and compared with an i64 reference; "
                      "complete for conversions, unary and binary operations, sampled for batch inversion.",
        "level_note": "trusted: the harness's i64 modular arithmetic; the wrappers construct operands with Felt::new",
    },
}

NOT_APPLICABLE = {}

ENGINES = [
    {"name": "vfh", "path": "harness/", "serves_properties": sorted(CHECKS.keys()),
     "kind_free_text": "Rust harness linked against /repo's falcon-rust with the verif-hooks feature: reference models, "
                       "workload generators, panic monitor, differential/invariant/history/statistical monitors; one process per leg"},
    {"name": "vf", "path": "vf", "serves_properties": sorted(CHECKS.keys()),
     "kind_free_text": "python driver: rebuilds, runs legs under watchdogs, merges leg reports into evidence, known-findings handling, replay"},
]

