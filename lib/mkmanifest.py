#!/usr/bin/env python3
"""Regenerate MANIFEST.json from lib/vfconf.py (single source of truth for the checks)."""
import json, os, subprocess, sys
ROOT = os.path.dirname(os.path.dirname(os.path.abspath(__file__)))
sys.path.insert(0, os.path.join(ROOT, "lib"))
from vfconf import CHECKS, NOT_APPLICABLE, ENGINES  # noqa

props = [json.loads(l) for l in open(os.path.join(ROOT, "properties.jsonl"))]
ids = [p["id"] for p in props]
hook_commits = []
try:
    out = subprocess.run(["git", "-C", "/repo", "log", "--format=%H %s"], capture_output=True, text=True).stdout
    for line in out.splitlines():
        h, s = line.split(" ", 1)
        if "verif-hooks" in s:
            hook_commits.append(h)
except Exception:
    pass
checks = []
for pid in ids:
    if pid not in CHECKS:
        continue
    c = CHECKS[pid]
    checks.append({
        "property_id": pid,
        "quick_cmd": "./vf check %s quick" % pid,
        "thorough_cmd": "./vf check %s thorough" % pid,
        "evidence_file": "evidence/%s.json" % pid,
        "replay_cmd_template": "./vf replay {path}",
        "engine": "vfh",
        "level_claimed": {"category": "exploration", "text": c["level_text"], "design_ref": "DESIGN.md section 3, %s" % pid},
        "level_note": c["level_note"],
        "technique": c["technique"],
    })
na = [{"property_id": pid, "reason": NOT_APPLICABLE.get(pid, "check not built yet at this commit")} for pid in ids if pid not in CHECKS]
m = {
    "version": 1,
    "setup_cmd": "./vf setup",
    "hooks": {
        "guard": "cargo feature verif-hooks (crate falcon-rust), off by default",
        "enable": "the harness crate /verif/harness depends on falcon-rust = { path = \"/repo/falcon-rust\", features = [\"verif-hooks\"] }, so every check rebuilds /repo's working tree with the hooks on",
        "baseline_off_cmd": "cd /repo && cargo test --workspace --no-fail-fast --offline",
        "source_commits": hook_commits,
        "add_only": True,
    },
    "engines": ENGINES,
    "checks": checks,
    "not_applicable": na,
    "notes": "Technique family: runtime monitoring and sanitizers. Verdicts are three-valued: exit 0 held (KNOWN-FINDING lines possible), exit 1 VIOLATION, exit 3 INCONCLUSIVE (never a VIOLATION line). VERIF_SEED selects all random choices.",
}
json.dump(m, open(os.path.join(ROOT, "MANIFEST.json"), "w"), indent=1)
print("MANIFEST.json: %d checks, %d not applicable" % (len(checks), len(na)))
