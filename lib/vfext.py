"""External legs implemented by the driver: the hook-free build, ThreadSanitizer, Miri, libFuzzer.

Each returns (status, report|None, info) like vf.run_leg: status in {ok, inconclusive, crashed}.
A report has the same shape as a vfh leg report.
"""
import json
import os
import re
import subprocess
import time


def _blank(prop, leg, tier, seed):
    return {"property": prop, "leg": leg, "profile": leg, "tier": tier, "seed": seed, "wall_s": 0.0,
            "evaluations": 0, "distinct_nontrivial": 0, "counters": {}, "stats": {}, "samples": [],
            "violations": [], "violation_counts": {}, "inconclusive": [], "notes": []}


def _run(cmd, cwd, env, timeout):
    t0 = time.time()
    try:
        p = subprocess.run(cmd, cwd=cwd, env=env, stdout=subprocess.PIPE, stderr=subprocess.PIPE, text=True, timeout=timeout)
        return p.returncode, p.stdout, p.stderr, time.time() - t0
    except subprocess.TimeoutExpired as e:
        return None, (e.stdout or b"").decode() if isinstance(e.stdout, bytes) else (e.stdout or ""), "timeout", time.time() - t0


def plain_salts(prop, leg, tier, seed, root, env):
    """C08: build falcon-rust WITHOUT the verif-hooks feature, record salts through the public
    API, and run the same history checker over them."""
    d = os.path.join(root, "harness-plain")
    rc, so, se, dt = _run(["cargo", "build", "--release", "--offline"], d, env, 1800)
    if rc != 0:
        return "inconclusive", None, "hook-free build failed: %s" % (se or "")[-500:]
    n = 20000 if tier == "quick" else 400000
    rc, so, se, dt = _run([os.path.join(d, "target", "release", "vfplain"), str(n)], d, env, 3600)
    if rc is None:
        return "inconclusive", None, "hook-free run: watchdog"
    if rc != 0:
        if rc < 0:
            return "crashed", None, "hook-free build died with signal %d: %s" % (-rc, (se or "")[-500:])
        return "inconclusive", None, "hook-free run exited %s: %s" % (rc, (se or "")[-500:])
    os.makedirs(os.path.join(root, "work"), exist_ok=True)
    path = os.path.join(root, "work", "plain-salts-%d.txt" % os.getpid())
    with open(path, "w") as f:
        f.write(so)
    bad_verify = [l for l in so.splitlines() if l.endswith("false")]
    out = os.path.join(root, "work", "plain-check-%d.json" % os.getpid())
    vfh = os.path.join(root, "harness", "target", "release", "vfh")
    rc, so2, se2, dt2 = _run([vfh, "run", "C08", "check-file", "--tier", tier, "--seed", str(seed), "--profile", "plain", "--out", out, "--", path], root, env, 600)
    os.remove(path)
    if rc != 0 or not os.path.exists(out):
        return "inconclusive", None, "salt checker failed on the hook-free history: %s" % (se2 or "")[-300:]
    rep = json.load(open(out))
    os.remove(out)
    rep["leg"] = leg["name"]
    rep["counters"]["plain_build_signatures_rejected_by_verify"] = len(bad_verify)
    return "ok", rep, ""


TSAN_TARGET = "x86_64-unknown-linux-gnu"


def tsan(prop, leg, tier, seed, root, env):
    """Build the harness with -Zsanitizer=thread (-Zbuild-std) and run the concurrency legs of the
    property under it. A ThreadSanitizer report is a violation of the concurrency clause."""
    d = os.path.join(root, "harness")
    e = dict(env)
    e["RUSTFLAGS"] = "-Zsanitizer=thread -Cforce-frame-pointers=yes"
    e["CARGO_TARGET_DIR"] = os.path.join(d, "target-tsan")
    cmd = ["cargo", "+nightly", "build", "--release", "-Zbuild-std", "--target", TSAN_TARGET, "--no-default-features"]
    rc, so, se, dt = _run(cmd, d, e, 3600)
    if rc != 0:
        return "inconclusive", None, "ThreadSanitizer build failed: %s" % (se or "")[-800:]
    vfh = os.path.join(d, "target-tsan", TSAN_TARGET, "release", "vfh")
    rep = _blank(prop, leg["name"], tier, seed)
    e2 = dict(env)
    e2["TSAN_OPTIONS"] = "halt_on_error=0 exitcode=66 report_signal_unsafe=0"
    e2["VF_SCALE"] = leg.get("scale", "20")
    e2["VF_THREADS"] = "8"
    for sub in leg.get("sublegs", []):
        sprop, sleg = sub
        out = os.path.join(root, "work", "tsan-%s-%s-%d.json" % (sprop, sleg, os.getpid()))
        os.makedirs(os.path.dirname(out), exist_ok=True)
        rc, so, se, dt = _run([vfh, "run", sprop, sleg, "--tier", "quick", "--seed", str(seed), "--profile", "tsan", "--out", out], root, e2, 3600)
        reports = len(re.findall(r"WARNING: ThreadSanitizer", se or ""))
        rep["counters"]["tsan_reports_%s_%s" % (sprop, sleg)] = reports
        rep["counters"]["tsan_runs"] = rep["counters"].get("tsan_runs", 0) + 1
        if rc is None:
            rep["inconclusive"].append("tsan %s/%s: watchdog" % (sprop, sleg))
            continue
        if reports > 0 or rc == 66:
            first = (se or "").split("WARNING: ThreadSanitizer", 1)[-1][:1500]
            rep["violations"].append({"signature": "tsan:data-race", "detail": "ThreadSanitizer reported %d issue(s) in %s/%s: %s" % (reports, sprop, sleg, first),
                                      "replay": {"cmd": "tsan build; vfh run %s %s" % (sprop, sleg)}})
            rep["violation_counts"]["tsan:data-race"] = rep["violation_counts"].get("tsan:data-race", 0) + reports
            continue
        if rc != 0 or not os.path.exists(out):
            rep["inconclusive"].append("tsan %s/%s exited %s: %s" % (sprop, sleg, rc, (se or "")[-300:]))
            continue
        sub_rep = json.load(open(out))
        os.remove(out)
        rep["evaluations"] += sub_rep["evaluations"]
        rep["distinct_nontrivial"] += sub_rep["distinct_nontrivial"]
        for k, v in sub_rep["counters"].items():
            rep["counters"]["%s_%s" % (sleg, k)] = v
        rep["violations"] += sub_rep["violations"]
        for k, v in sub_rep["violation_counts"].items():
            rep["violation_counts"][k] = rep["violation_counts"].get(k, 0) + v
        rep["inconclusive"] += sub_rep["inconclusive"]
        rep["samples"].append({"sanitizer": "thread", "leg": "%s/%s" % (sprop, sleg), "tsan_reports": reports, "wall_s": round(dt, 1)})
    rep["wall_s"] = 0.0
    return "ok", rep, ""


def miri(prop, leg, tier, seed, root, env):
    """Run harness-miri under Miri, sharded into short processes."""
    d = os.path.join(root, "harness-miri")
    rep = _blank(prop, leg["name"], tier, seed)
    shards = leg.get("shards", [])
    procs = []
    e = dict(env)
    e["MIRIFLAGS"] = leg.get("miriflags", "-Zmiri-disable-isolation")
    e["CARGO_TARGET_DIR"] = os.path.join(d, "target")
    # build once (first shard compiles; the others reuse) -- run the first shard alone
    t0 = time.time()
    pending = list(shards)
    results = []
    maxpar = 14

    def launch(sh):
        cmd = ["cargo", "+nightly", "miri", "run", "--offline", "--"] + [str(x) for x in sh]
        e3 = dict(e)
        if len(sh) >= 3 and str(sh[0]).startswith("sign"):
            e3["MIRIFLAGS"] = e["MIRIFLAGS"] + " -Zmiri-seed=%s" % sh[-1]
        return subprocess.Popen(cmd, cwd=d, env=e3, stdout=subprocess.PIPE, stderr=subprocess.PIPE, text=True)

    if not pending:
        return "inconclusive", None, "no miri shards configured"
    # compile once with a no-op shard, then run all real shards in parallel
    p = launch(["warmup"])
    try:
        so, se = p.communicate(timeout=1800)
    except subprocess.TimeoutExpired:
        p.kill()
        return "inconclusive", None, "miri: watchdog while building"
    if p.returncode != 0 or "VFMIRI" not in (so or ""):
        return "inconclusive", None, "miri build/warm-up failed: %s" % (se or "")[-600:]
    while pending or procs:
        while pending and len(procs) < maxpar:
            sh = pending.pop(0)
            procs.append((sh, launch(sh), time.time()))
        still = []
        for sh, pr, ts in procs:
            if pr.poll() is None:
                if time.time() - ts > leg.get("timeout_s", 5400):
                    pr.kill()
                    results.append((sh, None, "", "watchdog"))
                else:
                    still.append((sh, pr, ts))
            else:
                so, se = pr.communicate()
                results.append((sh, pr.returncode, so, se))
        procs = still
        time.sleep(0.5)
    for sh, rc, so, se in results:
        name = " ".join(str(x) for x in sh)
        rep["counters"]["miri_shards"] = rep["counters"].get("miri_shards", 0) + 1
        m = re.search(r"VFMIRI cases=(\d+) distinct=(\d+) violations=(\d+)", so or "")
        ub = "Undefined Behavior" in (se or "") or "error: Undefined" in (se or "") or "Data race detected" in (se or "")
        if ub:
            first = (se or "")
            i = first.find("error")
            rep["violations"].append({"signature": "miri:undefined-behaviour", "detail": "Miri reported undefined behaviour / a data race in shard [%s]: %s" % (name, first[i:i + 1500]),
                                      "replay": {"cmd": "cd harness-miri && cargo +nightly miri run -- %s" % name}})
            rep["violation_counts"]["miri:undefined-behaviour"] = rep["violation_counts"].get("miri:undefined-behaviour", 0) + 1
            continue
        if rc is None:
            rep["inconclusive"].append("miri shard [%s]: watchdog" % name)
            continue
        if m is None:
            rep["inconclusive"].append("miri shard [%s] exited %s without a summary: %s" % (name, rc, (se or "")[-400:]))
            continue
        rep["evaluations"] += int(m.group(1))
        rep["distinct_nontrivial"] += int(m.group(2))
        nv = int(m.group(3))
        if nv > 0:
            lines = [l for l in so.splitlines() if l.startswith("VFMIRI-VIOLATION")]
            for l in lines[:3]:
                rep["violations"].append({"signature": "miri:" + l.split(" ", 2)[1], "detail": l, "replay": {"cmd": "cd harness-miri && cargo +nightly miri run -- %s" % name}})
            rep["violation_counts"]["miri:oracle"] = rep["violation_counts"].get("miri:oracle", 0) + nv
        if len(rep["samples"]) < 3:
            rep["samples"].append({"interpreter": "miri", "shard": name, "cases": int(m.group(1))})
    rep["wall_s"] = time.time() - t0
    return "ok", rep, ""


def fuzz(prop, leg, tier, seed, root, env):
    d = os.path.join(root, "fuzzproj")
    rep = _blank(prop, leg["name"], tier, seed)
    secs = leg.get("seconds", 120)
    e = dict(env)
    e.pop("CARGO_NET_OFFLINE", None)
    corpus = os.path.join(root, "work", "fuzz-corpus-%d" % os.getpid())
    os.makedirs(corpus, exist_ok=True)
    # structured seeds from the harness's own generators (cursor sweep, synthetic keys)
    seeddir = os.path.join(root, "work", "fuzz-seeds-%d" % os.getpid())
    vfh = os.path.join(root, "harness", "target", "release", "vfh")
    _run([vfh, "run", "C03", "dump-corpus", "--seed", str(seed), "--out", os.devnull, "--", seeddir], root, env, 300)
    cmd = ["cargo", "+nightly", "fuzz", "run", "decode_verify", corpus]
    if os.path.isdir(seeddir):
        cmd.append(seeddir)
    cmd += ["--", "-max_total_time=%d" % secs, "-timeout=10", "-max_len=2400", "-fork=14", "-seed=%d" % seed, "-ignore_crashes=0"]
    rc, so, se, dt = _run(cmd, d, e, secs + 1800)
    text = (se or "") + (so or "")
    execs = [int(x) for x in re.findall(r"#(\d+):? ", text)]
    cov = [int(x) for x in re.findall(r"cov: (\d+)", text)]
    rep["evaluations"] = max(execs) if execs else 0
    rep["distinct_nontrivial"] = max(cov) if cov else 0
    rep["counters"]["fuzz_seconds"] = secs
    rep["counters"]["fuzz_coverage_edges"] = max(cov) if cov else 0
    art = os.path.join(d, "fuzz", "artifacts", "decode_verify")
    crashes = [f for f in (os.listdir(art) if os.path.isdir(art) else []) if f.startswith("crash-")]
    import shutil
    if crashes:
        os.makedirs(os.path.join(root, "replays"), exist_ok=True)
        pan = [l.strip() for l in text.splitlines() if "panicked at" in l]
        msg = pan[0] if pan else text[-300:]
        i = text.find(pan[0]) if pan else -1
        if i >= 0:
            msg = " ".join(text[i:i + 400].split())
        for c in crashes[:3]:
            data = open(os.path.join(art, c), "rb").read()
            rep["violations"].append({"signature": "fuzz:crash", "detail": "libFuzzer crash input %s (%d bytes): %s" % (c, len(data), msg[:400]),
                                      "replay": {"kind": "fuzz-input", "bytes": data.hex()}})
        rep["violation_counts"]["fuzz:crash"] = len(crashes)
        shutil.rmtree(art, ignore_errors=True)
    elif rc is None:
        rep["inconclusive"].append("fuzzer watchdog")
    elif rc != 0:
        rep["inconclusive"].append("fuzzer exited %s without a crash artifact: %s" % (rc, text[-400:]))
    shutil.rmtree(corpus, ignore_errors=True)
    shutil.rmtree(seeddir, ignore_errors=True)
    rep["samples"].append({"fuzzer": "libFuzzer -fork=14", "executions": rep["evaluations"], "coverage_edges": rep["distinct_nontrivial"], "seconds": secs})
    if rep["distinct_nontrivial"] < 2 and not rep["inconclusive"] and not crashes:
        rep["inconclusive"].append("fuzzer reported no coverage")
    return "ok", rep, ""


def run_external(prop, leg, tier, seed, root, env):
    kind = leg["external"]
    try:
        if kind == "plain-salts":
            return plain_salts(prop, leg, tier, seed, root, env)
        if kind == "tsan":
            return tsan(prop, leg, tier, seed, root, env)
        if kind == "miri":
            return miri(prop, leg, tier, seed, root, env)
        if kind == "fuzz":
            return fuzz(prop, leg, tier, seed, root, env)
    except Exception as ex:  # harness error: never a violation
        return "inconclusive", None, "external leg %s raised %r" % (leg["name"], ex)
    return "inconclusive", None, "external leg %s not implemented" % leg["name"]
