"""External legs (sanitizer builds, Miri, fuzzing) implemented by the driver."""


def run_external(prop, leg, tier, seed, root, env):
    return "inconclusive", None, "external leg %s not implemented" % leg["name"]
